#!/usr/bin/env python3
"""Regenerates /verif/MANIFEST.json from the table below (build-time helper, not used by the checks)."""
import json, subprocess

BUILT = open('/verif/.built').read().split()

P = {
 "C01": ("exploration", "reference-model differential monitor over generated Encode executions",
         "Runs Header.Encode on headers obtained from Decode for every body length 0..1023 x content classes (escape-dense, checksum steered to 7e/7d) and exhaustively for bodies <=3 over the special alphabet; an independent framing model and the library's own Decode judge every output. Held = no disagreement on the executions listed in the evidence.",
         "Trusted base: internal/ref framing model. Inputs outside the generated classes are unseen.", "4/C01"),
 "C02": ("exploration", "reference-model differential monitor (acceptance + fields), exhaustive short strings",
         "Differential run of JTMessage.Decode against an independent validator on all strings <=6 over the special alphabet, exhaustive single/double edits of skeleton frames (raw and re-checksummed), bit flips, escape-structure mistakes and random valid frames.",
         "Trusted base: internal/ref.Validate encodes the acceptance set stated by the property (incl. the tolerated bare 7d checksum).", "4/C02"),
 "C03": ("exploration", "panic/termination capture with exact-capacity, poisoned-tail and reused-receiver presentations",
         "Every decoding entry point is executed on valid bodies, all their prefixes, field substitutions, TLV length sweeps and random bodies in four presentations (cap==len, zero tail, 0xA5 tail, reused receiver); a panic, a tail-dependent outcome or a history-dependent outcome is a violation. Added later: bodies beyond 65535 bytes, and a decode loop that lives for 11.5 s of real time under the same watchdog (DESIGN 9.22, 9.25).",
         "Go bounds checks are the memory-safety oracle (no unsafe/cgo in the repository); the registry of entry points is compared with the Parse methods present in the tree.", "4/C03"),
 "C04": ("exploration", "stream-parser monitor through a build-tag hook, reference splitter as oracle, exhaustive 1-/2-cuts",
         "Feeds frame streams through the real packageParse (reused 1023-byte buffer, as connection.reader does) under byte-wise, per-frame, maximal, all 1-cut/2-cut and random partitions; after every feed the extracted messages must equal the frames whose closing delimiter has arrived. A socket part sends the same streams under nine write partitions to a live server, one of them with 5.6 s of real time inside a frame (DESIGN 9.28).",
         "Hook service.VerifParser mirrors connection.reader's buffer discipline; a socket variant exercises the real reader without control of read boundaries.", "4/C04"),
 "C05": ("exploration", "reassembly state-machine monitor (hook + socket), permutation enumeration",
         "Enumerates totals, every arrival order, duplicates, invalid package numbers, interleaved transfers and segmentations through the real parser, checking exactly-one complete delivery with the right body at the right moment against a reference reassembly machine; sampled orders also over loopback TCP. Added later: slow transfers replacing abandoned ones and wide transfers (512-1100 packets) that pause with most packets missing, in virtual time (DESIGN 9.25).",
         "Reference reassembly model internal/ref; behaviour for contradictory totals / empty packet bodies is not demanded.", "4/C05"),
 "C06": ("exploration", "offline history checker over recorded client/callback event logs (R-reply oracle)",
         "Simulated terminals drive a live server with every default ID, both versions, sub-packaged requests, unsupported IDs and >65536 pipelined requests; the recorded history (requests, replies, callbacks, stamps) is checked for exactly-once, correlation, order, consecutive platform serials and callback order. Added later: a part in which the terminal stops reading until a reply write is parked, stays silent 12.5 s and then checks the whole received stream frame by frame (DESIGN 9.25). A platform command whose body does not fit the length field, between replies (DESIGN 9.29).",
         "R-reply table (DESIGN Appendix C) is the trusted base; 'missing reply' is decided by FIFO order against a sentinel, not by timeouts.", "4/C06"),
 "C07": ("exploration", "round-trip law monitor over in-domain value generators",
         "For each two-way message type, in-domain values (all versions/dialects, list lengths 0..max, every terminal-parameter field by reflection) are encoded, parsed and re-encoded; helper laws (BCD, time, GBK, padding) are checked over enumerated domains. Added later: field sweeps (every numeric leaf field alone through all its values), the same law on used receivers, parse-then-assign encodes, long texts across block boundaries (DESIGN 9.20, 9.22). A part that sets time.Local to zones with daylight saving and sweeps the BCD time helpers over whole years (DESIGN 9.27).",
         "'In-domain' is the generator's reading of the wire format (DESIGN Appendix D); exclusions are listed in the evidence.", "4/C07"),
 "C08": ("exploration", "reference-model differential monitor (R-loc), exhaustive words in the thorough tier",
         "Location blocks and additional-information item streams are decoded through 0x0200, 0x0704 and 0x0801 and compared field by field with an independent transcription of the standard's tables; quick covers all single bits/pairs and every ID x length 0..40, thorough all 2^32 alarm and status words.",
         "Trusted base: internal/ref location model (DESIGN Appendix B).", "4/C08"),
 "C09": ("exploration", "snapshot-vs-later-state monitor (hook) and socket history with unique tokens under delay injection + race detector",
         "Every delivered message is snapshotted at delivery and re-read after later reads and after close; over sockets, equal-length pipelined frames with unique tokens check that replies and reassembled data belong to their own request while the writer is delayed. Added later: connections that carry several fixed headers (phones, 2013/2019), each reply addressed like the message it answers (DESIGN 9.25). Connections that end with transfers unfinished whose packets the join / not-supported / unfiltered read callbacks still hold (DESIGN 9.27). Messages handed to the write callback are kept by reference and re-checked after close (DESIGN 9.29).",
         "Hook reproduces the reader's buffer reuse; schedules limited to those produced by delay injection.", "4/C09"),
 "C10": ("fault_enumeration", "process-liveness + canary-session monitor with fsynced hostile-input journal",
         "Child processes run both servers (default and README-style parsing handlers) while hostile connections (random, mutated, adversarial headers/bodies for every ID, lifecycle faults at every stage) are enumerated; canary sessions and post-attack probes must keep being served; a dead child is attributed via the journal and panic stack. Added later: parts for descriptor exhaustion, exhaustive short sub-package histories, and clients that stop reading (heartbeat flood, re-request flood, attachment server) with canary-progress as the witness that a timeout is not a slow machine (DESIGN 9.21, 9.22). Hostile frames with a broken escape behind well-formed escape pairs (DESIGN 9.27). Attachment canaries preceded by an impostor that announces the same files, flagged as re-uploads, with the completion content of the canary's connection checked (DESIGN 9.28). One long descriptor exhaustion (6 s / 12 s) after which a new terminal must be served promptly (DESIGN 9.29).",
         "Faults are those a TCP client can cause; resource exhaustion is not claimed.", "4/C10"),
 "C11": ("exploration", "porcupine linearizability check of recorded join/leave/send histories against a sequential registry model",
         "Concurrent connect / duplicate / disconnect / reconnect / SendActiveMessage histories are recorded at the client boundary under delay injection and the race detector and checked per key against the sequential registry specification, plus callback-count side oracles. Added later: twin servers in one process, the all-zero phone, fragment-first connections, and a part that follows a stalled terminal to its leave callback, histories on a server that came up after failed Run() attempts (DESIGN 9.19-9.25). A part in which a duplicate of an online key arrives while the session manager is stalled by a terminal that stopped reading (DESIGN 9.27).",
         "Sequential spec in DESIGN Appendix F; porcupine timeouts are inconclusive.", "4/C11"),
 "C12": ("exploration", "exactly-once / correlation checker over tagged command histories",
         "Unique tags in command bodies let the monitor pair each caller's result with the serial that carried its command; terminals answer in order, reversed, late, duplicated, with unknown serials or never, across serial wrap. Added later: a part with 12 s of uninterrupted heartbeats and commands on two terminals (DESIGN 9.25). Two commands with different timeouts outstanding on one terminal (DESIGN 9.29).",
         "Time is used only in the sound direction (no result after T + generous slack).", "4/C12"),
 "C13": ("fault_enumeration", "disconnect-point enumeration with crash capture and bounded-progress monitor under delay injection",
         "Enumerates disconnect points x queued/outstanding commands 0..4 x timeouts x FIN/RST with seeded delay injection at every channel operation; the child must stay alive and every SendActiveMessage call must return within timeout + slack. Added later: a part with ten-second scenarios in real time (writer held 6.5 s, commands without a timeout, a peer that stops reading until a write blocks, serial reuse with a command outstanding, empty-key sessions, timeouts in the middle of a steady upload) (DESIGN 9.21, 9.22, 9.25).",
         "Liveness restated as bounded progress; interleavings are those the injected delays produce (distinct traces counted).", "4/C13"),
 "C14": ("exploration", "virtual-time monitor of the re-request/expiry rules through the parser hook",
         "All non-empty missing subsets for N<=9, random up to 255, idle just below/above 5 s, repeated rounds, partial resupply and the 60 s limit are driven with virtual ageing of the parser's timers and compared with a reference timer model. Added later: the first read after an idle spell completes no frame (DESIGN 9.25). Three overlapping transfers where one read ends the oldest and begins a new one (DESIGN 9.27). Transfers with 254 / 255 / 256 packets missing (DESIGN 9.29).",
         "Virtual time via hook Age(); wall-clock variant only in the sound direction.", "4/C14"),
 "C15": ("exploration", "upload-session monitor over net.Pipe (exact read partitions) with byte-exact content oracle",
         "Generated upload sessions (file sets, chunkings, orders, resends, dialects, marker bytes in names/IDs, all read partitions) run through the real connection loop; completion events are checked against what had been sent, final content against the original, and every control frame for exactly one correct reply. Added later: loopback TCP against one server per dialect, one connection with 66 500 control frames, a file of 32 MiB, a session of 12 s (thorough 65 s) in real time, clients that reset in the middle of a pipelined session next to polite ones (DESIGN 9.22, 9.25). Empty files and empty chunks (DESIGN 9.27).",
         "Hook attachment.VerifServeConn; net.Pipe makes each client write one server read.", "4/C15"),
 "C16": ("exploration", "reference interval-complement monitor, exhaustive for small files, plus socket sessions",
         "StatisticalMissSegments and the 0x9212 reply are compared with an independent interval complement for every received-byte subset of files up to 12 bytes and random large cases; resend-then-complete is driven through the server.",
         "Reference range model internal/ref.", "4/C16"),
 "C17": ("exploration", "reference-model differential monitor (R-1078) with exhaustive truncation",
         "Streams of reference-built RTP packets (all data types, marks, payload lengths around 950 and beyond) are decoded step by step and compared with the reference layout; every cut length of every packet must be reported too short, markerless data unqualified. Every payload length is also sent with the heads media payloads start with (vendor audio heads, start codes, the marker) (DESIGN 9.28).",
         "Trusted base: internal/ref JT1078 model.", "4/C17"),
 "C18": ("exploration", "Go race detector over the C06/C09/C11/C12/C13 scenario suites with delay injection",
         "The scenario suites run in race-instrumented children with seeded delay injection, repeated with different seeds; every DATA RACE block is parsed from the log and deduplicated by innermost repository functions.",
         "The race detector sees only accesses that executed; observers are lock-free so they add no happens-before edges.", "4/C18"),
 "C19": ("exploration", "file-system snapshot monitor around default-handler upload sessions in a sandbox directory",
         "Upload sessions with adversarial file names run against the default file handler in a sandbox cwd; a recursive before/after snapshot (path, size, hash) and payload tokens detect any file created or changed outside <cwd>/<phone>/.",
         "Sandbox directory tree is the observable universe; strace variant in the thorough tier.", "4/C19"),
 "C20": ("exploration", "differential monitor: simulator frames vs reference decoder, model types and a live server",
         "Every (version, phone length/pattern, command) frame is decoded by the reference model and the library, its body parsed and re-encoded, serial continuity checked across the wrap, and ExpectedReply compared with the bytes a live server writes.",
         "Trusted base: internal/ref framing model; live server in default configuration.", "4/C20"),
}

checks = []
na = []
for pid in sorted(P):
    level, tech, text, note, ref = P[pid]
    if pid in BUILT:
        checks.append({
            "property_id": pid,
            "quick_cmd": f"./vcheck.sh {pid} quick",
            "thorough_cmd": f"./vcheck.sh {pid} thorough",
            "evidence_file": f"/verif/evidence/{pid}.json",
            "replay_cmd_template": "./harness/bin/vcheck replay {path}",
            "engine": "vcheck",
            "level_claimed": {"category": level, "text": text, "design_ref": "DESIGN.md section " + ref},
            "level_note": note,
            "technique": "runtime monitoring: " + tech,
        })
    else:
        na.append({"property_id": pid, "reason": "check not built yet in this round; planned as runtime monitor (DESIGN.md section %s) - not claimed until its command exists" % ref})

commits = subprocess.run(["git", "-C", "/repo", "log", "--format=%H %s"], capture_output=True, text=True).stdout.splitlines()
hook_commits = [l.split()[0] for l in commits if l.split(' ', 1)[1].startswith("verif hooks")]

m = {
 "version": 1,
 "setup_cmd": "./setup.sh",
 "hooks": {
  "guard": "verif",
  "enable": "go build -tags verif (harness module /verif/harness with replace directives to /repo/{protocol,shared,service,attachment,terminal}); delay injection via a generated -overlay of /repo/service",
  "baseline_off_cmd": "cd /repo && for m in . attachment protocol service shared terminal; do (cd /repo/$m && GOFLAGS=-mod=mod go test -json -vet=off -count=1 -timeout 25m ./...); done",
  "source_commits": hook_commits,
  "add_only": True,
 },
 "engines": [{"name": "vcheck", "path": "/verif/harness", "serves_properties": sorted(BUILT),
              "kind_free_text": "Go orchestrator + child-process workers: reference-model differential monitors, history checkers, porcupine, race detector, crash capture"}],
 "checks": checks,
 "not_applicable": na,
 "notes": "All checks are runtime monitors over executions of the real code built from /repo's working tree (see DESIGN.md). known_findings.json lists recorded defects; replays/ holds witnesses.",
}
json.dump(m, open('/verif/MANIFEST.json', 'w'), indent=1)
print("claimed:", len(checks), "not_applicable:", len(na))
