#!/bin/bash
# usage: tools/keep_seed.sh <Cxx-a> <property> "<needs>"   — copies a confirmed seeded change into /verif/seeded/<id>/
ID="$1"; PROP="$2"; NEEDS="$3"
D=/verif/seeded/$ID; mkdir -p $D/demo
cp /tmp/wt/$ID.patch $D/patch.diff
for f in /tmp/wt/$ID-demo/*; do case "$f" in *.log|*/go.sum|*/patch.diff) ;; *) cp -r "$f" $D/demo/ ;; esac; done
# demo go.mod points at the agent's scratch worktree; record that it must be re-pointed to a tree with the patch applied
python3 - "$ID" "$PROP" "$NEEDS" <<'PY'
import json,sys
id,prop,needs=sys.argv[1:4]
json.dump({"id":id,"property":prop,"needs_to_manifest":needs,
 "confirmed":"existing tests of all modules pass with the change; demo exits non-zero with the change and 0 without it (tools/verify_seed.sh)",
 "ran":[f"tools/verify_seed.sh {id}", f"tools/seedtest.sh seeded/{id}/patch.diff quick {prop}"],
 "demo_note":"demo/go.mod replaces the five modules with the agent's scratch worktree (/tmp/wt/"+id+"); re-point the replace directives to a tree with patch.diff applied to run it"},
 open(f"/verif/seeded/{id}/meta.json","w"),indent=1)
PY
echo kept $ID
