#!/bin/bash
# usage: tools/seedtest.sh <patch.diff> <tier> <prop> [<prop> ...]
# Applies a seeded change to /repo, runs the named checks, and ALWAYS restores /repo afterwards.
# Prints one line per check: <prop> exit=<code> <first VIOLATION signature>
PATCH="$(readlink -f "$1")"; TIER="$2"; shift 2
cd /repo || exit 2
if [ -n "$(git status --porcelain)" ]; then echo "/repo not clean"; exit 2; fi
trap 'git -C /repo checkout -- . ; git -C /repo clean -fdq' EXIT
git apply "$PATCH" || { echo "patch does not apply"; exit 2; }
cd /verif
for p in "$@"; do
  cp evidence/$p.json /verif/.work/evidence.$p.keep 2>/dev/null   # evidence of the unchanged tree must survive the experiment
  out=$(VERIF_SEED=${VERIF_SEED:-1} ./vcheck.sh $p $TIER 2>&1); code=$?
  sig=$(echo "$out" | grep -m3 "signature:" | tr '\n' ';' | cut -c1-400)
  known=$(echo "$out" | grep -c "^KNOWN-FINDING")
  echo "$p exit=$code known=$known $sig"
  if [ $code -ne 0 ] && [ $code -ne 1 ]; then echo "$out" | tail -5; fi
  [ -f /verif/.work/evidence.$p.keep ] && mv /verif/.work/evidence.$p.keep evidence/$p.json
done
