#!/bin/bash
# usage: tools/verify_seed.sh <Cxx-a> [-race]
# Confirms an agent's seeded change from ITS OWN patch.diff: existing tests pass with it; demo fails with it, passes without it.
# (no git stash: the stash is shared between worktrees)
ID="$1"; RACE="$2"
WT=/tmp/wt/$ID; DEMO=/tmp/wt/$ID-demo
export GOFLAGS=-mod=mod GOPROXY=off GOSUMDB=off GOTOOLCHAIN=local
cd $WT || exit 2
[ -s $DEMO/patch.diff ] || { echo "no patch.diff"; exit 2; }
git checkout -q -- . && git clean -fdq
if ! git apply $DEMO/patch.diff; then echo "REJECT: patch.diff does not apply to HEAD"; exit 2; fi
git diff --stat | tail -4
if git diff --name-only | grep -q "_test.go\|verif_hooks"; then echo "REJECT: touches tests/hooks"; fi
ok=1
for m in attachment protocol service shared terminal; do (cd $WT/$m && go test -vet=off -count=1 ./... >/tmp/wt/$ID.test.log 2>&1) || { ok=0; echo "TESTS FAIL in $m"; tail -5 /tmp/wt/$ID.test.log; }; done
echo "existing tests with the change ok=$ok"
rundemo() {
  cd $DEMO
  if ls *_test.go >/dev/null 2>&1; then timeout 400 go test $RACE -count=1 ./... >/tmp/wt/$ID.demo.log 2>&1; else timeout 400 go run $RACE . >/tmp/wt/$ID.demo.log 2>&1; fi
  echo $?
}
echo "demo with the change:    exit=$(rundemo)   $(tail -2 /tmp/wt/$ID.demo.log | tr '\n' ' ' | cut -c1-160)"
cd $WT && git apply -R $DEMO/patch.diff
echo "demo without the change: exit=$(rundemo)   $(tail -1 /tmp/wt/$ID.demo.log | cut -c1-120)"
cd $WT && git apply $DEMO/patch.diff
cp $DEMO/patch.diff /tmp/wt/$ID.patch
