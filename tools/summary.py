#!/usr/bin/env python3
# prints a markdown table of the last recorded run per property (from evidence/*.json)
import json,glob,os
rows=[]
for f in sorted(glob.glob('/verif/evidence/C*.json')):
    d=json.load(open(f)); c=d['coverage']
    rows.append((d['property_id'],d['level'],d['tier'],d['seed'],c.get('evaluations'),c.get('distinct_nontrivial'),c.get('inconclusive',0),round(d['wall_s'],1)))
print('| property | level | tier | seed | evaluations | distinct non-trivial | inconclusive | wall s |')
print('|---|---|---|---|---|---|---|---|')
for r in rows: print('| '+' | '.join(str(x) for x in r)+' |')
