// vcheck: orchestrator and worker of the runtime monitors for go-jt808 (see /verif/DESIGN.md).
//
//	vcheck run <property> [-tier quick|thorough]      orchestrate the property's child workers, write evidence
//	vcheck worker <property> <part> -tier .. -seed .. -batch .. -out .. -journal ..   (spawned by run)
//	vcheck replay <replay.json>                       re-execute a recorded witness
package main

import (
	"flag"
	"fmt"
	"io"
	"log/slog"
	"os"
	"strconv"

	"verif/harness/internal/checks"
	"verif/harness/internal/core"
	"verif/harness/internal/yieldgen"
)

func envSeed() uint64 {
	if s := os.Getenv("VERIF_SEED"); s != "" {
		if v, err := strconv.ParseInt(s, 10, 64); err == nil {
			return uint64(v)
		}
	}
	return 1
}

func main() {
	if len(os.Args) < 2 {
		fmt.Println("usage: vcheck run|worker|replay ...")
		os.Exit(2)
	}
	if r := os.Getenv("VERIF_ROOT"); r != "" {
		core.VerifRoot = r
	}
	switch os.Args[1] {
	case "run":
		fs := flag.NewFlagSet("run", flag.ExitOnError)
		tier := fs.String("tier", "", "quick|thorough")
		if len(os.Args) < 3 {
			fmt.Println("usage: vcheck run <property>")
			os.Exit(2)
		}
		prop := os.Args[2]
		fs.Parse(os.Args[3:])
		if *tier == "" {
			*tier = os.Getenv("VERIF_TIER")
		}
		if *tier != "thorough" {
			*tier = "quick"
		}
		pl, ok := checks.Plans[prop]
		if !ok {
			fmt.Println("unknown property", prop)
			os.Exit(2)
		}
		os.Exit(core.RunPlan(pl, *tier, envSeed()))
	case "worker":
		prop, part := os.Args[2], os.Args[3]
		fs := flag.NewFlagSet("worker", flag.ExitOnError)
		tier := fs.String("tier", "quick", "")
		seed := fs.Uint64("seed", 1, "")
		batch := fs.Int("batch", 0, "")
		out := fs.String("out", "", "")
		journal := fs.String("journal", "", "")
		fs.Parse(os.Args[4:])
		w, ok := checks.Workers[prop][part]
		if !ok {
			fmt.Fprintln(os.Stderr, "unknown worker", prop, part)
			os.Exit(2)
		}
		if os.Getenv("VERIF_SLOG") == "" {
			// the library logs every rejected frame through log/slog; the monitors do not read the log
			slog.SetDefault(slog.New(slog.NewTextHandler(io.Discard, nil)))
		}
		c := core.NewCollector(prop, part, *tier, *seed)
		x := &checks.Ctx{Batch: *batch, Journal: core.OpenJournal(*journal), Out: *out}
		w(c, x)
		if *out != "" {
			if err := c.WriteTo(*out); err != nil {
				fmt.Fprintln(os.Stderr, "write report:", err)
				os.Exit(3)
			}
		} else {
			rep := c.Report()
			fmt.Fprintf(os.Stderr, "evals=%d distinct=%d violations=%d counters=%v\n", rep.Evaluations, rep.Distinct, len(rep.Violations), rep.Counters)
			for _, v := range rep.Violations {
				fmt.Fprintf(os.Stderr, "  %s x%d: %s\n", v.Signature, v.Count, v.Detail)
			}
		}
	case "yieldgen":
		sites, err := yieldgen.Generate(os.Args[2], os.Args[3])
		if err != nil {
			fmt.Fprintln(os.Stderr, err)
			os.Exit(1)
		}
		for _, s := range sites {
			fmt.Println(s)
		}
	case "replay":
		os.Exit(checks.Replay(os.Args[2]))
	default:
		fmt.Println("unknown mode", os.Args[1])
		os.Exit(2)
	}
}
