// Package yieldgen instruments a copy of a package's files with verifYield(<site>) calls before every
// channel operation, select, close, socket read/write/close and at the top of every go-func body, and
// writes an overlay.json for `go build -overlay`. The instrumented copies are regenerated from the
// current working tree on every check run; verifYield itself lives in /repo/service/verif_hooks.go (tag verif).
package yieldgen

import (
	"bytes"
	"encoding/json"
	"fmt"
	"go/ast"
	"go/parser"
	"go/printer"
	"go/token"
	"os"
	"path/filepath"
	"strings"
)

var site int
var sites []string

func hasChanOp(n ast.Node) bool {
	found := false
	ast.Inspect(n, func(x ast.Node) bool {
		switch v := x.(type) {
		case *ast.FuncLit:
			return false // do not look into nested closures
		case *ast.SendStmt:
			found = true
		case *ast.UnaryExpr:
			if v.Op == token.ARROW {
				found = true
			}
		case *ast.CallExpr:
			switch f := v.Fun.(type) {
			case *ast.Ident:
				if f.Name == "close" {
					found = true
				}
			case *ast.SelectorExpr:
				switch f.Sel.Name {
				case "Write", "Close", "Read":
					found = true
				}
			}
		}
		return !found
	})
	return found
}

func yieldStmt(fset *token.FileSet, at ast.Node, what string) ast.Stmt {
	site++
	pos := fset.Position(at.Pos())
	sites = append(sites, fmt.Sprintf("%d %s:%d %s", site, filepath.Base(pos.Filename), pos.Line, what))
	return &ast.ExprStmt{X: &ast.CallExpr{
		Fun:  ast.NewIdent("verifYield"),
		Args: []ast.Expr{&ast.BasicLit{Kind: token.INT, Value: fmt.Sprint(site)}},
	}}
}

func instrumentList(fset *token.FileSet, list []ast.Stmt) []ast.Stmt {
	var out []ast.Stmt
	for _, s := range list {
		need := false
		switch v := s.(type) {
		case *ast.SelectStmt:
			need = true
		case *ast.GoStmt:
			need = true
			_ = v
		case *ast.SendStmt:
			need = true
		case *ast.ExprStmt, *ast.AssignStmt, *ast.ReturnStmt, *ast.DeferStmt:
			need = hasChanOp(s)
		case *ast.IfStmt:
			// condition/init with channel op or conn call
			if v.Init != nil && hasChanOp(v.Init) {
				need = true
			}
			if hasChanOp(v.Cond) {
				need = true
			}
		case *ast.RangeStmt:
			need = hasChanOp(v.X)
		}
		if need {
			out = append(out, yieldStmt(fset, s, fmt.Sprintf("%T", s)))
		}
		out = append(out, s)
	}
	return out
}

func instrument(fset *token.FileSet, f *ast.File) {
	ast.Inspect(f, func(n ast.Node) bool {
		switch v := n.(type) {
		case *ast.BlockStmt:
			v.List = instrumentList(fset, v.List)
		case *ast.CaseClause:
			v.Body = instrumentList(fset, v.Body)
		case *ast.CommClause:
			v.Body = instrumentList(fset, v.Body)
			// yield at start of each select arm
			v.Body = append([]ast.Stmt{yieldStmt(fset, v, "arm")}, v.Body...)
		case *ast.GoStmt:
			if fl, ok := v.Call.Fun.(*ast.FuncLit); ok {
				fl.Body.List = append([]ast.Stmt{yieldStmt(fset, fl, "go")}, fl.Body.List...)
			}
		}
		return true
	})
}

// Generate writes instrumented copies of dir/*.go (except tests and verif_* hook files) into out and
// out/overlay.json; it returns the list of sites ("<id> file:line kind").
func Generate(dir, out string) ([]string, error) {
	site, sites = 0, nil
	if err := os.MkdirAll(out, 0o755); err != nil {
		return nil, err
	}
	fset := token.NewFileSet()
	files, _ := filepath.Glob(filepath.Join(dir, "*.go"))
	overlay := map[string]string{}
	for _, fn := range files {
		base := filepath.Base(fn)
		if strings.HasSuffix(fn, "_test.go") || strings.HasPrefix(base, "verif_") {
			continue
		}
		f, err := parser.ParseFile(fset, fn, nil, parser.ParseComments)
		if err != nil {
			return nil, err
		}
		before := site
		instrument(fset, f)
		if site == before {
			continue
		}
		var buf bytes.Buffer
		if err := printer.Fprint(&buf, fset, f); err != nil {
			return nil, err
		}
		dst := filepath.Join(out, base)
		if err := os.WriteFile(dst, buf.Bytes(), 0o644); err != nil {
			return nil, err
		}
		overlay[fn] = dst
	}
	js, _ := json.MarshalIndent(map[string]any{"Replace": overlay}, "", " ")
	if err := os.WriteFile(filepath.Join(out, "overlay.json"), js, 0o644); err != nil {
		return nil, err
	}
	return sites, nil
}
