// Package svc: building blocks of the socket-level monitors — a live service.GoJT808 on loopback,
// per-connection recording TerminalEventers, simulated terminals, the seeded yield function for the
// delay-injection overlay.
package svc

import (
	"bytes"
	"fmt"
	"math/rand/v2"
	"net"
	"os"
	"reflect"
	"runtime"
	"strconv"
	"strings"
	"sync"
	"sync/atomic"
	"time"

	"github.com/cuteLittleDevil/go-jt808/service"
	"github.com/cuteLittleDevil/go-jt808/shared/consts"

	"verif/harness/internal/ref"
)

// Clock is the one logical clock all history events are stamped from (not used in RaceMode).
var Clock atomic.Int64

// RaceMode: observers must not add happens-before edges between a connection's reader and writer goroutines
// (no shared atomics, no shared mutexes) — otherwise they would hide the races C18 looks for.
var RaceMode bool

func Stamp() int64 {
	if RaceMode {
		return 0
	}
	return Clock.Add(1)
}

type Event struct {
	Stamp    int64
	Kind     string // read | write | join | leave | notsupp
	ID       uint16
	Serial   uint16
	PSeq     uint16
	Cmd      uint16
	Phone    string
	Key      string
	Err      string
	Data     []byte // write: bytes reported as sent; read: body copy
	Raw      []byte // read: copy of ExtensionFields.TerminalData at callback time
	HdrDump  string // read (KeepMsg): every string / byte-slice field of the header, unexported ones included, at callback time
	Sum, No  uint16
	Complete bool
	Active   bool
	Msg      *service.Message // read: live pointer (re-read later by the C09 monitor)
}

// Recorder is created per accepted connection by the server (CustomTerminalEventerFunc).
// Reader-side callbacks (join, leave, read, notsupp) and writer-side callbacks (write) go to separate logs
// guarded by separate mutexes, each touched by one server goroutine only (plus the harvester at the end).
type Recorder struct {
	rmu, wmu   sync.Mutex
	rlog, wlog []Event
	registered bool
	Seq        int // creation order
	KeepMsg    bool
	Hold       func(e *Event) // optional: called inside read callbacks (C13: "while a reply callback runs")
}

var (
	regMu    sync.Mutex
	recByKey = map[string][]*Recorder{} // "phone/firstSerial" -> recorders
	allRecs  []*Recorder
	recSeq   int
)

func NewRecorder() *Recorder {
	regMu.Lock()
	recSeq++
	r := &Recorder{Seq: recSeq}
	allRecs = append(allRecs, r)
	regMu.Unlock()
	return r
}

// DumpBytesAndStrings renders every string and byte-slice field of a value — exported or not, through pointers and nested
// structs — as "path=hex;". Unexported fields are read through reflect's read-only access. Two dumps of the same delivered
// header taken at different times must be equal: integer fields (reply ID, platform serial) are legitimately rewritten by the
// writer and are left out, but bytes and text of a message that was handed out must not change.
func DumpBytesAndStrings(v any) string {
	var sb strings.Builder
	var walk func(path string, rv reflect.Value, depth int)
	walk = func(path string, rv reflect.Value, depth int) {
		if depth > 4 {
			return
		}
		switch rv.Kind() {
		case reflect.Pointer, reflect.Interface:
			if !rv.IsNil() {
				walk(path, rv.Elem(), depth+1)
			}
		case reflect.Struct:
			for i := 0; i < rv.NumField(); i++ {
				walk(path+"."+rv.Type().Field(i).Name, rv.Field(i), depth+1)
			}
		case reflect.String:
			fmt.Fprintf(&sb, "%s=%x;", path, rv.String())
		case reflect.Slice:
			if rv.Type().Elem().Kind() == reflect.Uint8 {
				fmt.Fprintf(&sb, "%s=%x;", path, rv.Bytes())
			}
		}
	}
	walk("", reflect.ValueOf(v), 0)
	return sb.String()
}

func identKey(phone string, serial uint16) string { return phone + "/" + strconv.Itoa(int(serial)) }

func (r *Recorder) register(m *service.Message) {
	if r.registered || m == nil || m.JTMessage == nil || m.JTMessage.Header == nil {
		return
	}
	r.registered = true
	k := identKey(m.JTMessage.Header.TerminalPhoneNo, m.JTMessage.Header.SerialNumber)
	regMu.Lock()
	recByKey[k] = append(recByKey[k], r)
	regMu.Unlock()
}

// Lookup finds the recorder of the connection whose first message had this phone and serial.
func Lookup(phone string, firstSerial uint16) *Recorder {
	regMu.Lock()
	defer regMu.Unlock()
	l := recByKey[identKey(phone, firstSerial)]
	if len(l) == 0 {
		return nil
	}
	return l[len(l)-1]
}

func LookupAll(phone string, firstSerial uint16) []*Recorder {
	regMu.Lock()
	defer regMu.Unlock()
	return append([]*Recorder{}, recByKey[identKey(phone, firstSerial)]...)
}

func (r *Recorder) addR(e Event) {
	e.Stamp = Stamp()
	r.rmu.Lock()
	r.rlog = append(r.rlog, e)
	r.rmu.Unlock()
}

func hdr(m *service.Message) (id, serial uint16, phone string) {
	if m != nil && m.JTMessage != nil && m.JTMessage.Header != nil {
		h := m.JTMessage.Header
		return h.ID, h.SerialNumber, h.TerminalPhoneNo
	}
	return
}

// keep (KeepMsg): the event remembers the message object itself plus a snapshot of everything a callback can read from it
func (r *Recorder) keep(e *Event, m *service.Message) {
	if !r.KeepMsg || m == nil {
		return
	}
	e.Msg = m
	e.Raw = bytes.Clone(m.ExtensionFields.TerminalData)
	if m.JTMessage != nil {
		e.Data = bytes.Clone(m.JTMessage.Body)
		e.HdrDump = DumpBytesAndStrings(m.JTMessage.Header)
		if m.JTMessage.Header != nil {
			e.Sum, e.No = m.JTMessage.Header.SubPackageSum, m.JTMessage.Header.SubPackageNo
		}
	}
}

func (r *Recorder) OnJoinEvent(m *service.Message, key string, err error) {
	r.register(m)
	id, serial, phone := hdr(m)
	e := Event{Kind: "join", ID: id, Serial: serial, Phone: phone, Key: key}
	if err != nil {
		e.Err = err.Error()
	}
	r.keep(&e, m)
	r.addR(e)
}
func (r *Recorder) OnLeaveEvent(key string) { r.addR(Event{Kind: "leave", Key: key}) }
func (r *Recorder) OnNotSupportedEvent(m *service.Message) {
	r.register(m)
	id, serial, phone := hdr(m)
	e := Event{Kind: "notsupp", ID: id, Serial: serial, Phone: phone}
	r.keep(&e, m)
	r.addR(e)
}
func (r *Recorder) OnReadExecutionEvent(m *service.Message) {
	r.register(m)
	id, serial, phone := hdr(m)
	e := Event{Kind: "read", ID: id, Serial: serial, Phone: phone, Complete: m.ExtensionFields.SubcontractComplete, Active: m.ExtensionFields.ActiveSend}
	if m.JTMessage != nil {
		e.Data = bytes.Clone(m.JTMessage.Body)
	}
	if r.KeepMsg {
		e.Msg = m
		e.Raw = bytes.Clone(m.ExtensionFields.TerminalData)
		if m.JTMessage != nil {
			e.HdrDump = DumpBytesAndStrings(m.JTMessage.Header)
		}
		if m.JTMessage != nil && m.JTMessage.Header != nil {
			e.Sum, e.No = m.JTMessage.Header.SubPackageSum, m.JTMessage.Header.SubPackageNo
		}
	}
	if r.Hold != nil {
		r.Hold(&e)
	}
	r.addR(e)
}

// SlowWrite: phone -> time.Duration; the write callback of that terminal's connection sleeps that long
// (C13: "while a reply callback runs"). Looked up only when non-empty.
var SlowWrite sync.Map

func (r *Recorder) OnWriteExecutionEvent(m service.Message) {
	id, serial, phone := hdr(&m)
	if d, ok := SlowWrite.Load(phone); ok {
		time.Sleep(d.(time.Duration))
	}
	e := Event{Kind: "write", ID: id, Serial: serial, Phone: phone, PSeq: m.ExtensionFields.PlatformSeq, Cmd: uint16(m.ExtensionFields.PlatformCommand),
		Data: bytes.Clone(m.ExtensionFields.PlatformData), Active: m.ExtensionFields.ActiveSend}
	if m.ExtensionFields.Err != nil {
		e.Err = m.ExtensionFields.Err.Error()
	}
	if r.KeepMsg {
		e.Raw = m.ExtensionFields.PlatformData // NOT a copy: the bytes the callback was handed, to be compared with e.Data later
	}
	e.Stamp = Stamp()
	r.wmu.Lock()
	r.wlog = append(r.wlog, e)
	r.wmu.Unlock()
}

// ReaderLog / WriterLog return copies of what has been recorded so far.
func (r *Recorder) ReaderLog() []Event {
	r.rmu.Lock()
	defer r.rmu.Unlock()
	return append([]Event{}, r.rlog...)
}
func (r *Recorder) WriterLog() []Event {
	r.wmu.Lock()
	defer r.wmu.Unlock()
	return append([]Event{}, r.wlog...)
}

func (r *Recorder) Count(kind string) int {
	n := 0
	for _, e := range r.ReaderLog() {
		if e.Kind == kind {
			n++
		}
	}
	for _, e := range r.WriterLog() {
		if e.Kind == kind {
			n++
		}
	}
	return n
}

// WaitLeave polls (bounded) until the leave callback has been recorded; false = not seen (inconclusive, not a verdict).
func (r *Recorder) WaitLeave(d time.Duration) bool {
	deadline := time.Now().Add(d)
	for time.Now().Before(deadline) {
		for _, e := range r.ReaderLog() {
			if e.Kind == "leave" {
				return true
			}
		}
		time.Sleep(2 * time.Millisecond)
	}
	return false
}

// ---------------------------------------------------------------------------------------------
// Server

type Server struct {
	G    *service.GoJT808
	Addr string
}

func FreeAddr() string {
	l, err := net.Listen("tcp", "127.0.0.1:0")
	if err != nil {
		return "127.0.0.1:0"
	}
	a := l.Addr().String()
	l.Close()
	return a
}

// Start runs a server on a free loopback port and waits until it accepts connections.
// recorder == nil keeps the library's default terminal eventer.
func Start(recorder func() service.TerminalEventer, extra ...service.Option) (*Server, error) {
	for attempt := 0; attempt < 20; attempt++ {
		addr := FreeAddr()
		opts := []service.Option{service.WithHostPorts(addr)}
		if recorder != nil {
			opts = append(opts, service.WithCustomTerminalEventer(recorder))
		}
		opts = append(opts, extra...)
		g := service.New(opts...)
		go g.Run()
		for i := 0; i < 200; i++ {
			c, err := net.DialTimeout("tcp", addr, 200*time.Millisecond)
			if err == nil {
				c.Close() // connect-and-close probe (itself one of the lifecycles the server must survive)
				return &Server{G: g, Addr: addr}, nil
			}
			time.Sleep(5 * time.Millisecond)
		}
	}
	return nil, fmt.Errorf("server did not start listening")
}

// StartAfterFailedRuns: an application that starts its server while the port is still taken (the previous instance is
// shutting down) and retries: Run() is called `failed` times on the SAME object while another listener holds the port (each call
// logs the listen failure and returns), then the port is released and Run() is called once more and serves.
func StartAfterFailedRuns(recorder func() service.TerminalEventer, failed int, extra ...service.Option) (*Server, error) {
	for attempt := 0; attempt < 20; attempt++ {
		hold, err := net.Listen("tcp", "127.0.0.1:0")
		if err != nil {
			continue
		}
		addr := hold.Addr().String()
		opts := []service.Option{service.WithHostPorts(addr)}
		if recorder != nil {
			opts = append(opts, service.WithCustomTerminalEventer(recorder))
		}
		opts = append(opts, extra...)
		g := service.New(opts...)
		returned := true
		for k := 0; k < failed && returned; k++ {
			done := make(chan struct{})
			go func() { g.Run(); close(done) }()
			select {
			case <-done:
			case <-time.After(10 * time.Second):
				returned = false
			}
		}
		hold.Close()
		if !returned {
			return nil, fmt.Errorf("Run() did not return although the port was taken")
		}
		go g.Run()
		for i := 0; i < 200; i++ {
			c, err := net.DialTimeout("tcp", addr, 200*time.Millisecond)
			if err == nil {
				c.Close()
				return &Server{G: g, Addr: addr}, nil
			}
			time.Sleep(5 * time.Millisecond)
		}
	}
	return nil, fmt.Errorf("server did not start listening")
}

// ---------------------------------------------------------------------------------------------
// Simulated terminal

type Rx struct {
	Stamp int64
	F     *ref.Frame // nil if the bytes between two delimiters are not a valid frame
	Raw   []byte
}

type Term struct {
	VerByte int // 0: default (version byte 1); otherwise the version byte to send, plus 1
	Conn    *net.TCPConn
	V2019   bool
	BCD     []byte
	Phone   string
	Rx      chan Rx
	rxDone  chan struct{}
	wmu     sync.Mutex
	peekMu  sync.Mutex
	peeked  *peeked
}

// PhoneBCD renders a decimal string into n BCD bytes, left-padded with zeros.
func PhoneBCD(digits string, n int) []byte {
	for len(digits) < 2*n {
		digits = "0" + digits
	}
	b := make([]byte, n)
	for i := 0; i < n; i++ {
		b[i] = (digits[2*i]-'0')<<4 | (digits[2*i+1] - '0')
	}
	return b
}

func Dial(addr string, v2019 bool, digits string) (*Term, error) {
	c, err := net.DialTimeout("tcp", addr, 5*time.Second)
	if err != nil {
		return nil, err
	}
	tc := c.(*net.TCPConn)
	tc.SetNoDelay(true)
	n := 6
	if v2019 {
		n = 10
	}
	t := &Term{Conn: tc, V2019: v2019, BCD: PhoneBCD(digits, n), Rx: make(chan Rx, 1<<17), rxDone: make(chan struct{})}
	t.Phone = ref.PhoneString(t.BCD)
	go t.readLoop()
	return t, nil
}

func (t *Term) readLoop() {
	defer close(t.rxDone)
	defer close(t.Rx)
	var cur []byte
	buf := make([]byte, 65536)
	for {
		k, err := t.Conn.Read(buf)
		for _, b := range buf[:k] {
			cur = append(cur, b)
			if b == 0x7e && len(cur) > 1 {
				f, ok := ref.Validate(cur)
				if !ok {
					f = nil
				}
				t.Rx <- Rx{Stamp: Stamp(), F: f, Raw: cur}
				cur = nil
			}
		}
		if err != nil {
			return
		}
	}
}

// Frame builds a terminal frame with this terminal's addressing.
// verByte is the protocol-version-number byte of the 2019 header (1 unless the test chose another: VerByte = value + 1).
func (t *Term) verByte() byte {
	if t.VerByte == 0 {
		return 1
	}
	return byte(t.VerByte - 1)
}

func (t *Term) Frame(id, serial uint16, body []byte) []byte {
	return ref.Build(ref.Params{ID: id, V2019: t.V2019, VersionByt: t.verByte(), BCD: t.BCD, Serial: serial, Body: body})
}
func (t *Term) SubFrame(id, serial, sum, no uint16, body []byte) []byte {
	return ref.Build(ref.Params{ID: id, V2019: t.V2019, VersionByt: t.verByte(), BCD: t.BCD, Serial: serial, Fragmented: true, Sum: sum, No: no, Body: body})
}

func (t *Term) Write(b []byte) error {
	t.wmu.Lock()
	defer t.wmu.Unlock()
	_, err := t.Conn.Write(b)
	return err
}

// Next waits for the next frame from the server. ok=false: connection closed. timedOut: watchdog (inconclusive).
type peeked struct {
	rx Rx
	ok bool
}

func (t *Term) Next(d time.Duration) (rx Rx, ok bool, timedOut bool) {
	t.peekMu.Lock()
	if p := t.peeked; p != nil {
		t.peeked = nil
		t.peekMu.Unlock()
		return p.rx, p.ok, false
	}
	t.peekMu.Unlock()
	return t.nextRaw(d)
}

func (t *Term) nextRaw(d time.Duration) (rx Rx, ok bool, timedOut bool) {
	select {
	case rx, ok = <-t.Rx:
		return rx, ok, false
	case <-time.After(d):
		return Rx{}, false, true
	}
}

// Peek waits like Next but leaves the frame in place for the following Next.
func (t *Term) Peek(d time.Duration) (rx Rx, ok bool, timedOut bool) {
	t.peekMu.Lock()
	defer t.peekMu.Unlock()
	if t.peeked != nil {
		return t.peeked.rx, t.peeked.ok, false
	}
	rx, ok, timedOut = t.nextRaw(d)
	if !timedOut {
		t.peeked = &peeked{rx, ok}
	}
	return
}

func (t *Term) Close() { t.Conn.Close() }

// Reset closes with RST (SO_LINGER 0).
func (t *Term) Reset() {
	t.Conn.SetLinger(0)
	t.Conn.Close()
}

// WaitClosed waits until the server side has closed the connection (EOF / reset seen by the read loop).
func (t *Term) WaitClosed(d time.Duration) bool {
	select {
	case <-t.rxDone:
		return true
	case <-time.After(d):
		return false
	}
}

// ---------------------------------------------------------------------------------------------
// Yield function for the delay-injection overlay (service.VerifYield)

const traceCap = 1 << 16

var (
	yieldSeed  uint64
	yieldCtr   atomic.Uint64
	SiteHits   [256]atomic.Uint64
	traceRing  [traceCap]atomic.Uint32
	traceIndex atomic.Uint64
	YieldLevel atomic.Int32 // 0 off, 1 light (Gosched / short sleeps), 2 heavy
)

func mix(x uint64) uint64 {
	x ^= x >> 31
	x *= 0x94D049BB133111EB
	x ^= x >> 29
	x *= 0xBF58476D1CE4E5B9
	x ^= x >> 32
	return x
}

// InstallYield wires the overlay's scheduling points to a seeded (or, in RaceMode, unsynchronised random) delay source.
func InstallYield(seed uint64) {
	yieldSeed = seed
	YieldLevel.Store(1)
	if RaceMode {
		// no shared atomics here: decisions come from the runtime's per-thread random source
		service.VerifYield = func(site int) {
			x := rand.Uint64()
			switch x % 16 {
			case 0, 1, 2, 3:
				runtime.Gosched()
			case 4, 5:
				time.Sleep(time.Duration(20+x>>8%300) * time.Microsecond)
			case 6:
				if x>>16%4 == 0 {
					time.Sleep(time.Duration(1+x>>8%2) * time.Millisecond)
				}
			}
		}
		return
	}
	service.VerifYield = func(site int) {
		lvl := YieldLevel.Load()
		if site >= 0 && site < len(SiteHits) {
			SiteHits[site].Add(1)
		}
		i := traceIndex.Add(1) - 1
		traceRing[i%traceCap].Store(uint32(site))
		if lvl == 0 {
			return
		}
		n := yieldCtr.Add(1)
		x := mix((n*0x9E3779B97F4A7C15 + uint64(site)*0xBF58476D1CE4E5B9) ^ yieldSeed)
		switch x % 16 {
		case 0, 1, 2, 3:
			runtime.Gosched()
		case 4, 5:
			time.Sleep(time.Duration(20+x>>8%300) * time.Microsecond)
		case 6:
			if lvl >= 2 || x>>16%4 == 0 {
				time.Sleep(time.Duration(1+x>>8%3) * time.Millisecond)
			}
		}
	}
}

// TraceMark returns the current position of the site trace; TraceHash hashes the site order since a mark.
func TraceMark() uint64 { return traceIndex.Load() }
func TraceHash(from uint64) (hash uint64, n int) {
	to := traceIndex.Load()
	if to-from > traceCap {
		from = to - traceCap
	}
	h := uint64(1469598103934665603)
	for i := from; i < to; i++ {
		h = (h ^ uint64(traceRing[i%traceCap].Load())) * 1099511628211
	}
	return h, int(to - from)
}

func SitesHit() (distinct int, total uint64) {
	for i := range SiteHits {
		if v := SiteHits[i].Load(); v > 0 {
			distinct++
			total += v
		}
	}
	return
}

// YieldFromEnv installs the yield function when the child was asked to (VERIF_YIELD=1).
func YieldFromEnv(seed uint64) bool {
	if os.Getenv("VERIF_YIELD") == "" {
		return false
	}
	InstallYield(seed)
	return true
}

var _ = consts.T0002HeartBeat
