// Package att: upload sessions against the attachment server — independent builders for the control
// frames (0x1210/0x1211/0x1212) and chunk headers of all five dialects, a recording FileEventer, and a
// runner over net.Pipe (exact control of the read partition through the hook attachment.VerifServeConn)
// or loopback TCP.
package att

import (
	"bytes"
	"fmt"
	"net"
	"sync"
	"sync/atomic"
	"time"

	"github.com/cuteLittleDevil/go-jt808/attachment"
	"github.com/cuteLittleDevil/go-jt808/shared/consts"

	"verif/harness/internal/ref"
)

func be32(v uint32) []byte { return []byte{byte(v >> 24), byte(v >> 16), byte(v >> 8), byte(v)} }

func pad(s []byte, n int) []byte {
	b := make([]byte, n)
	copy(b, s)
	return b
}

// dialect layout: terminal-ID width inside the alarm sign, alarm-sign width, and whether 0x1210 starts with a terminal ID
func dialectLens(d consts.ActiveSafetyType) (idLen, signLen int, hasTermID bool) {
	switch d {
	case consts.ActiveSafetyHLJ:
		return 30, 38, false
	case consts.ActiveSafetyGD:
		return 30, 40, true
	case consts.ActiveSafetyHN:
		return 7, 32, true
	case consts.ActiveSafetySC:
		return 30, 39, true
	}
	return 7, 16, true
}

type File struct {
	Name    []byte
	Size    uint32
	Content []byte
}

// Body1210 builds the alarm-attachment information message for the dialect.
func Body1210(d consts.ActiveSafetyType, termID, alarmID []byte, files []File) []byte {
	idLen, signLen, has := dialectLens(d)
	var b []byte
	if has {
		b = append(b, pad(termID, idLen)...)
	}
	sign := pad(termID, idLen)
	sign = append(sign, 0x24, 0x11, 0x11, 0x00, 0x00, 0x00) // BCD time
	sign = append(sign, 1, byte(len(files)))
	sign = pad(sign, signLen)
	b = append(b, sign...)
	b = append(b, pad(alarmID, 32)...)
	b = append(b, 0, byte(len(files)))
	for _, f := range files {
		b = append(b, byte(len(f.Name)))
		b = append(b, f.Name...)
		b = append(b, be32(f.Size)...)
	}
	return b
}

// SetInfoType overwrites the information-type byte of a 0x1210 body built by Body1210 (0x00 = alarm files, 0x01 = re-upload).
func SetInfoType(body []byte, files []File, v byte) {
	n := 2
	for _, f := range files {
		n += 1 + len(f.Name) + 4
	}
	body[len(body)-n] = v
}

func Body1211(f File, typ byte) []byte {
	b := append([]byte{byte(len(f.Name))}, f.Name...)
	b = append(b, typ)
	return append(b, be32(f.Size)...)
}

// ChunkHeader: 30 31 63 64 | name[50] (HLJ: len + name) | offset u32 | length u32
func ChunkHeader(d consts.ActiveSafetyType, name []byte, off, ln uint32) []byte {
	b := []byte{0x30, 0x31, 0x63, 0x64}
	if d == consts.ActiveSafetyHLJ {
		b = append(b, byte(len(name)))
		b = append(b, name...)
	} else {
		b = append(b, pad(name, 50)...)
	}
	b = append(b, be32(off)...)
	return append(b, be32(ln)...)
}

// Unit is one protocol unit of the byte stream: a control frame or a chunk.
type Unit struct {
	Data   []byte
	Ctrl   bool
	ID     uint16
	Serial uint16
	File   int
	Off    uint32
	Len    uint32
}

// Event is a deep copy of what the FileEventer saw.
type Event struct {
	Stage       attachment.ProgressStage
	Err         string
	Cur         string
	CurSize     uint32
	FileSize    uint32
	Body        []byte // StreamBody of the current package at a StreamDataComplete event
	StartedUpTo int64  // number of stream bytes the client had STARTED writing when the event fired (upper bound of what arrived)
	Record      map[string][]byte
	HasMsg      bool
}

type Recorder struct {
	mu      sync.Mutex
	Evs     []Event
	Started *atomic.Int64
	Delay   time.Duration // an application handler that takes this long per event (logging, fsync)
}

func (r *Recorder) OnEvent(p *attachment.PackageProgress) {
	if r.Delay > 0 {
		time.Sleep(r.Delay)
	}
	e := Event{Stage: p.ProgressStage, HasMsg: p.ExtensionFields.RecentTerminalMessage != nil}
	if r.Started != nil {
		e.StartedUpTo = r.Started.Load()
	}
	if p.ExtensionFields.Err != nil {
		e.Err = p.ExtensionFields.Err.Error()
	}
	if cp := p.ExtensionFields.CurrentPackage; cp != nil {
		e.Cur, e.CurSize, e.FileSize = cp.FileName, cp.CurrentSize, cp.FileSize
		if p.ProgressStage == attachment.ProgressStageStreamDataComplete {
			e.Body = bytes.Clone(cp.StreamBody)
		}
	}
	if p.ProgressStage == attachment.ProgressStageSuccessQuit || p.ProgressStage == attachment.ProgressStageFailQuit {
		e.Record = map[string][]byte{}
		for k, v := range p.Record {
			e.Record[k] = bytes.Clone(v.StreamBody)
		}
	}
	r.mu.Lock()
	r.Evs = append(r.Evs, e)
	r.mu.Unlock()
}

func (r *Recorder) Events() []Event {
	r.mu.Lock()
	defer r.mu.Unlock()
	return append([]Event{}, r.Evs...)
}

// Session result
type Result struct {
	Replies    []*ref.Frame // decoded frames the server wrote (nil entry: undecodable)
	RawReplies [][]byte
	Events     []Event
	WriteErr   bool // the server stopped reading (session aborted) before the client finished
	TimedOut   bool // watchdog (inconclusive)
}

// RunPipe drives one session through the real per-connection loop over net.Pipe: every element of writes
// arrives as exactly one server read (writes are kept <= 60000 bytes by the callers).
func RunPipe(d consts.ActiveSafetyType, writes [][]byte, wantReplies int, fe func(started *atomic.Int64) attachment.FileEventer) Result {
	var started atomic.Int64
	g := attachment.New(attachment.WithActiveSafetyType(d), attachment.WithFileEventerFunc(func() attachment.FileEventer { return fe(&started) }))
	cli, srv := net.Pipe()
	done := make(chan struct{})
	go func() { attachment.VerifServeConn(g, srv); close(done) }()
	return drive(cli, writes, &started, done, wantReplies)
}

// wantReplies > 0 (TCP, asynchronous): wait (bounded by a 20 s watchdog) until that many frames came back before closing.
func drive(cli net.Conn, writes [][]byte, started *atomic.Int64, done chan struct{}, wantReplies int) Result {
	var res Result
	var rmu sync.Mutex
	rdone := make(chan struct{})
	go func() {
		defer close(rdone)
		var cur []byte
		buf := make([]byte, 8192)
		for {
			n, err := cli.Read(buf)
			for _, b := range buf[:n] {
				cur = append(cur, b)
				if b == 0x7e && len(cur) > 1 {
					f, ok := ref.Validate(cur)
					if !ok {
						f = nil
					}
					rmu.Lock()
					res.Replies = append(res.Replies, f)
					res.RawReplies = append(res.RawReplies, cur)
					rmu.Unlock()
					cur = nil
				}
			}
			if err != nil {
				return
			}
		}
	}()
	var serverEnded atomic.Bool
	if done != nil {
		// the per-connection loop does not close the connection when it gives up; unblock our pending write then
		go func() {
			<-done
			serverEnded.Store(true)
			cli.SetWriteDeadline(time.Now())
		}()
	}
	for _, w := range writes {
		started.Add(int64(len(w)))
		if !serverEnded.Load() {
			cli.SetWriteDeadline(time.Now().Add(20 * time.Second))
		}
		if _, err := cli.Write(w); err != nil {
			if ne, ok := err.(net.Error); ok && ne.Timeout() && !serverEnded.Load() {
				res.TimedOut = true
			} else {
				res.WriteErr = true
			}
			break
		}
	}
	// the last reply is written by the server after it consumed the last write: wait (bounded) until the reply count is stable
	if wantReplies > 0 && !res.WriteErr {
		// wait for the reply to the last control frame (the callers end every session with a sentinel frame): decided by
		// order, not by time; the server loop ending (done) or the 20 s watchdog end the wait
		deadline := time.Now().Add(20 * time.Second)
		for time.Now().Before(deadline) && !serverEnded.Load() {
			rmu.Lock()
			n := len(res.Replies)
			rmu.Unlock()
			if n >= wantReplies {
				break
			}
			time.Sleep(200 * time.Microsecond)
		}
		rmu.Lock()
		if len(res.Replies) < wantReplies && !serverEnded.Load() {
			res.TimedOut = true
		}
		rmu.Unlock()
	}
	last, stable := -1, 0
	for i := 0; i < 4000 && stable < 3; i++ {
		rmu.Lock()
		n := len(res.Replies)
		rmu.Unlock()
		if n == last {
			stable++
		} else {
			stable, last = 0, n
		}
		time.Sleep(500 * time.Microsecond)
	}
	cli.Close()
	if done != nil {
		select {
		case <-done:
		case <-time.After(20 * time.Second):
			res.TimedOut = true
		}
	}
	select {
	case <-rdone:
	case <-time.After(20 * time.Second):
		res.TimedOut = true
	}
	return res
}

// RunTCP drives the session over loopback TCP against a server started with attachment.New(...).Run().
func RunTCP(addr string, writes [][]byte, started *atomic.Int64, wantReplies int) Result {
	c, err := net.DialTimeout("tcp", addr, 5*time.Second)
	if err != nil {
		return Result{TimedOut: true}
	}
	return drive(c, writes, started, nil, wantReplies)
}

// StartTCP starts an attachment server on a free loopback port.
func StartTCP(opts ...attachment.Option) (string, error) {
	for attempt := 0; attempt < 20; attempt++ {
		l, err := net.Listen("tcp", "127.0.0.1:0")
		if err != nil {
			continue
		}
		addr := l.Addr().String()
		l.Close()
		g := attachment.New(append([]attachment.Option{attachment.WithHostPorts(addr)}, opts...)...)
		go g.Run()
		for i := 0; i < 200; i++ {
			c, err := net.DialTimeout("tcp", addr, 200*time.Millisecond)
			if err == nil {
				// note: this probe is a connect-and-close, one of the lifecycles the server must survive (C10)
				c.Close()
				return addr, nil
			}
			time.Sleep(5 * time.Millisecond)
		}
	}
	return "", fmt.Errorf("attachment server did not start")
}

// RunPipeStaged writes burst as ONE write (one server read over net.Pipe, whatever its size up to the server's buffer), waits up
// to quiet for `want` reply frames, and only then writes the sentinel. It reports how many replies had arrived before the
// sentinel was sent and how long after the sentinel the remaining ones came: replies that a terminal is waiting for must not
// depend on further input.
func RunPipeStaged(d consts.ActiveSafetyType, burst, sentinel []byte, want int, quiet time.Duration) (before, total int, afterDelay time.Duration, timedOut bool) {
	g := attachment.New(attachment.WithActiveSafetyType(d), attachment.WithFileEventerFunc(func() attachment.FileEventer { return &Recorder{} }))
	cli, srv := net.Pipe()
	done := make(chan struct{})
	go func() { attachment.VerifServeConn(g, srv); close(done) }()
	var n atomic.Int64
	go func() {
		buf := make([]byte, 8192)
		in := false
		for {
			k, err := cli.Read(buf)
			for _, b := range buf[:k] {
				if b == 0x7e {
					if in {
						n.Add(1)
					}
					in = !in
				}
			}
			if err != nil {
				return
			}
		}
	}()
	cli.SetWriteDeadline(time.Now().Add(20 * time.Second))
	if _, err := cli.Write(burst); err != nil {
		cli.Close()
		return 0, 0, 0, true
	}
	t0 := time.Now()
	for time.Since(t0) < quiet && int(n.Load()) < want {
		time.Sleep(200 * time.Microsecond)
	}
	before = int(n.Load())
	t1 := time.Now()
	cli.SetWriteDeadline(time.Now().Add(20 * time.Second))
	if _, err := cli.Write(sentinel); err != nil {
		cli.Close()
		return before, before, 0, true
	}
	for time.Since(t1) < quiet && int(n.Load()) < want+1 {
		time.Sleep(200 * time.Microsecond)
	}
	afterDelay = time.Since(t1)
	total = int(n.Load())
	cli.Close()
	select {
	case <-done:
	case <-time.After(20 * time.Second):
		timedOut = true
	}
	return
}
