package checks

import (
	"bytes"
	"fmt"
	"net"
	"sync"
	"sync/atomic"
	"time"

	"github.com/cuteLittleDevil/go-jt808/attachment"
	"github.com/cuteLittleDevil/go-jt808/shared/consts"
	"verif/harness/internal/att"
	"verif/harness/internal/core"
	"verif/harness/internal/gen"
	"verif/harness/internal/ref"
)

// Dimensions the random sessions do not reach (C15): ONE connection that carries more than 65 536 control frames (the
// numbering of the replies wraps), ONE file of more than 32 MiB, and ONE session that takes longer in real time than any
// deadline a server may put on its socket.

// c15LongConnection: 13 300 alarms of two 3-byte files each on one connection = 66 500 control frames; every reply is the
// prescribed one and carries platform serial i mod 65536; every file completes with its content.
func c15LongConnection(c *core.Collector, d consts.ActiveSafetyType) {
	const alarms = 13300
	bcd := []byte{0x01, 0x38, 0x00, 0x00, 0x66, 0x66}
	var stream []byte
	var expect []*ref.Reply
	var files []att.File
	serial := uint16(65000) // request serials wrap on the way too
	general := func(id, s uint16) *ref.Reply {
		return &ref.Reply{ID: 0x8001, Body: []byte{byte(s >> 8), byte(s), byte(id >> 8), byte(id), 0}}
	}
	ctrl := func(id uint16, body []byte) uint16 {
		s := serial
		stream = append(stream, ref.Build(ref.Params{ID: id, BCD: bcd, Serial: s, Body: body})...)
		serial++
		return s
	}
	for a := 0; a < alarms; a++ {
		fs := []att.File{
			{Name: []byte(fmt.Sprintf("a%d_0.b", a)), Size: 3, Content: []byte{byte(a), byte(a >> 8), 0x10}},
			{Name: []byte(fmt.Sprintf("a%d_1.b", a)), Size: 3, Content: []byte{byte(a), byte(a >> 8), 0x11}},
		}
		s := ctrl(0x1210, att.Body1210(d, []byte("T9"), []byte(fmt.Sprintf("alarm-%d", a)), fs))
		expect = append(expect, general(0x1210, s))
		for _, f := range fs {
			s = ctrl(0x1211, att.Body1211(f, 0))
			expect = append(expect, general(0x1211, s))
			stream = append(stream, att.ChunkHeader(d, f.Name, 0, 3)...)
			stream = append(stream, f.Content...)
			ctrl(0x1212, att.Body1211(f, 0))
			body := append([]byte{byte(len(f.Name))}, f.Name...)
			expect = append(expect, &ref.Reply{ID: 0x9212, Body: append(body, 0, 0, 0)})
			files = append(files, f)
		}
	}
	var writes [][]byte
	for off := 0; off < len(stream); off += 50000 {
		writes = append(writes, stream[off:min(off+50000, len(stream))])
	}
	var rec *att.Recorder
	res := att.RunPipe(d, writes, len(expect), func(started *atomic.Int64) attachment.FileEventer {
		rec = &att.Recorder{Started: started}
		return rec
	})
	c.Evals(int64(len(expect)))
	wit := map[string]any{"kind": "c15long", "gen": "one connection, 66 500 control frames", "dialect": int(d)}
	if res.TimedOut {
		c.Inconclusive()
		return
	}
	if res.WriteErr || len(res.Replies) != len(expect) {
		c.Violate("reply|control frames answered a wrong number of times", fmt.Sprintf("long connection: %d replies for %d control frames (write error %v)", len(res.Replies), len(expect), res.WriteErr), wit)
		return
	}
	for i, e := range expect {
		f := res.Replies[i]
		switch {
		case f == nil:
			c.Violate("reply|undecodable reply", fmt.Sprintf("long connection: reply %d: %x", i, res.RawReplies[i]), wit)
			return
		case f.ID != e.ID || !bytes.Equal(f.Body, e.Body):
			c.Violate("reply|wrong reply on a long-lived connection", fmt.Sprintf("reply %d: got %04x %x want %04x %x", i, f.ID, f.Body, e.ID, e.Body), wit)
			return
		case int(f.Serial) != i%65536:
			c.Violate("reply|platform serial of replies not consecutive from 0", fmt.Sprintf("long connection: reply %d carries %d, prescribed %d", i, f.Serial, i%65536), wit)
			return
		}
	}
	done := 0
	for _, e := range rec.Events() {
		if e.Stage == attachment.ProgressStageStreamDataComplete {
			if done < len(files) && (e.Cur != string(files[done].Name) || !bytes.Equal(e.Body, files[done].Content)) {
				c.Violate("content|reassembled content differs from the original", fmt.Sprintf("long connection: completion %d is %q %x, want %q %x", done, e.Cur, e.Body, files[done].Name, files[done].Content), wit)
				return
			}
			done++
		}
	}
	if done != len(files) {
		c.Violate("complete|file fully sent but never reported complete with the right content", fmt.Sprintf("long connection: %d completions for %d files", done, len(files)), wit)
		return
	}
	c.Count("control_frames_on_one_long_connection", int64(len(expect)))
	c.NonTrivial(core.HashString(fmt.Sprintf("c15long/%d", d)))
}

// c15BigFile: one file of 32 MiB + 1 KiB (and, thorough, 80 MiB) in 64 KiB chunks, a gap resent after the first 0x1212.
func c15BigFile(c *core.Collector, d consts.ActiveSafetyType, size int, seed uint64) {
	g := gen.G{Rand: core.NewRand(seed, "c15big", uint64(size))}
	v19 := g.Bool()
	phone := "013800007777"
	if v19 {
		phone = "00000000013800007777" // (the 2019 header carries a 10-byte BCD phone)
	}
	p := &attPlan{Kind: "att", Gen: fmt.Sprintf("one file of %d bytes", size), Dialect: int(d), V2019: v19, Serial0: g.U16(), Phone: phone,
		TermID: core.Hex([]byte("T7")), AlarmID: core.Hex([]byte("big")), BigWrites: true, Mode: "unit-per-write"}
	f := attFile{Name: core.Hex([]byte("big.bin")), Size: size, ContSd: g.U64(), Type: 2, Dense: true}
	const cs = 65536
	var chunks [][2]int
	for off := 0; off < size; off += cs {
		chunks = append(chunks, [2]int{off, min(cs, size-off)})
	}
	gap := len(chunks) / 2
	f.Chunks = append(append([][2]int{}, chunks[:gap]...), chunks[gap+1:]...)
	f.Resend = [][2]int{chunks[gap]}
	p.Files = []attFile{f}
	c.Eval()
	viol, incon := attRun(p, false, "")
	if incon {
		c.Inconclusive()
		return
	}
	for _, v := range viol {
		c.Violate(v[0], v[1]+" ["+p.Gen+"]", map[string]any{"kind": "c15big", "size": size, "dialect": int(d)})
	}
	c.Count("files_larger_than_32_MiB", 1)
	c.NonTrivial(core.HashString(fmt.Sprintf("c15big/%d/%d", d, size)))
}

// c15SlowSession: a session in real time: one chunk every 1.1 s for total seconds, over loopback TCP and over a pipe; the
// terminal reads its replies as they come. Every control frame is answered, the file completes with its content.
func c15SlowSession(c *core.Collector, tcpAddr string, d consts.ActiveSafetyType, total time.Duration) {
	n := int(total / (1100 * time.Millisecond))
	bcd := []byte{0x01, 0x38, 0x00, 0x00, 0x55, byte(total / time.Second)}
	content := core.NewRand(7, "c15slow", uint64(total)).Bytes(n * 100)
	f := att.File{Name: []byte("slow.bin"), Size: uint32(len(content)), Content: content}
	serial := uint16(1)
	frame := func(id uint16, body []byte) []byte {
		b := ref.Build(ref.Params{ID: id, BCD: bcd, Serial: serial, Body: body})
		serial++
		return b
	}
	run := func(cli net.Conn, where string, events func() []att.Event, done chan struct{}) {
		defer cli.Close()
		wit := map[string]any{"kind": "c15slow", "transport": where, "seconds": int(total / time.Second), "dialect": int(d)}
		replies := make(chan *ref.Frame, 16)
		go func() {
			defer close(replies)
			var cur []byte
			buf := make([]byte, 4096)
			for {
				k, err := cli.Read(buf)
				for _, b := range buf[:k] {
					cur = append(cur, b)
					if b == 0x7e && len(cur) > 1 {
						fr, _ := ref.Validate(cur)
						replies <- fr
						cur = nil
					}
				}
				if err != nil {
					return
				}
			}
		}()
		expectReply := func(what string, id uint16) bool {
			select {
			case fr, ok := <-replies:
				if !ok || fr == nil || fr.ID != id {
					c.Violate("reply|a control frame of a slow session was not answered as prescribed", fmt.Sprintf("%s over %s after %v of session time: got %v", what, where, total, fr), wit)
					return false
				}
				return true
			case <-time.After(30 * time.Second):
				c.Violate("reply|a control frame of a slow session was not answered as prescribed", fmt.Sprintf("%s over %s: no reply within 30 s", what, where), wit)
				return false
			}
		}
		c.Eval()
		write := func(b []byte) error { // every write of the terminal is bounded: a server that has left the session must not hang the check
			cli.SetWriteDeadline(time.Now().Add(20 * time.Second))
			_, err := cli.Write(b)
			return err
		}
		write(frame(0x1210, att.Body1210(d, []byte("T5"), []byte("slow"), []att.File{f})))
		if !expectReply("0x1210", 0x8001) {
			return
		}
		write(frame(0x1211, att.Body1211(f, 0)))
		if !expectReply("0x1211", 0x8001) {
			return
		}
		for k := 0; k < n; k++ {
			time.Sleep(1100 * time.Millisecond)
			if err := write(append(att.ChunkHeader(d, f.Name, uint32(k*100), 100), content[k*100:(k+1)*100]...)); err != nil {
				c.Violate("abort|session aborted by valid input (server stopped reading)|slow session", fmt.Sprintf("chunk %d of %d over %s: %v", k, n, where, err), wit)
				return
			}
		}
		if err := write(frame(0x1212, att.Body1211(f, 0))); err != nil {
			c.Violate("abort|session aborted by valid input (server stopped reading)|slow session", fmt.Sprintf("0x1212 over %s: %v", where, err), wit)
			return
		}
		select {
		case fr, ok := <-replies:
			want := append(append([]byte{byte(len(f.Name))}, f.Name...), 0, 0, 0)
			if !ok || fr == nil || fr.ID != 0x9212 || !bytes.Equal(fr.Body, want) {
				c.Violate("ranges|0x9212 does not list exactly the maximal missing ranges (or wrong completion flag)", fmt.Sprintf("slow session over %s (%v): got %v", where, total, fr), wit)
				return
			}
		case <-time.After(30 * time.Second):
			c.Violate("reply|a control frame of a slow session was not answered as prescribed", fmt.Sprintf("0x1212 over %s: no reply within 30 s", where), wit)
			return
		}
		if events != nil {
			cli.Close()
			if done != nil {
				select {
				case <-done:
				case <-time.After(20 * time.Second):
				}
			}
			ok := false
			for _, e := range events() {
				if e.Stage == attachment.ProgressStageStreamDataComplete && bytes.Equal(e.Body, content) {
					ok = true
				}
			}
			if !ok {
				c.Violate("complete|file fully sent but never reported complete with the right content", fmt.Sprintf("slow session over %s (%v)", where, total), wit)
				return
			}
		}
		c.Count("slow_sessions_completed", 1)
		c.NonTrivial(core.HashString(fmt.Sprintf("c15slow/%s/%d/%v", where, d, total)))
	}
	var wg sync.WaitGroup
	if tcpAddr != "" {
		wg.Add(1)
		go func() {
			defer wg.Done()
			cli, err := net.DialTimeout("tcp", tcpAddr, 5*time.Second)
			if err != nil {
				c.Inconclusive()
				return
			}
			run(cli, "loopback TCP", nil, nil)
		}()
	}
	wg.Add(1)
	go func() {
		defer wg.Done()
		rec := &att.Recorder{}
		g := attachment.New(attachment.WithActiveSafetyType(d), attachment.WithFileEventerFunc(func() attachment.FileEventer { return rec }))
		cli, srv := net.Pipe()
		done := make(chan struct{})
		go func() { attachment.VerifServeConn(g, srv); close(done) }()
		run(cli, "pipe", rec.Events, done)
	}()
	wg.Wait()
}

// c15RudeNeighbour: on a server whose application handler takes 15 ms per event, "rude" clients pipeline a whole session
// (0x1210, then 0x1211 / chunks / 0x1212 per file) in ONE write, wait for the first reply (the server has read everything by
// then) and reset the connection, so that the server's following replies fail to be written while complete frames are still
// buffered. After every few rude clients a polite session on the same server must be served in full: a connection whose
// peer vanished must not take anything else down (seed C15s1: an early return out of the range-over-func reply loop panics).
func c15RudeNeighbour(c *core.Collector, seed uint64, rounds int) {
	d := consts.ActiveSafetyJS
	addr, err := att.StartTCP(attachment.WithFileEventerFunc(func() attachment.FileEventer { return &att.Recorder{Delay: 15 * time.Millisecond} }), attachment.WithActiveSafetyType(d))
	if err != nil {
		c.Inconclusive()
		return
	}
	resets := 0
	for round := 0; round < rounds; round++ {
		g := gen.G{Rand: core.NewRand(seed, "c15rude", uint64(round))}
		p := attGenPlan(g, 0, false) // index 0: JS dialect
		for i := range p.Files {
			// (one chunk per file: with a handler that takes 15 ms per event a session of thousands of tiny chunks would take minutes)
			if p.Files[i].Size > 4096 {
				p.Files[i].Size = 1 + g.Intn(4096)
			}
			p.Files[i].Chunks = [][2]int{{0, p.Files[i].Size}}
		}
		p.Gen, p.Mode = "rude-neighbour", "single write"
		b := attBuild(p)
		if round%3 == 2 {
			// the polite session
			c.Eval()
			q := *p
			viol, incon := attRun(&q, true, addr)
			if incon {
				c.Inconclusive()
				continue
			}
			c.Count("polite_sessions_next_to_rude_clients", 1)
			for _, v := range viol {
				c.Violate(v[0], v[1]+" [polite session on a server that "+fmt.Sprint(resets)+" clients had reset mid-session]", p)
			}
			continue
		}
		c.Eval()
		conn, err := net.DialTimeout("tcp", addr, 5*time.Second)
		if err != nil {
			c.Violate("rude|the attachment server no longer accepts connections after clients reset theirs mid-session", err.Error(), p)
			return
		}
		conn.SetDeadline(time.Now().Add(20 * time.Second))
		if _, err := conn.Write(b.stream); err != nil {
			conn.Close()
			c.Inconclusive()
			continue
		}
		// first reply: bytes up to the second 0x7e
		one := make([]byte, 1)
		marks := 0
		for marks < 2 {
			if _, err := conn.Read(one); err != nil {
				break
			}
			if one[0] == 0x7e {
				marks++
			}
		}
		conn.(*net.TCPConn).SetLinger(0)
		conn.Close()
		if marks == 2 {
			resets++
			c.Count("rude_clients_reset_after_first_reply", 1)
		} else {
			c.Inconclusive()
		}
		c.NonTrivial(core.HashString(fmt.Sprintf("rude/%d/%d", round, len(b.stream))))
		time.Sleep(time.Duration(15*(len(p.Files)*2+2)) * time.Millisecond)
	}
}
