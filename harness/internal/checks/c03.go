package checks

import (
	"bytes"
	"encoding/hex"
	"fmt"
	"go/ast"
	"go/parser"
	"go/token"
	"os"
	"path/filepath"
	"reflect"
	"runtime/debug"
	"sort"
	"strings"
	"sync"
	"sync/atomic"
	"time"

	"github.com/cuteLittleDevil/go-jt808/protocol/jt1078"
	"github.com/cuteLittleDevil/go-jt808/protocol/jt808"
	"github.com/cuteLittleDevil/go-jt808/protocol/model"
	"github.com/cuteLittleDevil/go-jt808/shared/consts"

	"verif/harness/internal/core"
	"verif/harness/internal/gen"
	"verif/harness/internal/ref"
)

// C03 — decoders are total functions of their input: no panic, prompt termination, outcome independent
// of memory beyond the slice and of what the receiver held before.

func init() {
	register(core.Plan{
		Property: "C03", Level: "exploration",
		Parts: func(tier string) []core.Part {
			return []core.Part{{Name: "decoders", Bin: "plain", Batches: 1, TimeoutS: 2400}}
		},
		Assumptions: []string{
			"Go's bounds checks turn any access beyond cap into a panic; the exact-capacity presentation (cap==len) extends this to accesses beyond len; poisoned tails (0x00 vs 0xA5) reveal silent over-reads when capacity allows them",
			"receiver configuration that is legitimately state (ActiveSafetyType, custom callbacks) is identical on fresh and reused receivers",
			"the registry of entry points is compared with the Parse methods present in /repo/protocol/model at run time; uncovered types are reported in the evidence",
		},
	}, map[string]Worker{"decoders": c03Worker})
	replayers["c03"] = c03Replay
}

type bodyParser interface {
	Parse(*jt808.JTMessage) error
}

type c03Target struct {
	Name     string
	TypeName string
	Mk       func() bodyParser
	Seeds    func(g gen.G) [][]byte
	CorpusID uint16
	Raw      bool // input is not a message body but a raw frame / packet
}

// README pattern: a location handler that dispatches vendor extension items to the extension parsers.
// The extension parser objects are unexported here on purpose: they are the user's own fields, not part of
// the parse result; what a parse produced is reachable through Additions[id].Content.CustomValue.
type c03Loc struct {
	model.T0x0200
	e64 model.T0x0200AdditionExtension0x64
	e65 model.T0x0200AdditionExtension0x65
	e66 model.T0x0200AdditionExtension0x66
	e67 model.T0x0200AdditionExtension0x67
	e70 model.T0x0200AdditionExtension0x70
}

func (l *c03Loc) Parse(m *jt808.JTMessage) error {
	l.T0x0200.CustomAdditionContentFunc = func(id uint8, content []byte) (model.AdditionContent, bool) {
		switch id {
		case 0x64:
			return l.e64.Parse(id, content)
		case 0x65:
			return l.e65.Parse(id, content)
		case 0x66:
			return l.e66.Parse(id, content)
		case 0x67:
			return l.e67.Parse(id, content)
		case 0x70:
			return l.e70.Parse(id, content)
		}
		return model.AdditionContent{}, false
	}
	return l.T0x0200.Parse(m)
}

// a single extension parser driven directly: body = id byte + content
type c03Ext struct {
	ID byte
	P  interface {
		Parse(id uint8, content []byte) (model.AdditionContent, bool)
	}
	OK  bool
	Out model.AdditionContent
}

func (e *c03Ext) Parse(m *jt808.JTMessage) error {
	if len(m.Body) == 0 {
		return fmt.Errorf("empty")
	}
	e.Out, e.OK = e.P.Parse(m.Body[0], m.Body[1:])
	if !e.OK {
		e.Out = model.AdditionContent{}
		return fmt.Errorf("not handled")
	}
	return nil
}
func (e *c03Ext) String() string {
	if s, ok := e.P.(fmt.Stringer); ok {
		return s.String()
	}
	return ""
}

// frame decoder as a target: the "body" is the raw frame
type c03Frame struct{ J *jt808.JTMessage }

func (f *c03Frame) Parse(m *jt808.JTMessage) error { return f.J.Decode(m.Body) }
func (f *c03Frame) String() string                 { return f.J.Header.String() }

type c03RTP struct {
	P    *jt1078.Packet
	Rest []byte
}

func (f *c03RTP) Parse(m *jt808.JTMessage) error {
	rest, err := f.P.Decode(m.Body)
	f.Rest = rest
	if err != nil {
		f.Rest = nil
	}
	return err
}
func (f *c03RTP) String() string { return f.P.String() }

func seedsByType(typ string, dialect consts.ActiveSafetyType, anyDialect bool) func(g gen.G) [][]byte {
	return func(g gen.G) [][]byte {
		var out [][]byte
		for _, tc := range gen.Cases(g) {
			if tc.Type == typ && (anyDialect || tc.Dialect == dialect) {
				func() {
					defer func() { recover() }() // an encoder that panics is C07's finding, not a seed
					out = append(out, tc.Val.Encode())
				}()
			}
		}
		return out
	}
}

func c03Targets() []c03Target {
	var ts []c03Target
	simple := func(name string, id uint16, mk func() bodyParser, seeds func(g gen.G) [][]byte) {
		ts = append(ts, c03Target{Name: name, TypeName: name, Mk: mk, Seeds: seeds, CorpusID: id})
	}
	two := func(name string, id uint16, mk func() bodyParser) {
		simple(name, id, mk, seedsByType(name, 0, true))
	}
	two("T0x0001", 0x0001, func() bodyParser { return &model.T0x0001{} })
	simple("T0x0002", 0x0002, func() bodyParser { return &model.T0x0002{} }, func(g gen.G) [][]byte { return [][]byte{{}, g.Bytes(g.Intn(8))} })
	two("T0x0100", 0x0100, func() bodyParser { return &model.T0x0100{} })
	two("T0x0102", 0x0102, func() bodyParser { return &model.T0x0102{} })
	simple("T0x0104", 0x0104, func() bodyParser { return &model.T0x0104{} }, func(g gen.G) [][]byte {
		var out [][]byte
		for _, b := range seedsByType("P0x8103", 0, true)(g) {
			out = append(out, append([]byte{g.U8(), g.U8()}, b...))
		}
		return out
	})
	simple("T0x0200", 0x0200, func() bodyParser { return &model.T0x0200{} }, func(g gen.G) [][]byte { return [][]byte{g.LocBody(6), g.LocBody(0)} })
	ts = append(ts, c03Target{Name: "T0x0200+extensions(README)", TypeName: "T0x0200", Mk: func() bodyParser { return &c03Loc{} }, CorpusID: 0x0200,
		Seeds: func(g gen.G) [][]byte { return [][]byte{g.LocBody(6), g.LocBody(2)} }})
	simple("T0x0704", 0x0704, func() bodyParser { return &model.T0x0704{} }, func(g gen.G) [][]byte { return [][]byte{g.Batch0704(4)} })
	two("T0x0800", 0x0800, func() bodyParser { return &model.T0x0800{} })
	two("T0x0801", 0x0801, func() bodyParser { return &model.T0x0801{} })
	two("T0x0805", 0x0805, func() bodyParser { return &model.T0x0805{} })
	two("T0x1003", 0x1003, func() bodyParser { return &model.T0x1003{} })
	two("T0x1005", 0x1005, func() bodyParser { return &model.T0x1005{} })
	two("T0x1205", 0x1205, func() bodyParser { return &model.T0x1205{} })
	two("T0x1206", 0x1206, func() bodyParser { return &model.T0x1206{} })
	two("T0x1211", 0x1211, func() bodyParser { return &model.T0x1211{} })
	two("T0x1212", 0x1212, func() bodyParser { return &model.T0x1212{} })
	two("P0x8001", 0x8001, func() bodyParser { return &model.P0x8001{} })
	two("P0x8003", 0x8003, func() bodyParser { return &model.P0x8003{} })
	two("P0x8100", 0x8100, func() bodyParser { return &model.P0x8100{} })
	two("P0x8103", 0x8103, func() bodyParser { return &model.P0x8103{} })
	simple("P0x8104", 0x8104, func() bodyParser { return &model.P0x8104{} }, func(g gen.G) [][]byte { return [][]byte{{}, g.Bytes(g.Intn(8))} })
	two("P0x8800", 0x8800, func() bodyParser { return &model.P0x8800{} })
	two("P0x8801", 0x8801, func() bodyParser { return &model.P0x8801{} })
	simple("P0x9003", 0x9003, func() bodyParser { return &model.P0x9003{} }, func(g gen.G) [][]byte { return [][]byte{{}, g.Bytes(g.Intn(8))} })
	two("P0x9101", 0x9101, func() bodyParser { return &model.P0x9101{} })
	two("P0x9102", 0x9102, func() bodyParser { return &model.P0x9102{} })
	two("P0x9105", 0x9105, func() bodyParser { return &model.P0x9105{} })
	two("P0x9201", 0x9201, func() bodyParser { return &model.P0x9201{} })
	two("P0x9202", 0x9202, func() bodyParser { return &model.P0x9202{} })
	two("P0x9205", 0x9205, func() bodyParser { return &model.P0x9205{} })
	two("P0x9206", 0x9206, func() bodyParser { return &model.P0x9206{} })
	two("P0x9207", 0x9207, func() bodyParser { return &model.P0x9207{} })
	two("P0x9212", 0x9212, func() bodyParser { return &model.P0x9212{} })
	for _, d := range append([]consts.ActiveSafetyType{0}, gen.Dialects...) {
		d := d
		sd := d
		if sd == 0 {
			sd = consts.ActiveSafetyJS
		}
		ts = append(ts, c03Target{Name: fmt.Sprintf("T0x1210/dialect%d", d), TypeName: "T0x1210", CorpusID: 0x1210,
			Mk:    func() bodyParser { return &model.T0x1210{P9208AlarmSign: model.P9208AlarmSign{ActiveSafetyType: d}} },
			Seeds: seedsByType("T0x1210", sd, false)})
		ts = append(ts, c03Target{Name: fmt.Sprintf("P0x9208/dialect%d", d), TypeName: "P0x9208", CorpusID: 0x9208,
			Mk:    func() bodyParser { return &model.P0x9208{P9208AlarmSign: model.P9208AlarmSign{ActiveSafetyType: d}} },
			Seeds: seedsByType("P0x9208", sd, false)})
	}
	// vendor extension parsers driven directly
	ext := func(id byte, mk func() bodyParser, lens []int) {
		ts = append(ts, c03Target{Name: fmt.Sprintf("extension0x%02x", id), TypeName: fmt.Sprintf("T0x0200AdditionExtension0x%02X", id), Mk: mk,
			Seeds: func(g gen.G) [][]byte {
				var out [][]byte
				for _, l := range lens {
					ct := g.Bytes(l)
					if id == 0x66 && l > 40 {
						ct[40] = byte((l - 40) / 9)
					}
					out = append(out, append([]byte{id}, ct...))
				}
				return out
			}})
	}
	ext(0x64, func() bodyParser { return &c03Ext{ID: 0x64, P: &model.T0x0200AdditionExtension0x64{}} }, []int{47})
	ext(0x65, func() bodyParser { return &c03Ext{ID: 0x65, P: &model.T0x0200AdditionExtension0x65{}} }, []int{47})
	ext(0x66, func() bodyParser { return &c03Ext{ID: 0x66, P: &model.T0x0200AdditionExtension0x66{}} }, []int{40, 41, 49, 50, 58, 59})
	ext(0x67, func() bodyParser { return &c03Ext{ID: 0x67, P: &model.T0x0200AdditionExtension0x67{}} }, []int{41})
	ext(0x70, func() bodyParser { return &c03Ext{ID: 0x70, P: &model.T0x0200AdditionExtension0x70{}} }, []int{47})
	// the same parsers on receivers configured with each active-safety dialect: the 16-byte sign inside the item is
	// Su-biao whatever the receiver says (defect F25: HLJ/GD/SC receivers read a 30-byte terminal ID out of 16 bytes)
	for _, d := range gen.Dialects {
		d := d
		sign := model.P9208AlarmSign{ActiveSafetyType: d}
		n0 := len(ts)
		ext(0x64, func() bodyParser {
			p := &model.T0x0200AdditionExtension0x64{}
			p.P9208AlarmSign = sign
			return &c03Ext{ID: 0x64, P: p}
		}, []int{47})
		ext(0x65, func() bodyParser {
			p := &model.T0x0200AdditionExtension0x65{}
			p.P9208AlarmSign = sign
			return &c03Ext{ID: 0x65, P: p}
		}, []int{47})
		ext(0x66, func() bodyParser {
			p := &model.T0x0200AdditionExtension0x66{}
			p.P9208AlarmSign = sign
			return &c03Ext{ID: 0x66, P: p}
		}, []int{41, 50})
		ext(0x67, func() bodyParser {
			p := &model.T0x0200AdditionExtension0x67{}
			p.P9208AlarmSign = sign
			return &c03Ext{ID: 0x67, P: p}
		}, []int{41})
		ext(0x70, func() bodyParser {
			p := &model.T0x0200AdditionExtension0x70{}
			p.P9208AlarmSign = sign
			return &c03Ext{ID: 0x70, P: p}
		}, []int{47})
		for i := n0; i < len(ts); i++ {
			ts[i].Name = fmt.Sprintf("%s/dialect%d", ts[i].Name, d)
		}
	}
	// frame and RTP decoders
	ts = append(ts, c03Target{Name: "jt808.Decode", TypeName: "JTMessage", Raw: true, Mk: func() bodyParser { return &c03Frame{J: jt808.NewJTMessage()} },
		Seeds: func(g gen.G) [][]byte {
			var out [][]byte
			for k := 0; k < 3; k++ {
				v := g.Bool()
				n := 6
				if v {
					n = 10
				}
				body := g.Bytes(g.Intn(40))
				for j := range body {
					if g.Chance(1, 4) {
						body[j] = []byte{0x7e, 0x7d, 1, 2}[g.Intn(4)]
					}
				}
				q := ref.Params{ID: g.U16(), V2019: v, VersionByt: 1, Encrypt: g.Chance(1, 4), Fragmented: k == 1, Sum: g.U16(), No: g.U16(), BCD: g.Bytes(n), Serial: g.U16(), Body: body}
				out = append(out, ref.Build(q))
				if k == 2 && len(body) > 0 {
					// the tolerated dialect: check code 0x7D sent raw (last body byte steered so that the check code is 0x7D)
					pp := ref.Payload(q)
					pp[len(pp)-2] ^= pp[len(pp)-1] ^ 0x7d
					pp = c02Fix(pp)
					if pp[len(pp)-1] == 0x7d && pp[len(pp)-2] != 0x7d && pp[len(pp)-2] != 0x7e {
						e2 := ref.Escape(pp[:len(pp)-1])
						out = append(out, append(e2[:len(e2)-1], 0x7d, 0x7e))
					}
				}
				if k == 0 {
					// a frame of ANOTHER phone that passes the check code but is rejected inside the header decoder: the fragment bit is
					// set and the two package fields are missing
					q3 := q
					q3.BCD = append([]byte{}, q.BCD...)
					q3.BCD[n-1] ^= 0x11
					q3.Fragmented = false
					q3.Body = nil
					pm := ref.Payload(q3)
					pm[2] |= 0x20
					out = append(out, ref.Escape(c02Fix(pm)))
				}
				if k == 0 {
					// the same frame with ONE byte of the phone field changed (checksum rebuilt): consecutive valid inputs that differ
					// in a single header byte (whatever a decoder remembers about the previous phone gets a near-identical successor)
					for _, pos := range []int{0, 1, n / 2, n - 1} {
						q2 := q
						q2.BCD = append([]byte{}, q.BCD...)
						q2.BCD[pos] ^= []byte{0x01, 0x10, 0x80, 0xff}[g.Intn(4)]
						out = append(out, ref.Build(q2))
					}
				}
			}
			return out
		}})
	ts = append(ts, c03Target{Name: "jt1078.Decode", TypeName: "Packet", Raw: true, Mk: func() bodyParser { return &c03RTP{P: jt1078.NewPacket()} },
		Seeds: func(g gen.G) [][]byte {
			var out [][]byte
			for k := 0; k < 3; k++ {
				p := c17Gen(g.Rand, g.Intn(16), g.Intn(40))
				b := p.Build()
				if k == 2 {
					b = append(b, c17Gen(g.Rand, g.Intn(16), g.Intn(20)).Build()...)
				}
				out = append(out, b)
			}
			return out
		}})
	return ts
}

type c03Outcome struct {
	Err  bool
	Dump string
	Str  string
	recv bodyParser
}

func c03Exec(p bodyParser, ver consts.ProtocolVersionType, body []byte, withString bool) c03Outcome {
	m := jt808.NewJTMessage()
	m.Header.ProtocolVersion = ver
	m.Body = body
	err := p.Parse(m)
	o := c03Outcome{Err: err != nil, recv: p}
	if err == nil {
		o.Dump = Canon(reflect.ValueOf(p), nil)
		// Encode first, String second, in every presentation: some encoders normalise the value they encode
		// (alarm-sign reserve padding), so the order of the two calls must not differ between presentations
		if e, ok := p.(interface{ Encode() []byte }); ok {
			o.Dump += fmt.Sprintf("|E:%x", e.Encode())
		}
		if withString {
			if s, ok := p.(fmt.Stringer); ok {
				o.Str = s.String()
			}
		}
	}
	return o
}

func exactCap(b []byte) []byte {
	c := make([]byte, len(b))
	copy(c, b)
	return c[:len(b):len(b)]
}
func withTail(b []byte, fill byte) []byte {
	c := make([]byte, len(b)+96)
	for i := range c {
		c[i] = fill
	}
	copy(c, b)
	return c[:len(b)]
}

type c03Case struct {
	Kind    string   `json:"kind"`
	Target  string   `json:"target"`
	Version int      `json:"header_version"`
	Input   string   `json:"input"`
	Prior   []string `json:"prior,omitempty"`
	Gen     string   `json:"gen,omitempty"`
}

// c03RunCase executes the four presentations; returns violations as (signature, detail) pairs via report.
// c03Held: per target, the receiver and dump of an earlier successful parse; it is re-dumped after later cases have parsed other
// inputs into OTHER receivers ("right when first looked at, wrong later": results that alias pooled or shared memory).
type c03HeldEntry struct {
	recv bodyParser
	dump string
	in   []byte
}

var c03HeldMu sync.Mutex
var c03Held = map[string][]c03HeldEntry{}

func c03HoldAndRecheck(t *c03Target, o c03Outcome, in []byte, report func(sig, detail string)) bool {
	if o.Err || o.recv == nil {
		return true
	}
	c03HeldMu.Lock()
	l := append(c03Held[t.Name], c03HeldEntry{o.recv, Canon(reflect.ValueOf(o.recv), nil), in})
	var old *c03HeldEntry
	if len(l) > 5 {
		old = &l[0]
		l = l[1:]
	}
	c03Held[t.Name] = l
	c03HeldMu.Unlock()
	if old == nil {
		return true
	}
	ok := true
	func() {
		defer func() { recover() }()
		if now := Canon(reflect.ValueOf(old.recv), nil); now != old.dump {
			report("held|"+t.TypeName+"|a parsed value changed after later parses of other inputs", "value parsed from "+core.HexCap(old.in, 48)+" differs now from what it was right after Parse: "+diffAt(old.dump, now))
			ok = false
		}
	}()
	return ok
}

func c03RunCase(t *c03Target, ver consts.ProtocolVersionType, in []byte, prior [][]byte, report func(sig, detail string), forceString ...bool) (ok bool) {
	withString := true
	if t.TypeName == "P0x8103" || t.TypeName == "T0x0104" {
		withString = len(in)%7 == 0 // String() of the terminal-parameter types costs ~1 ms
	}
	if len(in) > 20000 {
		withString = false // text rendering of tens of thousands of list entries costs seconds and adds nothing per cut
	}
	if len(forceString) > 0 && forceString[0] {
		withString = true // (the whole, consistent big bodies are rendered once each)
	}
	tn := t.Name
	run := func(what string, p bodyParser, body []byte) (o c03Outcome, panicked bool) {
		ws := withString && !strings.HasSuffix(what, "-tail") // text rendering is exercised on the exact and reused presentations
		defer func() {
			if r := recover(); r != nil {
				sig, _ := core.PanicSig(r)
				report(sig, fmt.Sprintf("%s (%s presentation, target %s): %s", core.NormPanic(r), what, tn, trunc(sprint(r), 160)))
				panicked = true
			}
		}()
		return c03Exec(p, ver, body, ws), false
	}
	o1, p1 := run("exact-capacity", t.Mk(), exactCap(in))
	oa, pa := run("zero-tail", t.Mk(), withTail(in, 0x00))
	ob, pb := run("a5-tail", t.Mk(), withTail(in, 0xa5))
	if p1 || pa || pb {
		return false
	}
	if oa.Err != ob.Err || oa.Dump != ob.Dump {
		where := DiffPath(reflect.ValueOf(oa.recv), reflect.ValueOf(ob.recv), nil)
		if where == "" {
			where = "String()/Encode()"
		}
		report("overread|"+tn+"|"+where, "outcome depends on memory beyond the slice (tail 00 vs tail a5) at "+where)
		return false
	}
	if o1.Err != oa.Err || o1.Dump != oa.Dump {
		if os.Getenv("VERIF_DEBUG") != "" {
			fmt.Fprintf(os.Stderr, "EXACT %v %s\nTAIL  %v %s\n", o1.Err, diffAt(o1.Dump, oa.Dump), oa.Err, "")
		}
		report("overread|"+tn+"|exact vs spare capacity", "outcome differs between cap==len and spare-capacity presentations of the same bytes")
		return false
	}
	// the frame decoder has an independent reference: "depends only on the bytes" means the fields are a function of the bytes,
	// whatever this process decoded before (process-wide caches included)
	if fr, isFrame := o1.recv.(*c03Frame); isFrame && !o1.Err {
		if rf, okf := ref.Validate(in); !okf {
			report("bytes-only|JTMessage|accepted", "jt808 Decode accepted a frame the reference rejects")
			return false
		} else if h := fr.J.Header; h.ID != rf.ID || h.SerialNumber != rf.Serial || h.TerminalPhoneNo != rf.Phone || !bytes.Equal(fr.J.Body, rf.Body) {
			report("bytes-only|JTMessage|fields", fmt.Sprintf("decoded header fields are not those of the bytes: id %04x/%04x serial %d/%d phone %q/%q", h.ID, rf.ID, h.SerialNumber, rf.Serial, h.TerminalPhoneNo, rf.Phone))
			return false
		}
	}
	if len(in) < 4096 && len(in) > 0 && (len(in)*7+int(in[len(in)/2]))%4 == 0 && !c03HoldAndRecheck(t, o1, in, report) {
		return false
	}
	// reused receiver
	re := t.Mk()
	for _, pb := range prior {
		if _, pp := run("reused(prior)", re, exactCap(pb)); pp {
			return false
		}
	}
	or, pr := run("reused", re, exactCap(in))
	if pr {
		return false
	}
	if or.Err != o1.Err || (!o1.Err && (or.Dump != o1.Dump || or.Str != o1.Str)) {
		where := "error-ness"
		if !o1.Err && !or.Err {
			where = DiffPath(reflect.ValueOf(o1.recv), reflect.ValueOf(or.recv), nil)
			if where == "" {
				where = "String()/Encode()"
			}
		}
		report("history|"+t.TypeName+"|"+where, "a receiver that parsed other bodies before gives a different outcome than a fresh one, at "+where+" (target "+tn+")")
		return false
	}
	// reused receiver AND reused input buffer, the way a read loop presents consecutive messages: every body is copied to the
	// start of the same backing array before it is parsed (state that aliases the previous input sees the new bytes)
	if len(prior) > 0 {
		maxLen := len(in)
		for _, pb := range prior {
			maxLen = max(maxLen, len(pb))
		}
		scratch := make([]byte, maxLen)
		re2 := t.Mk()
		for _, pb := range prior {
			n := copy(scratch, pb)
			if _, pp := run("reused-buffer(prior)", re2, scratch[:n:n]); pp {
				return false
			}
		}
		n := copy(scratch, in)
		ob2, pb2 := run("reused-buffer", re2, scratch[:n:n])
		if pb2 {
			return false
		}
		if ob2.Err != o1.Err || (!o1.Err && (ob2.Dump != o1.Dump || ob2.Str != o1.Str)) {
			where := "error-ness"
			if !o1.Err && !ob2.Err {
				where = DiffPath(reflect.ValueOf(o1.recv), reflect.ValueOf(ob2.recv), nil)
				if where == "" {
					where = "String()/Encode()"
				}
			}
			report("history|"+t.TypeName+"|"+where+" (input buffer reused)", "a receiver that parsed other bodies from the SAME buffer before gives a different outcome than a fresh one, at "+where+" (target "+tn+")")
			return false
		}
	}
	return true
}

func c03Replay(w map[string]any) string {
	var cs c03Case
	remarshal(w, &cs)
	for _, t := range c03Targets() {
		if t.Name == cs.Target {
			res := ""
			var prior [][]byte
			for _, p := range cs.Prior {
				prior = append(prior, core.UnHex(p))
			}
			c03RunCase(&t, consts.ProtocolVersionType(cs.Version), core.UnHex(cs.Input), prior, func(sig, detail string) {
				if res == "" {
					res = sig
				}
			})
			return res
		}
	}
	return "harness|unknown target " + cs.Target
}

// typesWithParse scans /repo/protocol/model for types that have a Parse(*jt808.JTMessage) or Parse(id, content) method.
func typesWithParse(dir string) []string {
	fset := token.NewFileSet()
	files, _ := filepath.Glob(filepath.Join(dir, "*.go"))
	set := map[string]bool{}
	for _, fn := range files {
		if strings.HasSuffix(fn, "_test.go") {
			continue
		}
		f, err := parser.ParseFile(fset, fn, nil, 0)
		if err != nil {
			continue
		}
		for _, d := range f.Decls {
			fd, ok := d.(*ast.FuncDecl)
			if !ok || fd.Recv == nil || fd.Name.Name != "Parse" || len(fd.Recv.List) != 1 {
				continue
			}
			var name string
			switch r := fd.Recv.List[0].Type.(type) {
			case *ast.StarExpr:
				if id, ok := r.X.(*ast.Ident); ok {
					name = id.Name
				}
			case *ast.Ident:
				name = r.Name
			}
			if name != "" && ast.IsExported(name) && name != "BaseHandle" {
				set[name] = true
			}
		}
	}
	var out []string
	for n := range set {
		out = append(out, n)
	}
	sort.Strings(out)
	return out
}

func c03Worker(c *core.Collector, x *Ctx) {
	devnull, _ := os.OpenFile("/dev/null", os.O_WRONLY, 0)
	os.Stdout = devnull
	debug.SetGCPercent(800)
	c.Rule = "per decoding entry point (every model type with Parse x header version 2013/2019 x dialect; extension parsers alone and behind the README dispatcher; jt808.Decode; jt1078.Decode): " +
		"valid seed bodies from the in-domain generators and the repository's own captures, EVERY prefix of each, substitutions of each byte by {00,01,7f,80,fe,ff}, TLV sweeps (every item/parameter ID x lengths), random bodies; " +
		"each input executed in 4 presentations (cap==len, 00-tail, a5-tail, receiver reused after 1-3 other bodies). non-trivial = input on which the parser succeeded in at least one presentation or that is a mutation of a valid body; distinct by hash of (target, version, input)"
	targets := c03Targets()
	present := typesWithParse("/repo/protocol/model")
	covered := map[string]bool{}
	for _, t := range targets {
		covered[t.TypeName] = true
	}
	var uncovered []string
	for _, p := range present {
		if !covered[p] {
			uncovered = append(uncovered, p)
		}
	}
	c.Note("types_present", len(present))
	c.Note("types_covered", len(present)-len(uncovered))
	c.Note("uncovered_types", uncovered)
	if len(uncovered) > 0 {
		fmt.Fprintln(os.Stderr, "warning: model types with a Parse method not in the C03 registry:", uncovered)
	}
	c.Count("entry_points", int64(len(targets)))
	corpus := gen.CorpusBodies("/repo")
	ncorp := 0
	for _, v := range corpus {
		ncorp += len(v)
	}
	c.Count("corpus_bodies", int64(ncorp))

	// per-goroutine watchdog slots
	type slot struct {
		start atomic.Int64
		desc  atomic.Value
	}
	slots := make([]slot, 64)
	var slotIx atomic.Int32
	stopWatch := make(chan struct{})
	go func() {
		tk := time.NewTicker(time.Second)
		defer tk.Stop()
		for {
			select {
			case <-stopWatch:
				return
			case <-tk.C:
				now := time.Now().UnixNano()
				for i := range slots {
					st := slots[i].start.Load()
					if st != 0 && now-st > int64(20*time.Second) {
						d, _ := slots[i].desc.Load().(c03Case)
						c.Violate("hang|"+d.Target+"|no result within 20 s", "a decode call did not terminate promptly", d)
						if x.Out != "" {
							c.WriteTo(x.Out)
						}
						os.Exit(3)
					}
				}
			}
		}
	}()

	nseed := c.N(4, 60)      // seed rounds per target
	nrand := c.N(300, 6000)  // random bodies per target/version
	subCap := c.N(100, 1200) // positions substituted per seed
	vers := []consts.ProtocolVersionType{consts.JT808Protocol2013, consts.JT808Protocol2019}
	// each (target, version) input stream is generated identically by K sub-jobs; sub-job k executes the inputs
	// with index % K == k (generation is cheap, execution is not) — this balances the load over the cores
	const K = 8
	type job struct {
		ti  int
		ver consts.ProtocolVersionType
		k   int
	}
	var jobs []job
	for ti := range targets {
		for _, v := range vers {
			for k := 0; k < K; k++ {
				jobs = append(jobs, job{ti, v, k})
			}
		}
	}
	var parsedOK atomic.Int64
	// a long-lived process: while everything else runs, one goroutine decodes a malformed and a well-formed JT1078 packet and a
	// malformed and a well-formed JT808 frame every 100 ms for 11.5 s of real time, under the same watchdog: whatever a decoder
	// keeps between calls in package state and consults the clock about (rate-limited diagnostics, caches with an expiry) is past
	// its first periods by the end. The outcome of every call must be the one the first call had.
	longLived := make(chan struct{})
	go func() {
		defer close(longLived)
		si := int(slotIx.Add(1)-1) % len(slots)
		good1078, _ := hex.DecodeString("3031636481e2000000000000000110010000018cf9f7ad6000000000000400000001")
		bad1078 := append([]byte{0x30, 0x31, 0x63, 0x65}, good1078[4:]...)
		goodFrame := ref.Build(ref.Params{ID: 0x0002, BCD: []byte{1, 0x38, 0, 0x13, 0x80, 0}, Serial: 7})
		badFrame := append([]byte{}, goodFrame...)
		badFrame[len(badFrame)-2] ^= 0x55
		if badFrame[len(badFrame)-2] == 0x7e || badFrame[len(badFrame)-2] == 0x7d {
			badFrame[len(badFrame)-2] = 0x11
		}
		outcome := func(k int) string {
			switch k {
			case 0, 1:
				p := jt1078.NewPacket()
				in := good1078
				if k == 1 {
					in = bad1078
				}
				rest, err := p.Decode(append([]byte{}, in...))
				return fmt.Sprintf("%d/%v/%v", len(rest), err, p.String())
			default:
				m := jt808.NewJTMessage()
				in := goodFrame
				if k == 3 {
					in = badFrame
				}
				err := m.Decode(append([]byte{}, in...))
				return fmt.Sprintf("%v/%x", err, m.Body)
			}
		}
		names := []string{"jt1078.Decode", "jt1078.Decode", "jt808.Decode", "jt808.Decode"}
		var first [4]string
		t0 := time.Now()
		for round := 0; time.Since(t0) < 11500*time.Millisecond; round++ {
			for k := 0; k < 4; k++ {
				in := [][]byte{good1078, bad1078, goodFrame, badFrame}[k]
				slots[si].desc.Store(c03Case{Kind: "c03", Target: names[k], Input: core.Hex(in), Gen: fmt.Sprintf("long-lived process: call %d, %.1f s after the first", round, time.Since(t0).Seconds())})
				slots[si].start.Store(time.Now().UnixNano())
				o := outcome(k)
				slots[si].start.Store(0)
				c.Eval()
				if round == 0 {
					first[k] = o
				} else if o != first[k] {
					c.Violate("pure|"+names[k]+"|the same bytes decode differently later in the life of the process", fmt.Sprintf("first call: %s; call %d, %.1f s later: %s", first[k], round, time.Since(t0).Seconds(), o),
						c03Case{Kind: "c03", Target: names[k], Input: core.Hex(in), Gen: "long-lived process"})
					return
				}
			}
			c.Count("decodes_in_the_long_lived_loop", 4)
			time.Sleep(100 * time.Millisecond)
		}
	}()
	core.ParallelFor(len(jobs), ncpu(), func(ji int) {
		si := int(slotIx.Add(1)-1) % len(slots)
		t := &targets[jobs[ji].ti]
		t0 := time.Now()
		defer func() {
			if os.Getenv("VERIF_DEBUG") != "" {
				fmt.Fprintf(os.Stderr, "c03 %-32s v%d %6.1fs\n", t.Name, jobs[ji].ver, time.Since(t0).Seconds())
			}
		}()
		ver := jobs[ji].ver
		g := gen.G{Rand: core.NewRand(c.Seed, "c03/"+t.Name, uint64(ver))}
		gh := core.NewRand(c.Seed, "c03h/"+t.Name, uint64(ver)*16+uint64(jobs[ji].k))
		var history [][]byte // recent inputs (mostly ones on which parsing succeeded): priming material for the reused receiver
		var explicitPrior [][]byte
		inputIx := -1
		do := func(in []byte, mutated bool, genName string) {
			inputIx++
			if inputIx%K != jobs[ji].k {
				return
			}
			var prior [][]byte
			if explicitPrior != nil {
				prior = explicitPrior
			} else {
				for k := gh.Intn(3) + 1; k > 0 && len(history) > 0; k-- {
					prior = append(prior, history[gh.Intn(len(history))])
				}
			}
			cs := c03Case{Kind: "c03", Target: t.Name, Version: int(ver), Input: "", Gen: genName}
			slots[si].desc.Store(c03Case{Kind: "c03", Target: t.Name, Version: int(ver), Input: core.HexCap(in, 2048), Gen: genName})
			slots[si].start.Store(time.Now().UnixNano())
			c.Evals(4)
			okc := c03RunCase(t, ver, in, prior, func(sig, detail string) {
				cs.Input = core.Hex(in)
				for _, p := range prior {
					cs.Prior = append(cs.Prior, core.Hex(p))
				}
				c.Violate(sig, detail, cs)
			})
			slots[si].start.Store(0)
			// bookkeeping: did it parse?
			succeeded := false
			if okc {
				func() {
					defer func() { recover() }()
					m := jt808.NewJTMessage()
					m.Header.ProtocolVersion = ver
					m.Body = exactCap(in)
					succeeded = t.Mk().Parse(m) == nil
				}()
			}
			if succeeded {
				parsedOK.Add(1)
			}
			if succeeded || (explicitPrior == nil && gh.Chance(1, 6)) { // a rejected input now and then: what a failed parse leaves behind
				if len(history) < 24 {
					history = append(history, in)
				} else {
					history[gh.Intn(len(history))] = in
				}
			}
			if succeeded || mutated {
				c.NonTrivial(core.HashBytes([]byte(t.Name), []byte{byte(ver)}, in))
			}
			if succeeded && mutated && c.WantSample() && gh.Chance(1, 400) {
				c.Sample(map[string]any{"target": t.Name, "header_version": int(ver), "gen": genName, "input": core.HexCap(in, 64)})
			}
		}
		var seeds [][]byte
		for r := 0; r < nseed; r++ {
			seeds = append(seeds, t.Seeds(g)...)
		}
		if !t.Raw {
			seeds = append(seeds, corpus[t.CorpusID]...)
		}
		lens := map[int]bool{}
		for _, s := range seeds {
			lens[len(s)] = true
			do(s, false, "seed")
			// every prefix (long bodies: dense at both ends, strided in the middle)
			for i := 0; i < len(s); i++ {
				if len(s) > 260 && i > 130 && i < len(s)-16 && i%c.N(41, 7) != 0 {
					continue
				}
				do(s[:i], true, "prefix")
				// short prefixes with small flag / count values substituted: "minimal" bodies that a parser may special-case
				if i >= 1 && i <= 8 {
					for j := 0; j < i; j++ {
						for _, v := range []byte{0, 1, 2, 3, 0xff} {
							if s[j] == v {
								continue
							}
							q := append([]byte{}, s[:i]...)
							q[j] = v
							do(q, true, "short-prefix-substitute")
						}
					}
				}
			}
			// substitutions
			pos := g.Perm(len(s))
			if len(pos) > subCap {
				// always hit the first 64 positions (counts / lengths live there), sample the rest
				keep := map[int]bool{}
				for i := 0; i < 64 && i < len(s); i++ {
					keep[i] = true
				}
				for _, p := range pos {
					if len(keep) >= subCap {
						break
					}
					keep[p] = true
				}
				pos = pos[:0]
				for p := range keep {
					pos = append(pos, p)
				}
				sort.Ints(pos)
			}
			for _, i := range pos {
				vals := []byte{0, 1, 0x7f, 0x80, 0xfe, 0xff}
				if i < 16 {
					// counts and totals live at the front: high single bits make count*stride wrap in 8/16/32-bit arithmetic
					vals = append(vals, 0x02, 0x04, 0x08, 0x10, 0x20, 0x40, 0xc0)
				}
				for _, v := range vals {
					if s[i] == v {
						continue
					}
					q := append([]byte{}, s...)
					q[i] = v
					do(q, true, "substitute")
				}
			}
			// one byte appended / removed in the middle (shifts every later field)
			if len(s) > 2 {
				i := g.Intn(len(s))
				do(append(append(append([]byte{}, s[:i]...), g.U8()), s[i:]...), true, "insert")
				do(append(append([]byte{}, s[:i]...), s[i+1:]...), true, "delete")
			}
		}
		// residue of earlier parses: the receiver parses seed A, then another seed or a REJECTED piece of it (a prefix: fields were
		// being filled in when the parser gave up; for frames also well-formed-looking frames the decoder rejects late), then A
		// again — the last outcome must be that of a fresh receiver
		{
			lim := min(len(seeds), 10)
			for i := 0; i < lim; i++ {
				for j := 0; j < lim; j++ {
					if i == j {
						continue
					}
					s2 := seeds[j]
					for _, r := range [][]byte{s2, s2[:len(s2)/2], s2[:max(len(s2)-1, 0)]} {
						explicitPrior = [][]byte{seeds[i], r}
						do(seeds[i], false, "A-other-A")
					}
				}
			}
			explicitPrior = nil
		}
		// near-identical predecessor: the receiver has just parsed the SAME body with one byte different (the next report of the
		// same alarm, the same list with another count): anything a parser remembers under a key made of some of the fields
		// and skips re-decoding for is exposed by the neighbour that shares the key and differs elsewhere
		{
			lim := min(len(seeds), 6)
			for i := 0; i < lim; i++ {
				sd := seeds[i]
				for pos := 0; pos < len(sd) && pos < 400; pos++ {
					for _, d := range []byte{0x01, 0x10, 0x80} {
						if d != 0x01 && (pos*7+int(d))%3 != 0 && !c.Thorough() {
							continue
						}
						q := append([]byte{}, sd...)
						q[pos] ^= d
						explicitPrior = [][]byte{q}
						do(sd, false, "neighbour-then-A")
					}
				}
			}
			explicitPrior = nil
		}
		// TLV sweeps
		switch t.TypeName {
		case "T0x0200", "T0x0704":
			for id := 0; id < 256; id++ {
				for l := 0; l <= 48; l++ {
					if !c.Thorough() && id > 0x40 && l > 2 && (id*7+l)%5 != 0 && !(id >= 0x64 && id <= 0x70) {
						continue
					}
					item := append([]byte{byte(id), byte(l)}, g.Bytes(l)...)
					loc := append(g.LocBlock(), item...)
					if t.TypeName == "T0x0704" {
						loc = append([]byte{0, 1, 0, byte(len(loc) >> 8), byte(len(loc))}, loc...)
					}
					do(loc, true, "tlv-item")
					if l > 0 && g.Chance(1, 6) { // declared length longer than what follows
						do(loc[:len(loc)-1-g.Intn(l)], true, "tlv-item-short")
					}
				}
			}
		case "P0x8103", "T0x0104":
			for _, id := range []int{0xF364, 0xF365, 0xF366, 0xF367, 0xF370, 0xF000, 0xFFFF, 0x0110, 0x01FF, 0x7FFF, 0x8000} {
				// vendor and active-safety parameter IDs with every value length (renderers that know a vendor layout index into the value)
				for l := 0; l <= 80; l++ {
					b := []byte{1, 0, 0, byte(id >> 8), byte(id), byte(l)}
					b = append(b, g.Bytes(l)...)
					if t.TypeName == "T0x0104" {
						b = append([]byte{g.U8(), g.U8()}, b...)
					}
					do(b, true, "tlv-param")
				}
			}
			for id := 0; id <= 0x120; id++ {
				for l := 0; l <= 12; l++ {
					b := []byte{1, 0, 0, byte(id >> 8), byte(id), byte(l)}
					b = append(b, g.Bytes(l)...)
					if t.TypeName == "T0x0104" {
						b = append([]byte{g.U8(), g.U8()}, b...)
					}
					do(b, true, "tlv-param")
				}
			}
		}
		if strings.HasPrefix(t.Name, "extension") {
			id := byte(0)
			fmt.Sscanf(t.Name, "extension0x%02x", &id)
			for l := 0; l <= 130; l++ {
				ct := g.Bytes(l)
				do(append([]byte{id}, ct...), true, "ext-length")
				if l > 40 {
					ct2 := append([]byte{}, ct...)
					ct2[40] = byte((l - 40) / 9)
					do(append([]byte{id}, ct2...), true, "ext-length")
				}
			}
		}
		// random bodies, lengths concentrated around the seeds' lengths +-2 and small values
		var ls []int
		for l := range lens {
			ls = append(ls, l)
		}
		sort.Ints(ls)
		for i := 0; i < nrand; i++ {
			l := g.Intn(80)
			switch g.Intn(4) {
			case 0:
				if len(ls) > 0 {
					l = ls[g.Intn(len(ls))] + g.Intn(5) - 2
				}
			case 1:
				l = g.Intn(1024)
			}
			if l < 0 {
				l = 0
			}
			b := g.Bytes(l)
			for j := range b {
				switch g.Intn(5) {
				case 0:
					b[j] = byte(g.Intn(4))
				case 1:
					b[j] = 0xff
				}
			}
			if t.Name == "jt808.Decode" && l >= 2 && g.Chance(3, 4) {
				b[0], b[l-1] = 0x7e, 0x7e
			}
			if t.Name == "jt1078.Decode" && l >= 4 && g.Chance(3, 4) {
				copy(b, []byte{0x30, 0x31, 0x63, 0x64})
			}
			do(b, false, "random")
		}
	})
	<-longLived
	close(stopWatch)
	// bodies beyond 65535 bytes (reassembled sub-packaged messages): consistent counts of tens of thousands of entries, whole and
	// cut at a few dozen places, with 16-bit-boundary counts substituted
	{
		bigs := gen.BigCases(gen.G{Rand: core.NewRand(c.Seed, "c03big", 0)})
		nbig := c.Counter("bodies_larger_than_65535_bytes")
		core.ParallelFor(len(bigs), ncpu(), func(i int) {
			tc := bigs[i]
			var tgt *c03Target
			for k := range targets {
				if targets[k].TypeName == tc.Type {
					tgt = &targets[k]
					break
				}
			}
			if tgt == nil {
				return
			}
			body := tc.Val.Encode()
			r := core.NewRand(c.Seed, "c03bigr", uint64(i))
			inputs := [][]byte{body}
			for q := 0; q < c.N(4, 24); q++ {
				inputs = append(inputs, body[:r.Intn(len(body))])
			}
			for _, cut := range []int{65534, 65535, 65536, 65537, 65540, 131071, 131072} {
				if cut < len(body) {
					inputs = append(inputs, body[:cut])
				}
			}
			if tc.Type == "T0x0704" && i < 16 {
				// batch items whose 16-bit length field is at its limit (an item length + 2 computed in 16 bits wraps to 0 or 1:
				// the cursor stops advancing and the same item is parsed Num times), content = a location block and empty
				// additional-information items, followed by an ordinary item
				for _, il := range []int{0xFFFB, 0xFFFC, 0xFFFD, 0xFFFE, 0xFFFF} {
					for _, num := range []int{1, 2, 3, 0x100, 0xFFFF} {
						b := []byte{byte(num >> 8), byte(num), 1, byte(il >> 8), byte(il)}
						b = append(b, body[5:5+28]...)
						if (il-28)%2 == 1 {
							b = append(b, 0x07, 0x01, 0x55)
						}
						for len(b) < 5+il {
							b = append(b, 0x07, 0x00)
						}
						b = append(b, body[3:3+30]...)
						if (il+num+i)%4 == 0 { // sampled: 25 such bodies per target would take a minute
							inputs = append(inputs, b)
						}
					}
				}
			}
			for _, in := range inputs {
				c.Evals(4)
				cs := c03Case{Kind: "c03", Target: tgt.Name, Version: int(tc.Ver), Gen: "big-body", Input: core.HexCap(in, 64) + fmt.Sprintf("…(%d bytes)", len(in))}
				done := make(chan struct{})
				go func() {
					defer close(done)
					c03RunCase(tgt, tc.Ver, in, nil, func(sig, detail string) {
						c.Violate(sig, detail+fmt.Sprintf(" [body of %d bytes, %s]", len(in), tc.Name), cs)
					}, len(in) == len(body) && len(in) <= 100000) // (the renderers build their text by repeated concatenation: quadratic, tens of seconds beyond 100 KB)
				}()
				select {
				case <-done:
				case <-time.After(40 * time.Second):
					c.Violate("hang|"+tgt.Name+"|no result within 20 s", fmt.Sprintf("decoding a body of %d bytes did not terminate promptly (40 s for parse + render in all presentations)", len(in)), cs)
					if x.Out != "" {
						c.WriteTo(x.Out)
					}
					os.Exit(3)
				}
				nbig.Add(1)
				c.NonTrivial(core.HashBytes([]byte(tgt.Name), in[:min(len(in), 64)], []byte(fmt.Sprint(len(in)))))
			}
		})
	}
	c.Count("inputs_parsed_successfully", parsedOK.Load())
	c.Floor("entry_points", 40)
	c.Floor("inputs_parsed_successfully", 5000)
}
