package checks

import (
	"bytes"
	"fmt"

	"github.com/cuteLittleDevil/go-jt808/protocol/jt808"

	"verif/harness/internal/core"
	"verif/harness/internal/ref"
)

// C01 — frame encode/decode round trip and delimiter transparency.
// Oracle: reference framing model (ref.Validate) + the library's own Decode, on the output of Header.Encode
// where the header comes from Decode of a reference-built terminal frame.

func init() {
	register(core.Plan{
		Property: "C01", Level: "exploration",
		Parts: func(tier string) []core.Part {
			return []core.Part{{Name: "roundtrip", Bin: "plain", Batches: 1, TimeoutS: 900}}
		},
		Assumptions: []string{
			"reference framing model internal/ref (escape, XOR checksum, 2013/2019 header layout) is the trusted base",
			"source headers are obtained the way the library obtains them: JTMessage.Decode of a terminal frame",
			"ReplyID 0 means 'reuse the source message ID' (documented fallback of Header.Encode)",
		},
	}, map[string]Worker{"roundtrip": c01Worker})
	replayers["c01"] = c01Replay
}

type c01Case struct {
	Kind    string `json:"kind"`
	Src     string `json:"src_frame"`
	ReplyID uint16 `json:"reply_id"`
	PSerial uint16 `json:"platform_serial"`
	Body    string `json:"body"`
	Class   string `json:"class,omitempty"`
}

var c01Classes = []string{"random", "all7e", "all7d", "alt7d01", "alt7d02", "alt7e7d", "ends", "first", "last", "adjacent",
	"chk7e", "chk7d", "chk01", "chk02", "all01", "all02", "rand4", "rand5", "zeros", "ff"}

func c01Body(r *core.Rand, l, class int) []byte {
	b := make([]byte, l)
	sp := []byte{0x7e, 0x7d, 0x01, 0x02, 0x00}
	for i := range b {
		switch c01Classes[class] {
		case "all7e":
			b[i] = 0x7e
		case "all7d":
			b[i] = 0x7d
		case "alt7d01":
			b[i] = []byte{0x7d, 0x01}[i%2]
		case "alt7d02":
			b[i] = []byte{0x7d, 0x02}[i%2]
		case "alt7e7d":
			b[i] = []byte{0x7e, 0x7d}[i%2]
		case "all01":
			b[i] = 0x01
		case "all02":
			b[i] = 0x02
		case "rand4":
			b[i] = sp[r.Intn(4)]
		case "rand5":
			b[i] = sp[r.Intn(5)]
		case "zeros":
			b[i] = 0
		case "ff":
			b[i] = 0xff
		default:
			b[i] = r.Byte()
		}
	}
	if l == 0 {
		return b
	}
	switch c01Classes[class] {
	case "ends":
		b[0], b[l-1] = sp[r.Intn(2)], sp[r.Intn(2)]
	case "first":
		b[0] = sp[r.Intn(2)]
	case "last":
		b[l-1] = sp[r.Intn(2)]
	case "adjacent":
		p := r.Intn(l)
		for k := 0; k < 6 && p+k < l; k++ {
			b[p+k] = sp[r.Intn(4)]
		}
	}
	return b
}

func c01Phone(r *core.Rand, n, variant int) []byte {
	bcd := make([]byte, n)
	switch variant % 5 {
	case 0: // all zero
	case 1: // leading zeros
		for j := n / 2; j < n; j++ {
			bcd[j] = byte(r.Intn(10))<<4 | byte(r.Intn(10))
		}
	case 2: // specials inside the phone field (7e / 7d are legal BCD-field bytes on the wire? they are bytes; the header is escaped like the body)
		for j := range bcd {
			bcd[j] = []byte{0x7e, 0x7d, 0x01, 0x02}[r.Intn(4)]
		}
	default:
		for j := range bcd {
			bcd[j] = byte(r.Intn(10))<<4 | byte(r.Intn(10))
		}
	}
	return bcd
}

var c01Serials = []uint16{0, 1, 0x7d7e, 0x7e7d, 0xffff, 0x7e7e, 0x7d01}
var c01Reply = []uint16{0, 0x7e7e, 0x7d01, 0x8001, 0x8100, 0x7d7d}

// c01Run executes one case; returns "" or the oracle that fired.
func c01Run(cs c01Case) (bad string, nontrivial bool) {
	src := core.UnHex(cs.Src)
	body := core.UnHex(cs.Body)
	sf, ok := ref.Validate(src)
	if !ok {
		return "harness: source frame invalid", false
	}
	m := jt808.NewJTMessage()
	if err := m.Decode(src); err != nil {
		return "", false // C02's business: the source must decode; not counted here
	}
	m.Header.ReplyID = cs.ReplyID
	m.Header.PlatformSerialNumber = cs.PSerial
	out := m.Header.Encode(body)
	if len(out) < 2 || out[0] != 0x7e || out[len(out)-1] != 0x7e {
		return "delimiter|missing", true
	}
	in := out[1 : len(out)-1]
	if bytes.IndexByte(in, 0x7e) >= 0 {
		return "delimiter|interior 7e", true
	}
	esc := 0
	for i := 0; i < len(in); i++ {
		if in[i] == 0x7d {
			esc++
			if i+1 >= len(in) || (in[i+1] != 0x01 && in[i+1] != 0x02) {
				return "escape|7d not followed by 01/02", true
			}
		}
	}
	wantID := cs.ReplyID
	if wantID == 0 {
		wantID = sf.ID
	}
	f, ok := ref.Validate(out)
	switch {
	case !ok:
		bad = "decode|reference model rejects the encoded frame"
	case f.ID != wantID:
		bad = "field|id"
	case !bytes.Equal(f.BCD, sf.BCD):
		bad = "field|phone"
	case f.V2019 != sf.V2019:
		bad = "field|version"
	case f.Serial != cs.PSerial:
		bad = "field|serial"
	case !bytes.Equal(f.Body, body):
		bad = "field|body"
	}
	if bad == "" {
		m2 := jt808.NewJTMessage()
		if err := m2.Decode(out); err != nil {
			bad = "decode|library rejects its own frame: " + err.Error()
		} else {
			h := m2.Header
			v2019 := int(h.ProtocolVersion) == 3
			switch {
			case h.ID != wantID:
				bad = "owndecode|id"
			case h.TerminalPhoneNo != sf.Phone:
				bad = "owndecode|phone"
			case v2019 != sf.V2019:
				bad = "owndecode|version"
			case h.SerialNumber != cs.PSerial:
				bad = "owndecode|serial"
			case !bytes.Equal(m2.Body, body):
				bad = "owndecode|body"
			}
		}
	}
	nontrivial = esc > 0 || len(body) >= 1000 || sf.Fragmented || (ok && (f.Check == 0x7e || f.Check == 0x7d || f.Check == 1 || f.Check == 2))
	return bad, nontrivial
}

func c01MakeSrc(r *core.Rand, v2019, frag bool, phoneVar int) ([]byte, ref.Params) {
	n := 6
	if v2019 {
		n = 10
	}
	// the 2019 header's protocol-version-number byte: every class of value a terminal may put there (the reply always says 1)
	vb := core.Pick(r, []byte{1, 1, 0, 2, 0x7d, 0x7e, 0xff, r.Byte()})
	q := ref.Params{ID: r.U16(), V2019: v2019, VersionByt: vb, Encrypt: r.Bool(), Fragmented: frag, BCD: c01Phone(r, n, phoneVar),
		Serial: core.Pick(r, append(c01Serials, r.U16(), r.U16())), Body: r.Bytes(core.Pick(r, []int{r.Intn(24), r.Intn(24), r.Intn(24), 255, 256, 511, 512, 513, 600 + r.Intn(400), 1000, 1022, 1023}))}
	if r.Chance(1, 6) {
		q.ID = core.Pick(r, []uint16{0x7e7e, 0x7d7d, 0x0200, 0x0002, 0x7d01})
	}
	if frag {
		q.Sum = uint16(2 + r.Intn(5))
		q.No = uint16(1 + r.Intn(int(q.Sum)))
		if r.Chance(1, 4) { // the package fields are the terminal's business: zero, one, maximal, inconsistent
			q.Sum = core.Pick(r, []uint16{0, 0, 1, 65535, 0x7e7d})
			q.No = core.Pick(r, []uint16{0, 1, 65535, q.Sum})
		}
	}
	return ref.Build(q), q
}

func c01Worker(c *core.Collector, x *Ctx) {
	c.Rule = "source header = Decode(reference-built frame) over {2013,2019}x{fragmented,not}x{encrypt bit}x phone classes x serial specials; " +
		"bodies: every length 0..1023 x content classes (random, all-7e, all-7d, alternating escape pairs, specials at ends/adjacent, " +
		"checksum steered to 7e/7d/01/02, ...); bodies with exactly k special bytes for k=0..140 and around 256/512/1023 x checksum 7e/7d/other; exhaustive bodies of length<=3 over {7e,7d,01,02,00}. " +
		"non-trivial = output has >=1 escape pair, or checksum is 7e/7d/01/02, or len>=1000, or source fragmented; distinct by hash of (source frame, ids, body)"
	type job struct{ l, class, variant int }
	var jobs []job
	boundary := map[int]bool{}
	for _, l := range []int{0, 1, 2, 3, 4, 997, 998, 999, 1000, 1001, 1002, 1019, 1020, 1021, 1022, 1023} {
		boundary[l] = true
	}
	nvar := c.N(4, 24) // variants (x4 header kinds) per (len,class)
	for l := 0; l <= 1023; l++ {
		for class := range c01Classes {
			if !c.Thorough() && !boundary[l] {
				// quick: 7 of the 20 classes per length, rotating so that every class meets every residue of length
				if (class+l)%3 != 0 {
					continue
				}
			}
			for v := 0; v < nvar; v++ {
				jobs = append(jobs, job{l, class, v})
			}
		}
	}
	run := func(cs c01Case) {
		c.Eval()
		var bad string
		var nt bool
		if guard(c, func() any { return cs }, func() { bad, nt = c01Run(cs) }) {
			return
		}
		if nt {
			c.NonTrivial(core.HashString(cs.Src + "|" + cs.Body + fmt.Sprint(cs.ReplyID, cs.PSerial)))
		}
		if bad != "" {
			if bad[:7] == "harness" {
				panic(bad)
			}
			src := core.UnHex(cs.Src)
			sf, _ := ref.Validate(src)
			where := fmt.Sprintf("frag=%v len>=1000=%v", sf.Fragmented, len(cs.Body)/2 >= 1000)
			c.Violate("roundtrip|"+bad+"|"+where, "Header.Encode output fails: "+bad+" ("+where+")", cs)
		} else if nt && c.WantSample() {
			c.Sample(map[string]any{"src_frame": cs.Src, "reply_id": cs.ReplyID, "platform_serial": cs.PSerial, "body": trunc(cs.Body, 64), "class": cs.Class})
		}
	}
	core.ParallelFor(len(jobs), ncpu(), func(i int) {
		j := jobs[i]
		r := core.NewRand(c.Seed, "c01", uint64(i))
		v2019 := j.variant&1 == 1
		frag := j.variant&2 == 2
		src, q := c01MakeSrc(r, v2019, frag, j.variant/4+j.l)
		body := c01Body(r, j.l, j.class)
		reply := core.Pick(r, append(c01Reply, r.U16(), r.U16(), r.U16()))
		ps := core.Pick(r, append(c01Serials, r.U16(), r.U16(), r.U16()))
		cls := c01Classes[j.class]
		if len(cls) == 5 && cls[:3] == "chk" && j.l > 0 {
			// steer the checksum: expected payload per the reference model (bit 13 never set in a reply)
			id := reply
			if id == 0 {
				id = q.ID
			}
			p := ref.Payload(ref.Params{ID: id, V2019: q.V2019, VersionByt: 1, Encrypt: q.Encrypt, BCD: q.BCD, Serial: ps, Body: body})
			target := map[string]byte{"chk7e": 0x7e, "chk7d": 0x7d, "chk01": 1, "chk02": 2}[cls]
			body[len(body)-1] ^= p[len(p)-1] ^ target
		}
		run(c01Case{Kind: "c01", Src: core.Hex(src), ReplyID: reply, PSerial: ps, Body: core.Hex(body), Class: cls})
	})
	// receiving loop: the frames Header.Encode produced are decoded the way a reader does it — ONE message object and ONE
	// buffer for frame after frame (each frame copied to the start of the buffer) — by sources with different phones, versions
	// and with / without bytes that need escaping: every frame decodes back to ITS source's phone, ID, serial and body
	{
		shards := 16
		per := c.N(1500, 20000)
		core.ParallelFor(shards, ncpu(), func(sh int) {
			r := core.NewRand(c.Seed, "c01loop", uint64(sh))
			rd := jt808.NewJTMessage()
			scratch := make([]byte, 4096)
			for i := 0; i < per; i++ {
				v2019 := r.Chance(1, 4) != (sh%2 == 0) // mostly one layout per shard, now and then the other
				src, q := c01MakeSrc(r, v2019, r.Chance(1, 5), r.Intn(8))
				if r.Bool() { // an escape-free source and body half the time
					q.BCD = c01Phone(r, len(q.BCD), 3)
					q.ID, q.Serial, q.VersionByt = 0x0200, uint16(0x100+r.Intn(0x7000))&0x7c7c|0x0101, 1
					src = ref.Build(q)
				}
				m := jt808.NewJTMessage()
				if m.Decode(src) != nil {
					continue
				}
				body := c01Body(r, r.Intn(40), 0)
				ps := uint16(0x0101 + r.Intn(0x7000)&0x7c7c)
				m.Header.ReplyID = 0x8001
				m.Header.PlatformSerialNumber = ps
				out := m.Header.Encode(body)
				c.Eval()
				sf, _ := ref.Validate(src)
				cs := c01Case{Kind: "c01", Src: core.Hex(src), ReplyID: 0x8001, PSerial: ps, Body: core.Hex(body), Class: "receiving-loop"}
				var bad string
				if guard(c, func() any { return cs }, func() {
					n := copy(scratch, out)
					if err := rd.Decode(scratch[:n]); err != nil {
						bad = "decode|library rejects its own frame: " + err.Error()
						return
					}
					h := rd.Header
					switch {
					case h.ID != 0x8001:
						bad = "owndecode|id"
					case h.TerminalPhoneNo != sf.Phone:
						bad = "owndecode|phone"
					case (int(h.ProtocolVersion) == 3) != sf.V2019:
						bad = "owndecode|version"
					case h.SerialNumber != ps:
						bad = "owndecode|serial"
					case !bytes.Equal(rd.Body, body):
						bad = "owndecode|body"
					}
				}) {
					return
				}
				if bad != "" {
					c.Violate("roundtrip|"+bad+"|decoded by a reused message object from a reused buffer", "a frame built by Header.Encode, decoded the way a read loop does it, comes back as another message: "+bad, cs)
					return
				}
				c.Count("frames_decoded_by_a_reused_object_from_a_reused_buffer", 1)
			}
		})
	}
	// special-count sweep: bodies with EXACTLY k bytes that need escaping (k = 0..140, and around 256 / 512 / 1023), in an
	// otherwise special-free frame, with the checksum steered to 7e, 7d or left alone: output-buffer sizing and growth in
	// the escaper depend on the number of escapes, and the closing delimiter / an escaped checksum land right behind them
	var ks []int
	for k := 0; k <= 140; k++ {
		ks = append(ks, k)
	}
	ks = append(ks, 250, 251, 252, 253, 254, 255, 256, 257, 258, 505, 506, 507, 508, 509, 510, 511, 512, 513, 514, 1015, 1016, 1017, 1018, 1019, 1020, 1021, 1022, 1023)
	reps := c.N(2, 6)
	core.ParallelFor(len(ks)*3*2*reps, ncpu(), func(i int) {
		r := core.NewRand(c.Seed, "c01k", uint64(i))
		k := ks[i%len(ks)]
		target := []byte{0, 0x7e, 0x7d}[i/len(ks)%3]
		v2019 := i/len(ks)/3%2 == 1
		n := 6
		if v2019 {
			n = 10
		}
		bcd := make([]byte, n)
		for j := range bcd {
			bcd[j] = byte(r.Intn(10))<<4 | byte(r.Intn(10))
		}
		q := ref.Params{ID: 0x0200, V2019: v2019, VersionByt: 1, BCD: bcd, Serial: uint16(1 + r.Intn(0x7000)), Body: []byte{1, 2, 3}}
		src := ref.Build(q)
		l := k + 2 + r.Intn(20)
		if l > 1023 {
			l = 1023
		}
		body := make([]byte, l)
		for j := range body {
			body[j] = byte(0x10 + r.Intn(0x60)) // 10..6f: never special
		}
		for _, p := range r.Perm(l)[:k] {
			body[p] = []byte{0x7e, 0x7d}[r.Intn(2)]
		}
		ps := uint16(0x1000 + r.Intn(0x6000))
		if target != 0 && l-k >= 2 {
			var fill []int
			for j := range body {
				if body[j] != 0x7e && body[j] != 0x7d {
					fill = append(fill, j)
				}
			}
			a, b := fill[0], fill[len(fill)-1]
			for try := 0; try < 64; try++ {
				p := ref.Payload(ref.Params{ID: 0x8001, V2019: v2019, VersionByt: 1, BCD: bcd, Serial: ps, Body: body})
				body[b] ^= p[len(p)-1] ^ target
				if body[b] != 0x7e && body[b] != 0x7d {
					break
				}
				body[a] = byte(0x10 + r.Intn(0x60))
			}
		}
		run(c01Case{Kind: "c01", Src: core.Hex(src), ReplyID: 0x8001, PSerial: ps, Body: core.Hex(body), Class: fmt.Sprintf("exactly-%d-specials-chk-%02x", k, target)})
		c.Count("special_count_sweep_cases", 1)
	})
	c.Floor("special_count_sweep_cases", 1000)
	// header fields that need escaping x EVERY body length: reply IDs and platform serials with 7d / 7e in the high byte, the low
	// byte or both, both layouts, bodies escape-free and with a dozen specials (anything that peeks at header offsets in the
	// escaped bytes, or sizes buffers from them, is off by the number of escapes in front)
	{
		ids := []uint16{0x807e, 0x807d, 0x7e02, 0x7d03, 0x7e7e, 0x7d7d, 0x7e7d, 0x8001}
		sers := []uint16{0x1234, 0x7e00, 0x007d, 0x7d7e}
		type hj struct {
			id, ser uint16
			v2019   bool
			l, k    int
		}
		var hjobs []hj
		for _, id := range ids {
			for si, ser := range sers {
				if id == 0x8001 && si == 0 {
					continue
				}
				if id != 0x8001 && si != 0 && c.Thorough() == false && (int(id)+si)%2 == 0 {
					continue
				}
				for _, v := range []bool{false, true} {
					for l := 0; l <= 1023; l++ {
						hjobs = append(hjobs, hj{id, ser, v, l, 0})
						if l >= 12 && l%3 == 0 {
							hjobs = append(hjobs, hj{id, ser, v, l, 12})
						}
					}
				}
			}
		}
		core.ParallelFor(len(hjobs), ncpu(), func(i int) {
			j := hjobs[i]
			r := core.NewRand(c.Seed, "c01hdr", uint64(i))
			n := 6
			if j.v2019 {
				n = 10
			}
			bcd := make([]byte, n)
			for q := range bcd {
				bcd[q] = byte(r.Intn(10))<<4 | byte(r.Intn(10))
			}
			src := ref.Build(ref.Params{ID: 0x0200, V2019: j.v2019, VersionByt: 1, BCD: bcd, Serial: 7, Body: []byte{1}})
			body := make([]byte, j.l)
			for q := range body {
				body[q] = byte(0x10 + r.Intn(0x60))
			}
			for _, pos := range r.Perm(j.l)[:min(j.k, j.l)] {
				body[pos] = []byte{0x7e, 0x7d}[r.Intn(2)]
			}
			run(c01Case{Kind: "c01", Src: core.Hex(src), ReplyID: j.id, PSerial: j.ser, Body: core.Hex(body), Class: "escaped-header-fields-x-every-length"})
		})
		c.Count("escaped_header_field_cases", int64(len(hjobs)))
	}
	// long run: ONE decoded header object re-used for 70 000 consecutive Encode calls (serials across the wrap, bodies of all
	// classes): state that an encoder might keep between calls (pooled buffers, counters, cached escapes) gets a long history
	for hv := 0; hv < 2; hv++ {
		r := core.NewRand(c.Seed, "c01long", uint64(hv))
		src, _ := c01MakeSrc(r, hv == 1, false, 3)
		sf, ok := ref.Validate(src)
		m := jt808.NewJTMessage()
		if !ok || m.Decode(src) != nil {
			continue
		}
		n := c.N(70000, 140000)
		var held [][]byte // frames of the recent past are re-checked later: an encoder must not hand out memory it rewrites
		var heldWant []*ref.Frame
		for i := 0; i < n; i++ {
			l := r.Intn(40)
			if i%97 == 0 {
				l = core.Pick(r, []int{0, 1, 255, 256, 257, 511, 512, 1000, 1022, 1023})
			}
			body := c01Body(r, l, r.Intn(len(c01Classes)))
			ps := uint16(i + 65000)
			m.Header.ReplyID = 0x8001
			m.Header.PlatformSerialNumber = ps
			var out []byte
			cs := c01Case{Kind: "c01", Src: core.Hex(src), ReplyID: 0x8001, PSerial: ps, Body: core.Hex(body), Class: "long-run"}
			if guard(c, func() any { return cs }, func() { out = m.Header.Encode(body) }) {
				break
			}
			c.Eval()
			f, ok := ref.Validate(out)
			if !ok || f.ID != 0x8001 || f.Serial != ps || !bytes.Equal(f.Body, body) || !bytes.Equal(f.BCD, sf.BCD) || f.V2019 != sf.V2019 {
				c.Violate("roundtrip|long run on one header object: frame does not decode to what was encoded", fmt.Sprintf("call %d of the run", i), cs)
				break
			}
			if i%64 == 0 {
				held = append(held, out)
				heldWant = append(heldWant, f)
				if len(held) > 40 {
					old, want := held[0], heldWant[0]
					held, heldWant = held[1:], heldWant[1:]
					if g, ok := ref.Validate(old); !ok || g.Serial != want.Serial || !bytes.Equal(g.Body, want.Body) {
						c.Violate("roundtrip|a frame returned by Encode changed after later Encode calls", fmt.Sprintf("frame of call %d re-checked at call %d", i-40*64, i), cs)
						break
					}
				}
			}
		}
		c.Count("long_run_encodes_on_one_header", int64(n))
	}
	// one JTMessage re-used for a sequence of different source frames, framed each time with ReplyID left at 0 ("same ID as the
	// message"): the frame must carry the ID of the message decoded LAST
	{
		r := core.NewRand(c.Seed, "c01sticky", 0)
		m := jt808.NewJTMessage()
		n := c.N(4000, 40000)
		for i := 0; i < n; i++ {
			src, q := c01MakeSrc(r, r.Bool(), r.Chance(1, 4), i)
			if m.Decode(src) != nil {
				continue
			}
			body := c01Body(r, r.Intn(30), r.Intn(len(c01Classes)))
			ps := uint16(i)
			m.Header.PlatformSerialNumber = ps
			cs := c01Case{Kind: "c01", Src: core.Hex(src), ReplyID: 0, PSerial: ps, Body: core.Hex(body), Class: "re-used message, ReplyID left at 0"}
			var out []byte
			if guard(c, func() any { return cs }, func() { out = m.Header.Encode(body) }) {
				break
			}
			c.Eval()
			if f, ok := ref.Validate(out); !ok || f.ID != q.ID || f.Serial != ps || !bytes.Equal(f.Body, body) || !bytes.Equal(f.BCD, q.BCD) {
				c.Violate("roundtrip|re-used message framed with the ID of an earlier message (ReplyID left at 0)", fmt.Sprintf("step %d: source ID %04x", i, q.ID), cs)
				break
			}
		}
		c.Count("reused_message_reply_id_zero_steps", int64(n))
	}
	// exhaustive: all bodies of length <= 3 over the 5-symbol alphabet, each header variant
	alpha := []byte{0x7e, 0x7d, 0x01, 0x02, 0x00}
	var small [][]byte
	small = append(small, []byte{})
	for a := 0; a < 5; a++ {
		small = append(small, []byte{alpha[a]})
		for b := 0; b < 5; b++ {
			small = append(small, []byte{alpha[a], alpha[b]})
			for d := 0; d < 5; d++ {
				small = append(small, []byte{alpha[a], alpha[b], alpha[d]})
			}
		}
	}
	core.ParallelFor(len(small)*4, ncpu(), func(i int) {
		r := core.NewRand(c.Seed, "c01x", uint64(i))
		src, _ := c01MakeSrc(r, i&1 == 1, i&2 == 2, i)
		run(c01Case{Kind: "c01", Src: core.Hex(src), ReplyID: core.Pick(r, c01Reply), PSerial: core.Pick(r, c01Serials), Body: core.Hex(small[i/4]), Class: "exhaustive<=3"})
	})
	c.Count("exhaustive_small_bodies", int64(len(small)*4))
	c.Exh = true
	c.Floor("exhaustive_small_bodies", 600)
}

func c01Replay(w map[string]any) string {
	var cs c01Case
	remarshal(w, &cs)
	bad, _ := c01Run(cs)
	return bad
}
