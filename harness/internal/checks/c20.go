package checks

import (
	"bytes"
	"encoding/hex"
	"fmt"
	"sort"
	"strings"
	"sync"
	"time"

	"github.com/cuteLittleDevil/go-jt808/protocol/jt808"
	"github.com/cuteLittleDevil/go-jt808/protocol/model"
	"github.com/cuteLittleDevil/go-jt808/shared/consts"
	"github.com/cuteLittleDevil/go-jt808/terminal"

	"verif/harness/internal/core"
	"verif/harness/internal/ref"
	"verif/harness/internal/svc"
)

// C20 — the terminal simulator and the codec agree.
// Part "frames": every generated frame is judged by the reference framing model, the library decoder and the
// matching model type. Part "replies": ExpectedReply is compared with the bytes a live default server writes.

func init() {
	register(core.Plan{
		Property: "C20", Level: "exploration",
		Parts: func(tier string) []core.Part {
			return []core.Part{{Name: "frames", Bin: "plain", Batches: 1, TimeoutS: 1200}, {Name: "replies", Bin: "plain", Batches: 1, TimeoutS: 1200}}
		},
		Assumptions: []string{
			"reference framing model internal/ref; phones compared after stripping leading zeros (all-zero equals all-zero)",
			"ExpectedReply is compared for the reply-bearing commands the simulator registers, against a live server in its default configuration, with the platform serial tracked by the monitor (it reads every frame the server writes)",
		},
	}, map[string]Worker{"frames": c20Frames, "replies": c20Replies})
}

type c20Model interface {
	Parse(*jt808.JTMessage) error
	Encode() []byte
}

func c20ModelFor(id consts.JT808CommandType) c20Model {
	switch id {
	case consts.T0001GeneralRespond:
		return &model.T0x0001{}
	case consts.T0002HeartBeat:
		return &model.T0x0002{}
	case consts.T0100Register:
		return &model.T0x0100{}
	case consts.T0102RegisterAuth:
		return &model.T0x0102{}
	case consts.T0200LocationReport:
		return &model.T0x0200{}
	case consts.T0704LocationBatchUpload:
		return &model.T0x0704{}
	case consts.T1003UploadAudioVideoAttr:
		return &model.T0x1003{}
	case consts.T1205UploadAudioVideoResourceList:
		return &model.T0x1205{}
	case consts.T1206FileUploadCompleteNotice:
		return &model.T0x1206{}
	case consts.P8001GeneralRespond:
		return &model.P0x8001{}
	case consts.P8003ReissueSubcontractingRequest:
		return &model.P0x8003{}
	case consts.P8100RegisterRespond:
		return &model.P0x8100{}
	case consts.P8104QueryTerminalParams:
		return &model.P0x8104{}
	case consts.P8801CameraShootImmediateCommand:
		return &model.P0x8801{}
	case consts.P9003QueryTerminalAudioVideoProperties:
		return &model.P0x9003{}
	case consts.P9101RealTimeAudioVideoRequest:
		return &model.P0x9101{}
	case consts.P9102AudioVideoControl:
		return &model.P0x9102{}
	case consts.P9201SendVideoRecordRequest:
		return &model.P0x9201{}
	case consts.P9205QueryResourceList:
		return &model.P0x9205{}
	case consts.P9206FileUploadInstructions:
		return &model.P0x9206{}
	case consts.P9207FileUploadControl:
		return &model.P0x9207{}
	case consts.T1210AlarmAttachInfoMessage:
		return &model.T0x1210{}
	case consts.T1211FileInfoUpload:
		return &model.T0x1211{}
	case consts.T1212FileUploadComplete:
		return &model.T0x1212{}
	}
	return nil
}

var c20Cmds = []consts.JT808CommandType{consts.T0001GeneralRespond, consts.T0002HeartBeat, consts.T0100Register, consts.T0102RegisterAuth, consts.T0200LocationReport,
	consts.T0704LocationBatchUpload, consts.T1003UploadAudioVideoAttr, consts.T1205UploadAudioVideoResourceList, consts.T1206FileUploadCompleteNotice,
	consts.P8001GeneralRespond, consts.P8003ReissueSubcontractingRequest, consts.P8100RegisterRespond, consts.P8104QueryTerminalParams,
	consts.P8801CameraShootImmediateCommand, consts.P9003QueryTerminalAudioVideoProperties, consts.P9101RealTimeAudioVideoRequest, consts.P9102AudioVideoControl,
	consts.P9201SendVideoRecordRequest, consts.P9205QueryResourceList, consts.P9206FileUploadInstructions, consts.P9207FileUploadControl,
	consts.T1210AlarmAttachInfoMessage, consts.T1211FileInfoUpload, consts.T1212FileUploadComplete}

var c20Versions = []consts.ProtocolVersionType{consts.JT808Protocol2011, consts.JT808Protocol2013, consts.JT808Protocol2019}

func stripZeros(s string) string {
	t := strings.TrimLeft(s, "0")
	if t == "" && s != "" {
		return "0"
	}
	return t
}

// c20Phones: digit strings of every length with the patterns of the property, plus phones whose header checksum is 7e / 7d.
func c20Phones(r *core.Rand, ver consts.ProtocolVersionType, perLen int) []string {
	maxLen := 12
	if ver == consts.JT808Protocol2019 {
		maxLen = 20
	}
	var out []string
	for l := 1; l <= maxLen; l++ {
		for variant := 0; variant < perLen; variant++ {
			d := make([]byte, l)
			for i := range d {
				switch {
				case variant == 0:
					d[i] = '0'
				case variant == 1:
					d[i] = '9'
				case variant == 2 && i < (l+1)/2:
					d[i] = '0'
				default:
					d[i] = byte('0' + r.Intn(10))
				}
			}
			out = append(out, string(d))
		}
	}
	// checksum-special phones: the simulator escapes the checksum of its seed frame by hand
	n := maxLen / 2
	base := []byte{0x00, 0x02, 0x00, 0x00}
	if ver == consts.JT808Protocol2019 {
		base = []byte{0x00, 0x02, 0x40, 0x00, 0x01, 0x02} // the simulator's 2019 seed frame has a trailing 02
	}
	var x0 byte
	for _, b := range base {
		x0 ^= b
	}
	found := map[byte]int{}
	for tries := 0; tries < 400000 && (found[0x7e] < 3 || found[0x7d] < 3); tries++ {
		bcd := make([]byte, n)
		x := x0
		for i := range bcd {
			bcd[i] = byte(r.Intn(10))<<4 | byte(r.Intn(10))
			x ^= bcd[i]
		}
		if (x == 0x7e || x == 0x7d) && found[x] < 3 {
			found[x]++
			out = append(out, hex.EncodeToString(bcd))
		}
	}
	return out
}

func c20Frames(c *core.Collector, x *Ctx) {
	c.Rule = "versions 2011/2013/2019 x EVERY phone length 1..12 (1..20 for 2019) x digit patterns (all zeros, all nines, leading zeros, random; phones whose seed-frame checksum is 7e/7d searched explicitly) x every command the simulator registers: " +
		"reference + library decode, command ID, phone (leading zeros aside), version layout, serial = previous + 1, body parsed by the matching model type and re-encoded; CreateCommandData with bodies 0..1023 of C01's content classes over 70000 frames (serial wrap). distinct by hash of (version, phone, command) / body"
	perLen := c.N(12, 60)
	type job struct {
		ver   consts.ProtocolVersionType
		phone string
	}
	var jobs []job
	for vi, ver := range c20Versions {
		r := core.NewRand(c.Seed, "c20p", uint64(vi))
		for _, p := range c20Phones(r, ver, perLen) {
			jobs = append(jobs, job{ver, p})
		}
	}
	special := c.Counter("phones_with_special_seed_checksum")
	unsupportedAsked := c.Counter("unsupported_commands_requested_between_frames")
	core.ParallelFor(len(jobs), ncpu(), func(ji int) {
		j := jobs[ji]
		var t *terminal.Terminal
		if guard(c, func() any { return map[string]any{"version": int(j.ver), "phone": j.phone} }, func() { t = terminal.New(terminal.WithHeader(j.ver, j.phone)) }) {
			return
		}
		if ji%len(jobs) >= 0 && len(j.phone) > 0 {
			// count the checksum-special ones (appended last by c20Phones: hex of the BCD, full width)
		}
		prev := -1
		for ci, cmd := range c20Cmds {
			c.Eval()
			c.NonTrivial(core.HashString(fmt.Sprintf("%d/%s/%04x", j.ver, j.phone, uint16(cmd))))
			w := map[string]any{"version": int(j.ver), "phone": j.phone, "command": fmt.Sprintf("%04x", uint16(cmd))}
			tag := fmt.Sprintf("v%d|0x%04x", j.ver, uint16(cmd))
			guard(c, func() any { return w }, func() {
				if ci%3 == 1 {
					// a request the simulator cannot serve produces no frame and therefore must not use up a serial number
					un := core.Pick(core.NewRand(uint64(ji), "c20un", uint64(ci)), []consts.JT808CommandType{consts.T0104QueryParameter, consts.T0800MultimediaEventInfoUpload, consts.P8103SetTerminalParams, consts.P8104QueryTerminalParams, consts.JT808CommandType(0x0f0f)})
					if uf := t.CreateDefaultCommandData(un); uf != nil {
						// served after all: it is a frame like any other and takes part in the numbering
						if rf, ok := ref.Validate(uf); ok {
							if ci > 0 && int(rf.Serial) != (prev+1)%65536 {
								c.Violate("frame|serial is not the previous one plus 1|"+tag, fmt.Sprintf("prev %d now %d (command %04x)", prev, rf.Serial, uint16(un)), w)
							}
							prev = int(rf.Serial)
						}
					} else {
						unsupportedAsked.Add(1)
					}
				}
				f := t.CreateDefaultCommandData(cmd)
				w["frame"] = core.HexCap(f, 120)
				if f == nil {
					c.Violate("frame|no frame generated for a registered command|"+tag, j.phone, w)
					return
				}
				rf, ok := ref.Validate(f)
				m := jt808.NewJTMessage()
				err := m.Decode(f)
				if !ok || err != nil {
					c.Violate("frame|generated frame rejected by the decoder|"+tag, fmt.Sprintf("phone %s: reference ok=%v library err=%v", j.phone, ok, err), w)
					return
				}
				switch {
				case rf.ID != uint16(cmd) || m.Header.ID != uint16(cmd):
					c.Violate("frame|wrong command ID|"+tag, j.phone, w)
				case stripZeros(rf.Phone) != stripZeros(j.phone) || stripZeros(m.Header.TerminalPhoneNo) != stripZeros(j.phone):
					c.Violate("frame|wrong phone number|v"+fmt.Sprint(int(j.ver)), fmt.Sprintf("asked %s, frame carries %s", j.phone, rf.Phone), w)
				case rf.V2019 != (j.ver == consts.JT808Protocol2019):
					c.Violate("frame|header layout does not match the version|"+tag, j.phone, w)
				case rf.V2019 && len(rf.BCD) != 10, !rf.V2019 && len(rf.BCD) != 6:
					c.Violate("frame|header layout does not match the version|"+tag, j.phone, w)
				case ci > 0 && int(rf.Serial) != (prev+1)%65536:
					c.Violate("frame|serial is not the previous one plus 1|"+tag, fmt.Sprintf("prev %d now %d", prev, rf.Serial), w)
				}
				prev = int(rf.Serial)
				h := c20ModelFor(cmd)
				if h == nil {
					return
				}
				if err := h.Parse(m); err != nil {
					c.Violate("body|body of a generated frame does not parse with its model type|"+tag, fmt.Sprintf("%v body %x", err, m.Body), w)
					return
				}
				if re := h.Encode(); re != nil && !bytes.Equal(re, m.Body) {
					c.Violate("body|body of a generated frame re-encodes differently|"+tag, fmt.Sprintf("%x vs %x", m.Body, re), w)
				}
			})
		}
		if ji%53 == 0 && c.WantSample() {
			c.Sample(map[string]any{"version": int(j.ver), "phone": j.phone, "commands": len(c20Cmds)})
		}
	})
	_ = special
	c.Count("version_phone_pairs", int64(len(jobs)))
	// ONE option value applied to several terminals (a fleet configured from one template): each terminal numbers its own frames
	for vi, ver := range c20Versions {
		opt := terminal.WithHeader(ver, fmt.Sprintf("1380000%04d", 7000+vi))
		var fleet []*terminal.Terminal
		for k := 0; k < 3; k++ {
			fleet = append(fleet, terminal.New(opt))
		}
		prev := []int{-1, -1, -1}
		for step := 0; step < 60; step++ {
			k := step % 3
			if step%7 == 6 {
				k = (step / 7) % 3
			}
			cmd := c20Cmds[step%len(c20Cmds)]
			f := fleet[k].CreateDefaultCommandData(cmd)
			c.Eval()
			rf, ok := ref.Validate(f)
			if f == nil || !ok {
				continue
			}
			if prev[k] >= 0 && int(rf.Serial) != (prev[k]+1)%65536 {
				c.Violate("frame|terminals built from one option value do not number their frames independently", fmt.Sprintf("v%d terminal %d: previous %d, now %d", ver, k, prev[k], rf.Serial), map[string]any{"version": int(ver), "terminal": k})
				break
			}
			prev[k] = int(rf.Serial)
		}
		c.Count("fleet_terminals_from_one_option", 3)
	}
	// simulators built in every other way the package offers — no option at all (the built-in template header), separate but
	// equal option values, a custom header object per simulator — generating frames in turn: each numbers its own frames
	{
		mk := map[string]func(k int) *terminal.Terminal{
			"no options (default header)": func(k int) *terminal.Terminal { return terminal.New() },
			"equal option values built separately": func(k int) *terminal.Terminal {
				return terminal.New(terminal.WithHeader(c20Versions[1], "13800007777"))
			},
			"one option slice reused": nil,
		}
		mk["custom header object per simulator"] = func(k int) *terminal.Terminal {
			// a header decoded from a frame of the terminal's own (what WithCustomHeader is for): 2019 layout, its own phone
			m := jt808.NewJTMessage()
			bcd := svc.PhoneBCD(fmt.Sprintf("1390000%04d", 100+k), 10)
			if err := m.Decode(ref.Build(ref.Params{ID: 0x0002, V2019: true, VersionByt: 1, BCD: bcd, Serial: uint16(500 * k)})); err != nil {
				return terminal.New()
			}
			return terminal.New(terminal.WithCustomHeader(m.Header))
		}
		shared := []terminal.Option{terminal.WithHeader(c20Versions[len(c20Versions)-1], "13800008888")}
		mk["one option slice reused"] = func(k int) *terminal.Terminal { return terminal.New(shared...) }
		var kinds []string
		for kd := range mk {
			kinds = append(kinds, kd)
		}
		sort.Strings(kinds)
		for _, kd := range kinds {
			var fleet []*terminal.Terminal
			for k := 0; k < 3; k++ {
				fleet = append(fleet, mk[kd](k))
			}
			prev := []int{-1, -1, -1}
			for step := 0; step < 90; step++ {
				k := step % 3
				if step%7 == 6 {
					k = (step / 7) % 3
				}
				var f []byte
				if step%5 == 4 {
					f = fleet[k].CreateCommandData(consts.T0200LocationReport, make([]byte, 28))
				} else {
					f = fleet[k].CreateDefaultCommandData(c20Cmds[step%len(c20Cmds)])
				}
				c.Eval()
				rf, ok := ref.Validate(f)
				if f == nil || !ok {
					continue
				}
				if kd == "custom header object per simulator" && !bytes.Equal(rf.BCD, svc.PhoneBCD(fmt.Sprintf("1390000%04d", 100+k), 10)) {
					c.Violate("frame|a simulator with a custom header frames with another phone number", fmt.Sprintf("simulator %d: %x", k, rf.BCD), map[string]any{"built": kd, "terminal": k})
					break
				}
				if prev[k] >= 0 && int(rf.Serial) != (prev[k]+1)%65536 {
					c.Violate("frame|simulators generating frames in turn do not number their frames independently", fmt.Sprintf("%s: simulator %d: previous %d, now %d", kd, k, prev[k], rf.Serial), map[string]any{"built": kd, "terminal": k})
					break
				}
				prev[k] = int(rf.Serial)
			}
			c.Count("simulators_generating_in_turn", 3)
		}
	}
	// custom bodies + serial wrap
	for vi, ver := range c20Versions {
		r := core.NewRand(c.Seed, "c20w", uint64(vi))
		t := terminal.New(terminal.WithHeader(ver, "13800001111"))
		prev := -1
		nframes := 70000
		if !c.Thorough() && vi != 1 {
			nframes = 3000
		}
		for i := 0; i < nframes; i++ {
			l := r.Intn(24)
			class := r.Intn(len(c01Classes))
			if i%257 == 0 {
				l = core.Pick(r, []int{999, 1000, 1001, 1022, 1023})
			}
			body := c01Body(r, l, class)
			c.Eval()
			c.NonTrivial(core.HashBytes([]byte{byte(ver)}, body))
			w := map[string]any{"version": int(ver), "custom_body": core.HexCap(body, 64), "frame_index": i}
			guard(c, func() any { return w }, func() {
				f := t.CreateCommandData(consts.T0200LocationReport, body)
				rf, ok := ref.Validate(f)
				switch {
				case !ok:
					c.Violate("custom|frame with a custom body rejected by the reference decoder", fmt.Sprintf("len %d class %s", l, c01Classes[class]), w)
				case !bytes.Equal(rf.Body, body):
					c.Violate("custom|custom body altered", "", w)
				case rf.ID != 0x0200:
					c.Violate("custom|wrong ID", "", w)
				case prev >= 0 && int(rf.Serial) != (prev+1)%65536:
					c.Violate("custom|serial is not the previous one plus 1 (wrap included)", fmt.Sprintf("prev %d now %d", prev, rf.Serial), w)
				}
				if ok {
					prev = int(rf.Serial)
				}
			})
		}
		c.Count("custom_body_frames", int64(nframes))
	}
	c.Floor("version_phone_pairs", 300)
	c.Floor("custom_body_frames", 70000)
}

// reply-bearing commands the simulator can generate and the server answers
var c20ReplyCmds = []consts.JT808CommandType{consts.T0002HeartBeat, consts.T0100Register, consts.T0102RegisterAuth, consts.T0200LocationReport, consts.T0704LocationBatchUpload,
	consts.T1003UploadAudioVideoAttr, consts.T1210AlarmAttachInfoMessage, consts.T1211FileInfoUpload, consts.T1212FileUploadComplete}

func c20Replies(c *core.Collector, x *Ctx) {
	c.Rule = "ExpectedReply(seq, frame) vs the bytes a live default server writes for that frame: every reply-bearing command x versions 2011/2013/2019 x phones of several lengths, platform serials 0..N on one connection (N=300 quick / 70000 thorough, i.e. across the wrap). distinct by hash of (version, phone, command, platform serial)"
	srv, err := svc.Start(nil)
	if err != nil {
		c.Inconclusive()
		return
	}
	type job struct {
		ver   consts.ProtocolVersionType
		phone string
		n     int
	}
	var jobs []job
	r := core.NewRand(c.Seed, "c20r", 0)
	for vi, ver := range c20Versions {
		lens := []int{1, 6, 11, 12}
		if ver == consts.JT808Protocol2019 {
			lens = append(lens, 20)
		}
		for _, l := range lens {
			d := make([]byte, l)
			for i := range d {
				d[i] = byte('1' + r.Intn(9))
			}
			d[0] = byte('1' + vi) // the session key is the phone: keep the phones of concurrent connections distinct
			jobs = append(jobs, job{ver, string(d), c.N(300, 3000)})
			if l >= 6 {
				// the same digits with leading zeros (the server strips them for the key and for the 0x8100 auth code)
				z := append([]byte("000"), d[3:]...)
				z[3] = byte('4' + vi)
				jobs = append(jobs, job{ver, string(z), c.N(150, 1500)})
			}
		}
	}
	// one long connection across the platform-serial wrap
	jobs = append(jobs, job{consts.JT808Protocol2013, "93912345678", c.N(66000, 70000)})
	var wg sync.WaitGroup
	// phones that are all zeros (they share one session key per field width, so these sessions run one after the other)
	var zeroJobs []job
	for _, ver := range c20Versions {
		zs := []string{"0", "000000", "000000000000"}
		if ver == consts.JT808Protocol2019 {
			zs = append(zs, "00000000000000000000")
		}
		for _, z := range zs {
			zeroJobs = append(zeroJobs, job{ver, z, c.N(40, 200)})
		}
	}
	var runJob func(ji int, j job)
	defer func() {
		for zi, j := range zeroJobs {
			wg.Add(1)
			runJob(1000+zi, j)
			c.Count("all_zero_phone_sessions", 1)
			// the next session presents the same key: wait until the server has released it (a command to an absent key returns
			// "not exist" at once)
			for _, key := range []string{"000000000000", "00000000000000000000", "0"} {
				for try := 0; try < 400; try++ {
					if res := sendCmd(srv.G, key, consts.P8104QueryTerminalParams, nil, 5*time.Millisecond, 5*time.Second); res.kind == "notexist" {
						break
					}
					sleepMs(25)
				}
			}
		}
		c.Floor("all_zero_phone_sessions", 6)
	}()
	for ji, j := range jobs {
		wg.Add(1)
		runJob = func(ji int, j job) {
			defer wg.Done()
			sim := terminal.New(terminal.WithHeader(j.ver, j.phone))
			conn, err := svc.Dial(srv.Addr, j.ver == consts.JT808Protocol2019, "1")
			if err != nil {
				c.Inconclusive()
				return
			}
			defer conn.Close()
			rr := core.NewRand(c.Seed, "c20rr", uint64(ji))
			pserial := 0
			prevFrameSerial := -1
			const window = 64
			type sent struct {
				frame []byte
				cmd   consts.JT808CommandType
			}
			var inflight []sent
			check := func(s sent) bool {
				rx, ok, to := conn.Next(60 * time.Second)
				if to {
					c.Inconclusive()
					return false
				}
				if !ok {
					c.Violate("reply|server closed the connection on a simulator frame", fmt.Sprintf("v%d phone %s cmd %04x", j.ver, j.phone, uint16(s.cmd)), map[string]any{"frame": core.Hex(s.frame)})
					return false
				}
				var want []byte
				w := map[string]any{"version": int(j.ver), "phone": j.phone, "frame": core.Hex(s.frame), "platform_serial": pserial % 65536}
				if guard(c, func() any { return w }, func() { want = sim.ExpectedReply(uint16(pserial%65536), hex.EncodeToString(s.frame)) }) {
					return false
				}
				c.Eval()
				c.NonTrivial(core.HashString(fmt.Sprintf("%d/%s/%04x/%d", j.ver, j.phone, uint16(s.cmd), pserial)))
				if !bytes.Equal(want, rx.Raw) {
					c.Violate(fmt.Sprintf("reply|ExpectedReply differs from what the server sent|0x%04x", uint16(s.cmd)), fmt.Sprintf("v%d phone %s serial %d: predicted %x, server sent %x", j.ver, j.phone, pserial, want, rx.Raw), w)
					return false
				}
				pserial++
				return true
			}
			for i := 0; i < j.n; i++ {
				cmd := c20ReplyCmds[rr.Intn(len(c20ReplyCmds))]
				if j.n > 10000 {
					cmd = consts.T0002HeartBeat
					if i%100 == 0 {
						cmd = consts.T0200LocationReport
					}
				}
				f := sim.CreateDefaultCommandData(cmd)
				if f == nil {
					continue
				}
				// serial continuity must also hold while ExpectedReply calls are interleaved with frame generation
				if rf, ok := ref.Validate(f); ok {
					if prevFrameSerial >= 0 && int(rf.Serial) != (prevFrameSerial+1)%65536 {
						c.Violate("frame|serial is not the previous one plus 1 when ExpectedReply is used in between", fmt.Sprintf("v%d phone %s: previous %d, now %d", j.ver, j.phone, prevFrameSerial, rf.Serial), map[string]any{"version": int(j.ver), "phone": j.phone})
						return
					}
					prevFrameSerial = int(rf.Serial)
				}
				if conn.Write(f) != nil {
					break
				}
				inflight = append(inflight, sent{f, cmd})
				if len(inflight) >= window {
					if !check(inflight[0]) {
						return
					}
					inflight = inflight[1:]
				}
			}
			for _, s := range inflight {
				if !check(s) {
					return
				}
			}
			c.Count("connections", 1)
			if ji == 0 {
				c.Sample(map[string]any{"version": int(j.ver), "phone": j.phone, "replies_compared": pserial})
			}
		}
		go runJob(ji, j)
	}
	wg.Wait()
	c.Floor("connections", 5)
}
