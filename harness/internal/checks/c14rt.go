package checks

import (
	"bytes"
	"fmt"
	"sync"
	"time"

	"github.com/cuteLittleDevil/go-jt808/service"

	"verif/harness/internal/core"
	"verif/harness/internal/svc"
)

// C14 monitor 2 (socket, real time, thorough tier, sound direction only): after sleeping >= 5.3 s the next inbound
// data must trigger exactly one 0x8003 with the exact list; after >= 61 s the transfer is gone. "Nothing before
// 5 s / 60 s" is never judged on the wall clock (monitor 1 decides that direction on virtual time).

func c14RealTime(c *core.Collector, x *Ctx) {
	c.Rule = "real-time socket scenarios run concurrently: packet 1 + a subset of N packets, sleep 5.3 s, heartbeat => exactly one 0x8003 (first packet's serial, ascending missing list, next platform serial) and the heartbeat's own reply; an immediate second heartbeat => no further 0x8003; " +
		"then either resupply (transfer completes and is answered) or sleep to 61 s and resupply (no delivery, no reply for the transfer). evaluation = one scenario"
	srv, err := svc.Start(func() service.TerminalEventer { return svc.NewRecorder() })
	if err != nil {
		c.Inconclusive()
		return
	}
	n := 40
	var wg sync.WaitGroup
	for i := 0; i < n; i++ {
		wg.Add(1)
		go func(i int) {
			defer wg.Done()
			r := core.NewRand(c.Seed, "c14rt", uint64(i))
			t, err := svc.Dial(srv.Addr, r.Bool(), fmt.Sprintf("%d", 5500000+i))
			if err != nil {
				c.Inconclusive()
				return
			}
			defer t.Close()
			bad := func(sig, detail string) {
				c.Violate("realtime|"+sig, fmt.Sprintf("scenario %d: %s", i, detail), map[string]any{"scenario": i})
			}
			N := 3 + r.Intn(8)
			bodies := c05Bodies(r, N, r.Intn(4))
			for len(bytes.Join(bodies, nil)) < 36 {
				bodies[N-1] = append(bodies[N-1], 0x41)
			}
			var missing []int
			frames := 0 // frames the server has written so far
			next := func() (svc.Rx, bool) {
				rx, ok, to := t.Next(30 * time.Second)
				if to {
					c.Inconclusive()
					return rx, false
				}
				if !ok || rx.F == nil {
					bad("connection closed or undecodable frame during a valid conversation", "")
					return rx, false
				}
				if int(rx.F.Serial) != frames {
					bad("platform serial not consecutive", fmt.Sprintf("got %d want %d", rx.F.Serial, frames))
				}
				frames++
				return rx, true
			}
			first := uint16(700 + i)
			t.Write(t.SubFrame(0x0801, first, uint16(N), 1, bodies[0]))
			for k := 2; k <= N; k++ {
				if r.Chance(1, 2) || (k == N && len(missing) == 0) {
					missing = append(missing, k)
				} else {
					t.Write(t.SubFrame(0x0801, first+uint16(k), uint16(N), uint16(k), bodies[k-1]))
				}
			}
			time.Sleep(5300 * time.Millisecond)
			t.Write(t.Frame(0x0002, 1, nil))
			want := []byte{byte(first >> 8), byte(first), byte(len(missing))}
			for _, k := range missing {
				want = append(want, 0, byte(k))
			}
			got8003, got8001 := 0, 0
			for q := 0; q < 2; q++ {
				rx, ok := next()
				if !ok {
					return
				}
				switch rx.F.ID {
				case 0x8003:
					got8003++
					if !bytes.Equal(rx.F.Body, want) {
						bad("re-request body is not (first packet's serial, count, ascending missing numbers)", fmt.Sprintf("got %x want %x", rx.F.Body, want))
					}
				case 0x8001:
					got8001++
				default:
					bad("unexpected frame", fmt.Sprintf("%x", rx.Raw))
				}
			}
			if got8003 != 1 || got8001 != 1 {
				bad("after >= 5.3 s idle the next inbound data did not yield exactly one re-request", fmt.Sprintf("8003 x%d, 8001 x%d", got8003, got8001))
				return
			}
			// immediately again: at most once per 5 s
			t.Write(t.Frame(0x0002, 2, nil))
			if rx, ok := next(); !ok {
				return
			} else if rx.F.ID != 0x8001 {
				bad("a second re-request within 5 s of the first", fmt.Sprintf("%x", rx.Raw))
				return
			}
			expire := i%2 == 1
			if expire {
				time.Sleep(56 * time.Second) // > 61 s since packet 1
			}
			for _, k := range missing {
				t.Write(t.SubFrame(0x0801, first+uint16(100+k), uint16(N), uint16(k), bodies[k-1]))
			}
			t.Write(t.Frame(0x0002, 3, nil))
			// frames until the reply to a SECOND sentinel that is sent only after the first one was answered: a completed
			// transfer is appended after the other messages of the read that completed it, so its reply may trail the first sentinel's
			var ids []uint16
			for {
				rx, ok := next()
				if !ok {
					return
				}
				if rx.F.ID == 0x8001 && len(rx.F.Body) == 5 && rx.F.Body[1] == 3 && rx.F.Body[3] == 2 {
					t.Write(t.Frame(0x0002, 4, nil))
					continue
				}
				if rx.F.ID == 0x8001 && len(rx.F.Body) == 5 && rx.F.Body[1] == 4 && rx.F.Body[3] == 2 {
					break
				}
				ids = append(ids, rx.F.ID)
				if rx.F.ID == 0x8800 && !bytes.Equal(rx.F.Body, bytes.Join(bodies, nil)[:4]) {
					bad("completed transfer answered with a wrong multimedia ID", "")
				}
			}
			n8800 := 0
			for _, id := range ids {
				if id == 0x8800 {
					n8800++
				}
			}
			if expire && n8800 != 0 {
				bad("a transfer older than 61 s was still delivered and answered", fmt.Sprint(ids))
			}
			if !expire && n8800 != 1 {
				bad("transfer not completed exactly once after the named packets arrived", fmt.Sprint(ids))
			}
			c.Eval()
			c.Count("realtime_scenarios", 1)
			c.NonTrivial(core.HashString(fmt.Sprintf("c14rt/%d/%v/%v", i, missing, expire)))
			if i < 2 {
				c.Sample(map[string]any{"N": N, "missing": missing, "expire": expire})
			}
		}(i)
	}
	wg.Wait()
	c.Floor("realtime_scenarios", 20)
}
