package checks

import (
	"bytes"
	"fmt"
	"sync"
	"time"

	"github.com/cuteLittleDevil/go-jt808/service"
	"github.com/cuteLittleDevil/go-jt808/shared/consts"

	"verif/harness/internal/core"
	"verif/harness/internal/svc"
)

// C14 monitor 2 (socket, real time, thorough tier, sound direction only): after sleeping >= 5.3 s the next inbound
// data must trigger exactly one 0x8003 with the exact list; after >= 61 s the transfer is gone. "Nothing before
// 5 s / 60 s" is never judged on the wall clock (monitor 1 decides that direction on virtual time).

func c14RealTime(c *core.Collector, x *Ctx) { c14RealTimeRun(c, x, false) }

// c14RealTimeShort is the quick-tier variant: 16 scenarios, only the 5 s phase (about 6 s of wall time).
func c14RealTimeShort(c *core.Collector, x *Ctx) { c14RealTimeRun(c, x, true) }

func c14RealTimeRun(c *core.Collector, x *Ctx, short bool) {
	c.Rule = "real-time socket scenarios run concurrently: packet 1 + a subset of N packets, sleep 5.3 s, heartbeat => exactly one 0x8003 (first packet's serial, ascending missing list, next platform serial) and the heartbeat's own reply; an immediate second heartbeat => no further 0x8003; " +
		"then either resupply (transfer completes and is answered) or sleep to 61 s and resupply (no delivery, no reply for the transfer). evaluation = one scenario"
	srv, err := svc.Start(func() service.TerminalEventer { return svc.NewRecorder() })
	if err != nil {
		c.Inconclusive()
		return
	}
	n := 40
	if short {
		n = 16
	}
	var wg sync.WaitGroup
	// re-request after a long quiet spell: the server wrote to this terminal once (a heartbeat reply), then nothing for 11 s —
	// longer than any deadline it may have armed on the socket for that write — and the data that triggers the re-request is
	// itself not answered (a packet of another message): the 0x8003 is the first thing the server writes after the pause
	for i := 0; i < 3; i++ {
		wg.Add(1)
		go func(i int) {
			defer wg.Done()
			t, err := svc.Dial(srv.Addr, i%2 == 1, fmt.Sprintf("%d", 5590000+i))
			if err != nil {
				c.Inconclusive()
				return
			}
			defer t.Close()
			c.Eval()
			bad := func(sig, detail string) {
				c.Violate("realtime|"+sig, fmt.Sprintf("quiet-spell scenario %d: %s", i, detail), map[string]any{"scenario": "quiet-spell", "index": i})
			}
			t.Write(t.Frame(0x0002, 1, nil))
			if rx, ok, to := t.Next(30 * time.Second); to || !ok || rx.F == nil || rx.F.ID != 0x8001 {
				c.Inconclusive()
				return
			}
			first := uint16(900 + i)
			t.Write(t.SubFrame(0x0801, first, 3, 1, bytes.Repeat([]byte{0x31}, 40)))
			time.Sleep(time.Duration(10500+500*i) * time.Millisecond)
			// the trigger: packet 1 of another message (opens a second transfer, gets no reply)
			t.Write(t.SubFrame(0x0704, 0x300, 2, 1, bytes.Repeat([]byte{0x32}, 20)))
			want := []byte{byte(first >> 8), byte(first), 2, 0, 2, 0, 3}
			rx, ok, to := t.Next(4 * time.Second)
			if to {
				// nothing came: is the server merely slow? a heartbeat answered at once says it is alive and owes the re-request
				t0 := time.Now()
				t.Write(t.Frame(0x0002, 2, nil))
				rxp, okp, top := t.Next(5 * time.Second)
				if !top && okp && rxp.F != nil && rxp.F.ID == 0x8001 && time.Since(t0) < 500*time.Millisecond {
					bad("after >= 5.3 s idle the next inbound data did not yield exactly one re-request", "11 s after the server's last write to this terminal, the packet of another message produced no 0x8003 within 4 s; a heartbeat sent then was answered at once")
				} else {
					c.Inconclusive()
				}
				return
			}
			if !ok || rx.F == nil {
				bad("connection closed or undecodable frame during a valid conversation", "after the quiet spell")
				return
			}
			if rx.F.ID != 0x8003 || !bytes.Equal(rx.F.Body, want) {
				bad("re-request body is not (first packet's serial, count, ascending missing numbers)", fmt.Sprintf("got %04x %x want 8003 %x", rx.F.ID, rx.F.Body, want))
				return
			}
			if rx.F.Serial != 1 {
				bad("platform serial not consecutive", fmt.Sprintf("re-request after the quiet spell carries %d, want 1", rx.F.Serial))
			}
			c.Count("re_requests_after_an_11_s_quiet_spell", 1)
		}(i)
	}
	for i := 0; i < n; i++ {
		wg.Add(1)
		go func(i int) {
			defer wg.Done()
			r := core.NewRand(c.Seed, "c14rt", uint64(i))
			t, err := svc.Dial(srv.Addr, r.Bool(), fmt.Sprintf("%d", 5500000+i))
			if err != nil {
				c.Inconclusive()
				return
			}
			defer t.Close()
			bad := func(sig, detail string) {
				c.Violate("realtime|"+sig, fmt.Sprintf("scenario %d: %s", i, detail), map[string]any{"scenario": i})
			}
			N := 3 + r.Intn(8)
			bodies := c05Bodies(r, N, r.Intn(4))
			for len(bytes.Join(bodies, nil)) < 36 {
				bodies[N-1] = append(bodies[N-1], 0x41)
			}
			var missing []int
			frames := 0 // frames the server has written so far
			next := func() (svc.Rx, bool) {
				rx, ok, to := t.Next(30 * time.Second)
				if to {
					c.Inconclusive()
					return rx, false
				}
				if !ok || rx.F == nil {
					bad("connection closed or undecodable frame during a valid conversation", "")
					return rx, false
				}
				if int(rx.F.Serial) != frames {
					bad("platform serial not consecutive", fmt.Sprintf("got %d want %d", rx.F.Serial, frames))
				}
				frames++
				return rx, true
			}
			first := uint16(700 + i)
			t.Write(t.SubFrame(0x0801, first, uint16(N), 1, bodies[0]))
			for k := 2; k <= N; k++ {
				if r.Chance(1, 2) || (k == N && len(missing) == 0) {
					missing = append(missing, k)
				} else {
					t.Write(t.SubFrame(0x0801, first+uint16(k), uint16(N), uint16(k), bodies[k-1]))
				}
			}
			// every third scenario has a platform command outstanding while the re-request is produced (answered afterwards)
			var cmdRes chan cmdResult
			answerCmd := func() {}
			if i%3 == 0 {
				time.Sleep(5700 * time.Millisecond)
				cmdRes = make(chan cmdResult, 1)
				go func() {
					cmdRes <- sendCmd(srv.G, t.Phone, consts.P8104QueryTerminalParams, nil, 8*time.Second, 8*time.Second+slackFor(time.Second))
				}()
				rx, ok := next()
				if !ok {
					return
				}
				if rx.F.ID != 0x8104 {
					bad("unexpected frame", fmt.Sprintf("expected the platform command, got %x", rx.Raw))
					return
				}
				cmdSerial := rx.F.Serial
				answerCmd = func() {
					t.Write(t.Frame(0x0001, 0x7001, []byte{byte(cmdSerial >> 8), byte(cmdSerial), 0x81, 0x04, 0}))
					select {
					case res := <-cmdRes:
						if res.kind != "response" {
							bad("a command outstanding while a re-request was produced did not get its response", res.kind)
						}
					case <-time.After(20 * time.Second):
						c.Inconclusive()
					}
				}
				time.Sleep(300 * time.Millisecond)
			} else {
				time.Sleep(6000 * time.Millisecond) // the server's idle clock starts when IT has handled the last packet: margin for a loaded machine
			}
			t.Write(t.Frame(0x0002, 1, nil))
			want := []byte{byte(first >> 8), byte(first), byte(len(missing))}
			for _, k := range missing {
				want = append(want, 0, byte(k))
			}
			got8003, got8001 := 0, 0
			var last8003 []byte
			for q := 0; q < 2; q++ {
				if q == 1 && got8001 == 1 {
					// the heartbeat was answered; is the re-request merely late, or missing? Wait 3 s for it; if it does not come, a probe
					// heartbeat that IS answered promptly shows a server that is alive and responsive and still owes the re-request
					if _, okp, top := t.Peek(3 * time.Second); top || !okp {
						t0 := time.Now()
						t.Write(t.Frame(0x0002, 7, nil))
						rxp, okp2, top2 := t.Next(3 * time.Second)
						if top2 || !okp2 || rxp.F == nil {
							c.Inconclusive()
							return
						}
						frames++
						if rxp.F.ID == 0x8001 && time.Since(t0) < 300*time.Millisecond {
							if _, okq, toq := t.Peek(1 * time.Second); toq || !okq {
								bad("after >= 5.3 s idle the next inbound data did not yield exactly one re-request", "the heartbeat was answered, no 0x8003 followed within 3 s, and a probe heartbeat was answered at once")
								return
							}
						} else {
							c.Inconclusive()
							return
						}
					}
				}
				rx, ok := next()
				if !ok {
					return
				}
				switch rx.F.ID {
				case 0x8003:
					got8003++
					if !bytes.Equal(rx.F.Body, want) {
						bad("re-request body is not (first packet's serial, count, ascending missing numbers)", fmt.Sprintf("got %x want %x", rx.F.Body, want))
					}
					if !bytes.Equal(rx.F.BCD, t.BCD) || rx.F.V2019 != t.V2019 {
						bad("re-request not addressed with the terminal's phone number and protocol version", fmt.Sprintf("frame %x", rx.Raw))
					}
					last8003 = rx.Raw
				case 0x8001:
					got8001++
				default:
					bad("unexpected frame", fmt.Sprintf("%x", rx.Raw))
				}
			}
			if got8003 != 1 || got8001 != 1 {
				bad("after >= 5.3 s idle the next inbound data did not yield exactly one re-request", fmt.Sprintf("8003 x%d, 8001 x%d", got8003, got8001))
				return
			}
			// immediately again: at most once per 5 s
			t.Write(t.Frame(0x0002, 2, nil))
			if rx, ok := next(); !ok {
				return
			} else if rx.F.ID != 0x8001 {
				bad("a second re-request within 5 s of the first", fmt.Sprintf("%x", rx.Raw))
				return
			}
			// the re-request is a frame the server wrote: it must have been reported to the write callback with these bytes
			if !svc.RaceMode && last8003 != nil {
				if rec := svc.Lookup(t.Phone, first); rec != nil {
					seen := false
					for _, e := range rec.WriterLog() {
						if e.Kind == "write" && bytes.Equal(e.Data, last8003) {
							seen = true
						}
					}
					if !seen {
						bad("re-request was not reported to the write callback with the bytes sent", fmt.Sprintf("%x", last8003))
					} else {
						c.Count("re_requests_found_in_the_write_callback_log", 1)
					}
				}
			}
			// the outstanding command (if any) is answered now, well inside its 8 s timeout, before the scenario goes on
			answerCmd()
			expire := i%2 == 1 && !short
			if expire {
				time.Sleep(56 * time.Second) // > 61 s since packet 1
			}
			for _, k := range missing {
				t.Write(t.SubFrame(0x0801, first+uint16(100+k), uint16(N), uint16(k), bodies[k-1]))
			}
			t.Write(t.Frame(0x0002, 3, nil))
			// frames until the reply to a SECOND sentinel that is sent only after the first one was answered: a completed
			// transfer is appended after the other messages of the read that completed it, so its reply may trail the first sentinel's
			var ids []uint16
			for {
				rx, ok := next()
				if !ok {
					return
				}
				if rx.F.ID == 0x8001 && len(rx.F.Body) == 5 && rx.F.Body[1] == 3 && rx.F.Body[3] == 2 {
					t.Write(t.Frame(0x0002, 4, nil))
					continue
				}
				if rx.F.ID == 0x8001 && len(rx.F.Body) == 5 && rx.F.Body[1] == 4 && rx.F.Body[3] == 2 {
					break
				}
				ids = append(ids, rx.F.ID)
				if rx.F.ID == 0x8800 && !bytes.Equal(rx.F.Body, bytes.Join(bodies, nil)[:4]) {
					bad("completed transfer answered with a wrong multimedia ID", "")
				}
			}
			n8800 := 0
			for _, id := range ids {
				if id == 0x8800 {
					n8800++
				}
			}
			if expire && n8800 != 0 {
				bad("a transfer older than 61 s was still delivered and answered", fmt.Sprint(ids))
			}
			if !expire && n8800 != 1 {
				bad("transfer not completed exactly once after the named packets arrived", fmt.Sprint(ids))
			}
			c.Eval()
			c.Count("realtime_scenarios", 1)
			c.NonTrivial(core.HashString(fmt.Sprintf("c14rt/%d/%v/%v", i, missing, expire)))
			if i < 2 {
				c.Sample(map[string]any{"N": N, "missing": missing, "expire": expire})
			}
		}(i)
	}
	// several transfers (different message IDs) idle on ONE connection: the read that follows must yield one re-request per transfer
	for m := 0; m < 4; m++ {
		wg.Add(1)
		go func(m int) {
			defer wg.Done()
			r := core.NewRand(c.Seed, "c14rtm", uint64(m))
			t, err := svc.Dial(srv.Addr, m%2 == 1, fmt.Sprintf("%d", 5600000+m))
			if err != nil {
				c.Inconclusive()
				return
			}
			defer t.Close()
			ids := []uint16{0x0801, 0x0704, 0x0200, 0x0102, 0x0100, 0x0800}[:4+m%3]
			want := map[uint16]bool{} // first serial of each transfer
			for q, id := range ids {
				first := uint16(1000 + 10*q)
				bodies := c05Bodies(r, 3, 0)
				t.Write(t.SubFrame(id, first, 3, 1, bodies[0]))
				t.Write(t.SubFrame(id, first+2, 3, 3, bodies[2]))
				want[first] = true
			}
			time.Sleep(6000 * time.Millisecond)
			if m == 3 {
				// a slow write callback holds the writer for 150 ms per frame: the reader has to WAIT for room in the 3-slot
				// re-request channel, possibly for hundreds of milliseconds
				svc.SlowWrite.Store(t.Phone, 150*time.Millisecond)
				defer svc.SlowWrite.Delete(t.Phone)
			}
			if m >= 2 { // the writer is busy answering a burst when the re-requests are produced
				var burst []byte
				for k := 0; k < 8; k++ {
					burst = append(burst, t.Frame(0x0002, uint16(100+k), nil)...)
				}
				t.Write(burst)
			} else {
				t.Write(t.Frame(0x0002, 100, nil))
			}
			got := map[uint16]int{}
			quiet := false
			for !quiet {
				rx, ok, to := t.Next(2500 * time.Millisecond)
				switch {
				case to:
					quiet = true
				case !ok || rx.F == nil:
					c.Violate("realtime|connection closed or undecodable frame during a valid conversation", fmt.Sprintf("multi-transfer scenario %d", m), nil)
					return
				case rx.F.ID == 0x8003 && len(rx.F.Body) == 5:
					first := uint16(rx.F.Body[0])<<8 | uint16(rx.F.Body[1])
					got[first]++
					if !want[first] || rx.F.Body[2] != 1 || rx.F.Body[3] != 0 || rx.F.Body[4] != 2 {
						c.Violate("realtime|re-request body is not (first packet's serial, count, ascending missing numbers)", fmt.Sprintf("multi-transfer scenario %d: %x", m, rx.F.Body), nil)
						return
					}
				case rx.F.ID == 0x8003:
					c.Violate("realtime|re-request body is not (first packet's serial, count, ascending missing numbers)", fmt.Sprintf("multi-transfer scenario %d: %x", m, rx.F.Body), nil)
					return
				}
			}
			// quiet for 2.5 s: is the server merely slow, or are re-requests missing? a sentinel answered promptly decides
			t0 := time.Now()
			t.Write(t.Frame(0x0002, 999, nil))
			rx, ok, to := t.Next(2500 * time.Millisecond)
			if to || !ok || rx.F == nil || time.Since(t0) > 250*time.Millisecond {
				c.Inconclusive()
				return
			}
			// re-requests and replies travel through different channels to the writer: one that was already produced may still
			// follow the sentinel's reply; collect until the connection has been quiet for a second
			if rx.F.ID == 0x8003 && len(rx.F.Body) == 5 {
				got[uint16(rx.F.Body[0])<<8|uint16(rx.F.Body[1])]++
			}
			for {
				rx, ok, to := t.Next(1000 * time.Millisecond)
				if to || !ok {
					break
				}
				if rx.F != nil && rx.F.ID == 0x8003 && len(rx.F.Body) == 5 {
					got[uint16(rx.F.Body[0])<<8|uint16(rx.F.Body[1])]++
				}
			}
			for first := range want {
				if got[first] != 1 {
					c.Violate("realtime|with several transfers idle on one connection, not every one of them was re-requested exactly once", fmt.Sprintf("multi-transfer scenario %d (%d transfers): re-requests per first serial %v", m, len(ids), got), nil)
					return
				}
			}
			c.Eval()
			c.Count("realtime_multi_transfer_scenarios", 1)
		}(m)
	}
	wg.Wait()
	c.Floor("realtime_multi_transfer_scenarios", 2)
	if short {
		c.Floor("re_requests_found_in_the_write_callback_log", 8)
		c.Floor("realtime_scenarios", 8)
	} else {
		c.Floor("realtime_scenarios", 20)
	}
}
