// Package checks: one file per property. Each property registers a Plan (which child
// processes to run) and its worker parts (what a child does).
package checks

import (
	"runtime"

	"verif/harness/internal/core"
)

type Ctx struct {
	Batch   int
	Journal *core.Journal
	Out     string
	Workers int
}

type Worker func(c *core.Collector, x *Ctx)

var Plans = map[string]core.Plan{}
var Workers = map[string]map[string]Worker{}

func register(pl core.Plan, parts map[string]Worker) {
	Plans[pl.Property] = pl
	Workers[pl.Property] = parts
}

func ncpu() int { return runtime.GOMAXPROCS(0) }

// guard runs f and converts a panic into a violation "panic|fn|text"; returns true if f panicked.
func guard(c *core.Collector, witness func() any, f func()) (panicked bool) {
	defer func() {
		if r := recover(); r != nil {
			sig, chain := core.PanicSig(r)
			w := map[string]any{"stack_repo_frames": chain}
			if witness != nil {
				w["case"] = witness()
			}
			c.Violate(sig, "panic: "+core.NormPanic(r)+" (raw: "+trunc(sprint(r), 200)+")", w)
			panicked = true
		}
	}()
	f()
	return false
}
