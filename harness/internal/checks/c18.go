package checks

import (
	"fmt"
	"sync"
	"time"

	"github.com/cuteLittleDevil/go-jt808/service"

	"verif/harness/internal/core"
	"verif/harness/internal/svc"
)

// C18 — connection goroutines are free of data races.
// The scenario suites of C05/C06/C09/C11/C12/C13 run in race-instrumented children with delay injection; the
// orchestrator parses every "WARNING: DATA RACE" block of the children's race logs. In this mode the observers
// add no happens-before edges between a connection's reader and writer (no shared atomics or mutexes), so
// they cannot hide a race from the detector; the scenario oracles are not evaluated here (their own checks do that).

func init() {
	register(core.Plan{
		Property: "C18", Level: "exploration",
		Parts: func(tier string) []core.Part {
			n := 3
			if tier == "thorough" {
				n = 20
			}
			return []core.Part{{Name: "suites", Bin: "raceov", Batches: n, Parallel: 3, TimeoutS: 1200, Env: []string{"VERIF_YIELD=1", "VERIF_RACEMODE=1"}, Races: true}}
		},
		Assumptions: []string{
			"the Go race detector reports only races between accesses that both executed in these runs; a clean log is 'no race among the accesses that occurred', nothing more",
			"observers in this mode are goroutine-local (reader-side and writer-side logs with separate locks, no logical clock), delay decisions come from the runtime's per-thread random source: the monitor adds no synchronisation between a connection's goroutines",
			"reports whose two stacks both end in harness code are harness bugs and fail the run as broken, not as a violation",
		},
	}, map[string]Worker{"suites": c18Worker})
}

func c18Worker(c *core.Collector, x *Ctx) {
	c.Rule = "repetition R (batch) runs, in one race-instrumented process with delay injection: C06 conversations (16 connections incl. sub-packaged requests), C09 equal-length pipelines with kept messages, C05 socket transfers, C11 registry histories, C12 command scenarios (all terminal scripts), C13 disconnect grid sample. " +
		"evaluation = one scenario / connection driven; distinct = (suite, batch, index); verdict = DATA RACE blocks in the race log"
	if !raceEnabled {
		c.Note("error", "binary built without -race")
		return
	}
	c.Count("race_detector_enabled", 1)
	svc.RaceMode = true
	seed := c.Seed*1000 + uint64(x.Batch) + 700000
	svc.InstallYield(seed)
	startProbe()
	alarms := c.Counter("scenario_oracle_alarms_not_judged_here")
	sub := core.NewCollector("C18", "sub", c.Tier, c.Seed)
	var wg sync.WaitGroup
	run := func(name string, f func()) {
		wg.Add(1)
		go func() {
			defer wg.Done()
			f()
			c.Count("suite_"+name, 1)
		}()
	}
	run("c06", func() { c06Suite(sub, c.Seed+uint64(x.Batch)*7, 50+x.Batch, c.N(12, 24), c.N(150, 600), 0) })
	run("c09", func() { c09Suite(sub, c.Seed+uint64(x.Batch)*7, 60+x.Batch, c.N(6, 12), c.N(150, 600)) })
	run("c05", func() { c05Suite(sub, c.Seed+uint64(x.Batch)*7, 70+x.Batch, c.N(6, 12), c.N(30, 120)) })
	run("latejoin", func() { c18LateJoin(c, c.Seed+uint64(x.Batch)*7, 80+x.Batch, c.N(40, 160)) })
	if x.Batch == 0 {
		// re-request rounds in real time: a transfer stalls after packet 1 while the terminal keeps talking; the server asks for
		// the missing packets every 5 s — two rounds (thorough: four) with nothing filled in between, heartbeats every 400 ms
		run("reissue-rounds", func() {
			srvR, err := svc.Start(func() service.TerminalEventer { return svc.NewRecorder() })
			if err != nil {
				return
			}
			var rw sync.WaitGroup
			for k := 0; k < 4; k++ {
				rw.Add(1)
				go func(k int) {
					defer rw.Done()
					t, err := svc.Dial(srvR.Addr, k%2 == 1, fmt.Sprintf("%d", 8800000+k))
					if err != nil {
						return
					}
					defer t.Close()
					go func() {
						for range t.Rx {
						}
					}()
					t.Write(t.Frame(0x0002, 1, nil))
					t.Write(t.SubFrame(0x0801, 10, 4, 1, make([]byte, 40)))
					t.Write(t.SubFrame(0x0704, 20, 3, 1, make([]byte, 40)))
					end := time.Now().Add(time.Duration(c.N(17, 28)) * time.Second)
					// two terminals talk every 400 ms, two only every 5.4 s (one frame per round: with nothing else on the socket in
					// between, nothing orders the writer's last look at a message before the reader's next one)
					gap := 400 * time.Millisecond
					if k >= 2 {
						gap = 5400 * time.Millisecond
					}
					for serial := uint16(100); time.Now().Before(end); serial++ {
						time.Sleep(gap)
						if k == 3 {
							t.Write(t.Frame(0x0001, serial, []byte{0, 0, 0, 2, 0}))
						} else {
							t.Write(t.Frame(0x0002, serial, nil))
						}
					}
					c.Count("terminals_with_repeated_re_request_rounds", 1)
				}(k)
			}
			rw.Wait()
		})
	}
	wg.Wait()
	// command / registry / disconnect scenarios share one server
	srv, err := svc.Start(func() service.TerminalEventer { return svc.NewRecorder() })
	if err != nil {
		c.Inconclusive()
		return
	}
	r := core.NewRand(c.Seed, "c18", uint64(x.Batch))
	sem := make(chan struct{}, 6)
	n12, n13, n11 := c.N(40, 160), c.N(60, 240), c.N(20, 80)
	for i := 0; i < n12; i++ {
		wg.Add(1)
		sem <- struct{}{}
		go func(i int) {
			defer wg.Done()
			defer func() { <-sem }()
			sc := c12Scenario{Script: c12Scripts[i%len(c12Scripts)], Terms: 1 + i%3, Callers: 1 + i%6, TimeoutMs: []int{30, 60, 120}[i%3], Base: 6000000 + x.Batch*100000 + i*10, Traffic: i%3 != 0}
			viol, _, _, calls := c12Run(srv, sc, core.NewRand(c.Seed, "c18-12", uint64(x.Batch*1000+i)))
			alarms.Add(int64(len(viol)))
			c.Evals(1)
			c.Count("commands_sent", int64(len(calls)))
			c.NonTrivial(core.HashString(fmt.Sprintf("c12/%d/%d", x.Batch, i)))
		}(i)
	}
	wg.Wait()
	var grid []c13Scenario
	for _, p := range c13Points {
		for k := 0; k <= 4; k++ {
			readN := 0
			if p == "after-reading-some-commands" || p == "after-responding-to-some" {
				if k == 0 {
					continue
				}
				readN = 1 + r.Intn(k)
			}
			grid = append(grid, c13Scenario{Point: p, K: k, ReadN: readN, TimeoutMs: []int{20, 100}[k%2], RST: k%2 == 0})
		}
	}
	for i := 0; i < n13; i++ {
		wg.Add(1)
		sem <- struct{}{}
		go func(i int) {
			defer wg.Done()
			defer func() { <-sem }()
			sc := grid[(i+x.Batch*17)%len(grid)]
			sc.Key = fmt.Sprintf("%d", 7000000+x.Batch*100000+i)
			viol, _, _, res := c13Run(srv, sc, core.NewRand(c.Seed, "c18-13", uint64(x.Batch*1000+i)))
			alarms.Add(int64(len(viol)))
			c.Evals(1)
			c.Count("disconnect_scenarios", 1)
			c.Count("calls_during_disconnects", int64(len(res)))
			c.NonTrivial(core.HashString(fmt.Sprintf("c13/%d/%d", x.Batch, i)))
		}(i)
	}
	wg.Wait()
	for h := 0; h < n11; h++ {
		wg.Add(1)
		sem <- struct{}{}
		go func(h int) {
			defer wg.Done()
			defer func() { <-sem }()
			_, _, _, nops := c11History(srv, c, c.Seed, 900000+x.Batch*1000+h, 8000000+x.Batch*100000+h*10, false)
			c.Evals(1)
			c.Count("registry_histories", 1)
			c.Count("registry_operations", int64(nops))
			c.NonTrivial(core.HashString(fmt.Sprintf("c11/%d/%d", x.Batch, h)))
		}(h)
	}
	wg.Wait()
	rep := sub.Report()
	c.Evals(rep.Evaluations)
	for k, v := range rep.Counters {
		c.Count(k, v)
	}
	alarms.Add(int64(len(rep.Violations)))
	c.Sample(map[string]any{"batch": x.Batch, "suites": []string{"c06", "c09", "c05", "c12", "c13", "c11"}, "conversation_requests": rep.Evaluations, "command_scenarios": n12, "disconnect_scenarios": n13, "registry_histories": n11})
	c.Floor("race_detector_enabled", 1)
	c.Floor("replies_checked", 500)
	c.Floor("commands_sent", 50)
	c.Floor("disconnect_scenarios", 30)
}

// c18LateJoin: a server whose key function refuses the first messages of a connection (a terminal is only admitted once it has
// authenticated, say): replies are written before the connection has joined and the join is attempted again with every message.
// Clients pipeline a handful of messages and reset at a random moment, so that write failures, the late join and the teardown
// overlap. Race-instrumented like everything else in this part; nothing is judged here but the race log.
func c18LateJoin(c *core.Collector, seed uint64, base int, conns int) {
	srv, err := svc.Start(func() service.TerminalEventer { return svc.NewRecorder() }, service.WithKeyFunc(func(m *service.Message) (string, bool) {
		h := m.JTMessage.Header
		return h.TerminalPhoneNo, h.SerialNumber >= 4 // the first messages (serials 0..3) do not admit the terminal
	}))
	if err != nil {
		c.Inconclusive()
		return
	}
	var wg sync.WaitGroup
	sem := make(chan struct{}, 8)
	for i := 0; i < conns; i++ {
		wg.Add(1)
		sem <- struct{}{}
		go func(i int) {
			defer wg.Done()
			defer func() { <-sem }()
			r := core.NewRand(seed, "c18late", uint64(base*1000+i))
			t, err := svc.Dial(srv.Addr, r.Bool(), fmt.Sprintf("%d", 8800000+base*1000+i))
			if err != nil {
				return
			}
			n := 5 + r.Intn(6)
			for k := 0; k < n; k++ {
				t.Write(t.Frame(core.Pick(r, []uint16{0x0002, 0x0200}), uint16(k), c04Body(r, 2, 28)))
				if r.Chance(1, 3) {
					time.Sleep(time.Duration(r.Intn(300)) * time.Microsecond)
				}
			}
			switch r.Intn(3) {
			case 0:
				t.Reset()
			case 1:
				time.Sleep(time.Duration(r.Intn(2000)) * time.Microsecond)
				t.Reset()
			default:
				for k := 0; k < n; k++ {
					if _, ok, to := t.Next(2 * time.Second); to || !ok {
						break
					}
				}
				t.Close()
			}
			c.Evals(1)
			c.Count("late_join_connections", 1)
			c.NonTrivial(core.HashString(fmt.Sprintf("latejoin/%d/%d", base, i)))
		}(i)
	}
	wg.Wait()
}
