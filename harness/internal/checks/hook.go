package checks

import (
	"bytes"
	"fmt"
	"os"
	"sort"
	"time"

	"github.com/cuteLittleDevil/go-jt808/service"

	"verif/harness/internal/core"
	"verif/harness/internal/ref"
	"verif/harness/internal/svc"
)

// Shared runner for the checks that drive the real stream parser through the build-tag hook
// service.VerifParser (C04, C05, C09 monitor 1, C14): a scenario is a list of frames, a partition of their
// concatenation into reads, and virtual-time steps between reads. The reference models R-stream and
// R-reasm predict, per read, what the parser must return.

type hookOp struct {
	Feed  string `json:"feed,omitempty"` // hex of one read (<= 1023 bytes)
	AgeMs int64  `json:"age_ms,omitempty"`
}

type hookScenario struct {
	Kind   string   `json:"kind"`
	Gen    string   `json:"gen"`
	Frames []string `json:"frames"` // hex; the concatenation of all feeds equals the concatenation of the frames
	Ops    []hookOp `json:"ops"`
}

type hookFinding struct {
	Cat  string // stream | reasm | stable | timer | crash
	What string
}

func hookSplit(seg []byte) [][]byte {
	var out [][]byte
	for len(seg) > 1023 {
		out = append(out, seg[:1023])
		seg = seg[1023:]
	}
	if len(seg) > 0 {
		out = append(out, seg)
	}
	return out
}

// opsFromCuts turns cut positions into feed ops (segments longer than the 1023-byte read buffer are split).
func opsFromCuts(stream []byte, cuts []int) []hookOp {
	var ops []hookOp
	prev := 0
	add := func(to int) {
		if to > prev {
			for _, s := range hookSplit(stream[prev:to]) {
				ops = append(ops, hookOp{Feed: core.Hex(s)})
			}
			prev = to
		}
	}
	sort.Ints(cuts)
	for _, c := range cuts {
		if c > 0 && c < len(stream) {
			add(c)
		}
	}
	add(len(stream))
	return ops
}

// hookRun executes a scenario against the real parser and the reference models.
// slow=true when the real time spent exceeded the margin that virtual-time verdicts rely on (inconclusive).
func hookRun(sc *hookScenario) (finds []hookFinding, undefined bool, slow bool) {
	add := func(cat, what string) { finds = append(finds, hookFinding{cat, what}) }
	var frames []*ref.Frame
	var raws [][]byte
	for _, h := range sc.Frames {
		b := core.UnHex(h)
		f, ok := ref.Validate(b)
		if !ok {
			add("harness", "scenario frame invalid")
			return
		}
		frames = append(frames, f)
		raws = append(raws, b)
	}
	ends := ref.FrameEnds(raws)
	t0 := time.Now()
	vp := service.NewVerifParser()
	model := ref.NewReasm()
	type liveSnap struct {
		snap service.VerifMsg
		at   int
		hdr  string // every string / byte-slice field of the header (unexported ones included) when the message was returned
	}
	var snaps []liveSnap
	off := 0
	next := 0 // next frame index not yet closed
	checkStable := func(when string) {
		for i := range snaps {
			now := vp.Snap(i)
			s := snaps[i].snap
			switch {
			case !bytes.Equal(now.Body, s.Body):
				add("stable", "body of a delivered message changed "+when)
			case !bytes.Equal(now.Raw, s.Raw):
				add("stable", "raw frame bytes of a delivered message changed "+when)
			case now.ID != s.ID || now.Serial != s.Serial || now.Sum != s.Sum || now.No != s.No:
				add("stable", "ID/serial/package numbers of a delivered message changed "+when)
			case now.Phone != s.Phone:
				add("stable", "phone number of a delivered message changed "+when)
			case svc.DumpBytesAndStrings(vp.LiveMessage(i).JTMessage.Header) != snaps[i].hdr:
				add("stable", "header bytes (BCD phone field) of a delivered message changed "+when)
			}
			if len(finds) > 0 && finds[len(finds)-1].Cat == "stable" {
				return
			}
		}
	}
	nreads := 0
	for _, op := range sc.Ops {
		if op.AgeMs != 0 {
			vp.Age(time.Duration(op.AgeMs) * time.Millisecond)
			model.Now += op.AgeMs
			continue
		}
		chunk := core.UnHex(op.Feed)
		msgs, err := vp.Feed(chunk)
		for _, m := range msgs {
			idx := len(snaps)
			snaps = append(snaps, liveSnap{snap: m, hdr: svc.DumpBytesAndStrings(vp.LiveMessage(idx).JTMessage.Header)})
		}
		off += len(chunk)
		if err != nil {
			add("stream", "parser returned an error on a valid stream: "+core.NormPanic(err.Error()))
			return
		}
		// frames closed by this feed
		var closed []int
		for next < len(frames) && ends[next] < off {
			closed = append(closed, next)
			next++
		}
		// model
		model.Expire()
		var wantDone []*ref.Delivered
		for _, fi := range closed {
			f := frames[fi]
			if f.Fragmented {
				d, undef := model.Packet(f)
				if undef {
					return nil, true, false
				}
				if d != nil {
					wantDone = append(wantDone, d)
				}
			}
		}
		wantRR := model.Tick()
		// split what the parser returned
		var gotRaw, gotDone, gotRR []service.VerifMsg
		for _, m := range msgs {
			switch {
			case m.Complete:
				gotDone = append(gotDone, m)
			case m.ID == 0x8003 && m.Sum == 0 && !isScenarioFrame(m, frames, closed):
				gotRR = append(gotRR, m)
			default:
				gotRaw = append(gotRaw, m)
			}
		}
		// --- stream oracle: exactly the frames whose closing delimiter arrived, in order, with their content
		if len(gotRaw) != len(closed) {
			add("stream", fmt.Sprintf("read ending at offset %d extracted %d frame messages, %d frames were closed by it", off, len(gotRaw), len(closed)))
		} else {
			for i, fi := range closed {
				f, m := frames[fi], gotRaw[i]
				switch {
				case m.ID != f.ID:
					add("stream", "message ID differs from the frame")
				case m.Serial != f.Serial:
					add("stream", "serial differs from the frame")
				case m.Phone != f.Phone:
					add("stream", "phone differs from the frame")
				case f.Fragmented && (m.Sum != f.Sum || m.No != f.No):
					add("stream", "package total/number differs from the frame")
				case !f.Fragmented && !bytes.Equal(m.Body, f.Body):
					add("stream", "body differs from the frame")
				case !bytes.Equal(m.Raw, raws[fi]):
					add("stream", "raw frame bytes differ from the frame")
				}
			}
		}
		// --- reassembly oracle
		if len(gotDone) != len(wantDone) {
			add("reasm", fmt.Sprintf("%d complete message(s) delivered by this read, reference reassembly says %d", len(gotDone), len(wantDone)))
		} else {
			for i := range wantDone {
				if gotDone[i].ID != wantDone[i].ID {
					add("reasm", "complete message has the wrong message ID")
				} else if !bytes.Equal(gotDone[i].Body, wantDone[i].Body) {
					add("reasm", "complete message body is not the concatenation of the packet bodies in package order")
				}
			}
		}
		// --- timer oracle
		if len(gotRR) != len(wantRR) {
			add("timer", fmt.Sprintf("%d re-request(s) produced by this read, reference timer rules say %d", len(gotRR), len(wantRR)))
		} else {
			used := make([]bool, len(gotRR))
			for _, w := range wantRR {
				want := []byte{byte(w.FirstSerial >> 8), byte(w.FirstSerial), byte(len(w.Missing))}
				for _, k := range w.Missing {
					want = append(want, byte(k>>8), byte(k))
				}
				ok := false
				for i, g := range gotRR {
					if !used[i] && bytes.Equal(g.Body, want) {
						used[i], ok = true, true
						// the re-request is addressed like the transfer's first packet
						for _, f := range frames {
							if f.Fragmented && f.ID == w.ID && f.No == 1 {
								wantVer := 2
								if f.V2019 {
									wantVer = 3
								}
								if g.Phone != f.Phone || g.Version != wantVer {
									add("timer", "re-request is not addressed with the phone / version of the transfer's first packet")
								}
								break
							}
						}
						break
					}
				}
				if !ok {
					add("timer", "re-request body is not (first packet's serial, count, ascending missing numbers)")
				}
			}
		}
		// (with hundreds of delivered messages the re-check after EVERY read is quadratic: every 32nd read then)
		if nreads++; len(snaps) <= 64 || nreads%32 == 0 {
			checkStable("after a later read")
		}
	}
	vp.Clear()
	checkStable("after the connection ended")
	el := time.Since(t0)
	slow = el > 250*time.Millisecond
	if os.Getenv("VERIF_DEBUG") != "" && slow {
		fmt.Fprintf(os.Stderr, "hook slow %v %s finds=%v\n", el, sc.Gen, finds)
	}
	return
}

// a terminal-sent 0x8003 frame in the scenario is a raw frame, not a re-request generated by the parser
func isScenarioFrame(m service.VerifMsg, frames []*ref.Frame, closed []int) bool {
	for _, fi := range closed {
		if frames[fi].ID == 0x8003 && bytes.Equal(frames[fi].Body, m.Body) && frames[fi].Serial == m.Serial {
			return true
		}
	}
	return false
}

// hookEval runs a scenario for a property that owns the given oracle categories.
func hookEval(c *core.Collector, sc *hookScenario, cats map[string]bool, nontrivial bool) {
	c.Eval()
	var finds []hookFinding
	var undef, slow bool
	if guard(c, func() any { return sc }, func() { finds, undef, slow = hookRun(sc) }) {
		return
	}
	if undef {
		c.Count("scenarios_outside_property", 1)
		return
	}
	if slow && len(sc.Ops) > 0 && hasAge(sc) {
		// real time leaked into a virtual-time scenario: retry once, otherwise inconclusive
		t1 := time.Now()
		finds, undef, slow = hookRun(sc)
		if slow {
			c.Count("virtual_time_scenarios_too_slow_ms_total", time.Since(t1).Milliseconds())
			c.Inconclusive()
			return
		}
	}
	if nontrivial {
		h := core.HashString(sc.Gen)
		for _, o := range sc.Ops {
			h = h*1099511628211 ^ core.HashString(o.Feed) ^ uint64(o.AgeMs)
		}
		c.NonTrivial(h)
	}
	for _, f := range finds {
		if f.Cat == "harness" {
			panic("harness: " + f.What)
		}
		if cats[f.Cat] {
			c.Violate(f.Cat+"|"+f.What, f.What+" (scenario class "+sc.Gen+")", sc)
			return
		}
	}
}

func hasAge(sc *hookScenario) bool {
	for _, o := range sc.Ops {
		if o.AgeMs != 0 {
			return true
		}
	}
	return false
}

func init() {
	replayers["hook"] = func(w map[string]any) string {
		var sc hookScenario
		remarshal(w, &sc)
		finds, undef, _ := hookRun(&sc)
		if undef || len(finds) == 0 {
			return ""
		}
		return finds[0].Cat + "|" + finds[0].What
	}
}

var hookBCD13 = []byte{0x01, 0x38, 0x00, 0x00, 0x11, 0x11}
var hookBCD19 = []byte{0, 0, 0, 0, 0x01, 0x38, 0x00, 0x00, 0x11, 0x11}

func hookFrame(v2019 bool, id, serial uint16, frag bool, sum, no uint16, body []byte) []byte {
	bcd := hookBCD13
	if v2019 {
		bcd = hookBCD19
	}
	return ref.Build(ref.Params{ID: id, V2019: v2019, VersionByt: 1, BCD: bcd, Serial: serial, Fragmented: frag, Sum: sum, No: no, Body: body})
}

// attrFrame builds a valid unfragmented frame whose property word also has some of the bits 10..12 (encryption) and 15
// (reserved) set: attrBits is OR-ed into the high byte of the word (0x04 = bit 10, 0x08 = bit 11, 0x10 = bit 12, 0x80 = bit 15).
func attrFrame(v2019 bool, bcd []byte, id, serial uint16, body []byte, attrBits byte) []byte {
	p := ref.Payload(ref.Params{ID: id, V2019: v2019, VersionByt: 1, BCD: bcd, Serial: serial, Body: body})
	p[2] |= attrBits & 0x9c
	return ref.Escape(c02Fix(p))
}

func hookFrameV(v2019 bool, id, serial uint16, frag bool, sum, no uint16, body []byte) []byte {
	return hookFrame(v2019, id, serial, frag, sum, no, body)
}

func hexAll(bs [][]byte) []string {
	out := make([]string, len(bs))
	for i, b := range bs {
		out[i] = core.Hex(b)
	}
	return out
}

// hookModelNear replays only the reference model and reports whether any read of the scenario happens while
// an open transfer is within eps ms of the 5 s / 60 s thresholds.
func hookModelNear(sc *hookScenario, eps int64) bool {
	var frames []*ref.Frame
	var raws [][]byte
	for _, h := range sc.Frames {
		b := core.UnHex(h)
		f, ok := ref.Validate(b)
		if !ok {
			return true
		}
		frames = append(frames, f)
		raws = append(raws, b)
	}
	ends := ref.FrameEnds(raws)
	model := ref.NewReasm()
	off, next := 0, 0
	for _, op := range sc.Ops {
		if op.AgeMs != 0 {
			model.Now += op.AgeMs
			continue
		}
		off += len(op.Feed) / 2
		if model.NearThreshold(eps) {
			return true
		}
		model.Expire()
		for next < len(frames) && ends[next] < off {
			if frames[next].Fragmented {
				if _, undef := model.Packet(frames[next]); undef {
					return true
				}
			}
			next++
		}
		model.Tick()
	}
	return false
}
