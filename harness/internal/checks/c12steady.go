package checks

import (
	"encoding/binary"
	"fmt"
	"sync"
	"sync/atomic"
	"time"

	"github.com/cuteLittleDevil/go-jt808/service"
	"github.com/cuteLittleDevil/go-jt808/shared/consts"

	"verif/harness/internal/core"
	"verif/harness/internal/svc"
)

// C12, part steady-traffic: a healthy terminal that talks all the time. For twelve seconds (longer than any write deadline
// the server arms) it sends a heartbeat every 250 ms, reads everything at once and answers every command immediately; the
// platform sends it a command every 1.5 s with a 5 s timeout. Every caller must get its own response: anything that the
// server keeps per connection across writes (deadlines, buffers, counters) is exercised by traffic that never pauses.
// (seed C12s1: a write deadline that is re-armed only after a pause in the traffic.)
func c12Steady(c *core.Collector, x *Ctx) {
	c.Rule = "two terminals (2013 / 2019 header) x 12 s of uninterrupted traffic: heartbeat every 250 ms, every reply read at once, a command every 1.5 s (timeout 5 s) answered immediately with a general response that carries a per-command result byte. " +
		"oracle: every call returns the response the terminal wrote for the serial that carried it; every heartbeat is answered; the server never closes the connection. evaluation = one call or one heartbeat"
	startProbe()
	srv, err := svc.Start(func() service.TerminalEventer { return svc.NewRecorder() })
	if err != nil {
		c.Inconclusive()
		return
	}
	var wg sync.WaitGroup
	var anySlow atomic.Bool
	wg.Add(1)
	go func() {
		defer wg.Done()
		c12MixedTimeouts(c, srv)
	}()
	for ti := 0; ti < 2; ti++ {
		wg.Add(1)
		go func(ti int) {
			defer wg.Done()
			phone := fmt.Sprintf("1955%03d%02d", c.Seed%1000, ti)
			t, err := svc.Dial(srv.Addr, ti == 1, phone)
			if err != nil {
				c.Inconclusive()
				return
			}
			defer t.Close()
			write := func(b []byte) error {
				t.Conn.SetWriteDeadline(time.Now().Add(20 * time.Second))
				return t.Write(b)
			}
			var mu sync.Mutex
			hbAnswered := map[uint16]bool{}
			answered := map[uint16]byte{} // platform serial -> result byte the terminal wrote
			var tserial uint16 = 30000
			closed := make(chan struct{})
			// reader: answers commands, notes heartbeat acknowledgements
			go func() {
				defer close(closed)
				for {
					rx, ok, to := t.Next(30 * time.Second)
					if to || !ok {
						return
					}
					if rx.F == nil {
						continue
					}
					switch rx.F.ID {
					case 0x8001:
						if len(rx.F.Body) >= 5 && binary.BigEndian.Uint16(rx.F.Body[2:]) == 0x0002 {
							mu.Lock()
							hbAnswered[binary.BigEndian.Uint16(rx.F.Body)] = true
							mu.Unlock()
						}
					case 0x8103:
						res := byte(rx.F.Serial*7 + 3)
						body := make([]byte, 5)
						binary.BigEndian.PutUint16(body, rx.F.Serial)
						binary.BigEndian.PutUint16(body[2:], 0x8103)
						body[4] = res
						mu.Lock()
						answered[rx.F.Serial] = res
						tserial++
						s := tserial
						mu.Unlock()
						write(t.Frame(0x0001, s, body))
					}
				}
			}()
			// join
			if write(t.Frame(0x0002, 0, nil)) != nil {
				c.Inconclusive()
				return
			}
			time.Sleep(200 * time.Millisecond)
			start := time.Now()
			// platform: a command every 1.5 s
			var cwg sync.WaitGroup
			type result struct {
				k   int
				msg *service.Message
				dur time.Duration
			}
			var results []result
			stopCmd := make(chan struct{})
			cwg.Add(1)
			go func() {
				defer cwg.Done()
				for k := 0; ; k++ {
					select {
					case <-stopCmd:
						return
					case <-time.After(1500 * time.Millisecond):
					}
					cwg.Add(1)
					go func(k int) {
						defer cwg.Done()
						t0 := time.Now()
						m := srv.G.SendActiveMessage(service.NewActiveMessage(t.Phone, consts.P8103SetTerminalParams, []byte{0}, 5*time.Second))
						mu.Lock()
						results = append(results, result{k, m, time.Since(t0)})
						mu.Unlock()
					}(k)
				}
			}()
			// terminal: heartbeat every 250 ms for 12 s
			sent := 0
			serverClosed := false
			for hs := uint16(1); time.Since(start) < 12*time.Second; hs++ {
				if err := write(t.Frame(0x0002, hs, nil)); err != nil {
					serverClosed = true
					break
				}
				sent++
				select {
				case <-closed:
					serverClosed = true
				case <-time.After(250 * time.Millisecond):
				}
				if serverClosed {
					break
				}
			}
			elapsed := time.Since(start)
			close(stopCmd)
			cwg.Wait()
			time.Sleep(300 * time.Millisecond)
			mu.Lock()
			defer mu.Unlock()
			c.Count("steady_heartbeats_sent", int64(sent))
			c.Count("steady_heartbeats_answered", int64(len(hbAnswered)))
			c.Count("steady_commands", int64(len(results)))
			c.Evals(int64(sent + len(results)))
			c.NonTrivial(core.HashString(fmt.Sprintf("steady/%d/%d/%d", ti, sent, len(results))))
			wit := map[string]any{"terminal": t.Phone, "v2019": ti == 1, "heartbeats_sent": sent, "answered": len(hbAnswered), "elapsed_ms": elapsed.Milliseconds()}
			if serverClosed {
				// the peer read everything at once and never stopped writing: the server has no reason to close
				c.Violate("steady|the server closed the connection of a terminal with uninterrupted, healthy traffic",
					fmt.Sprintf("terminal %s: closed %v after the first heartbeat, %d heartbeats sent, %d answered, %d commands returned", t.Phone, elapsed, sent, len(hbAnswered), len(results)), wit)
				return
			}
			slow := sent < 30 // fewer than 30 of the ~48 heartbeats went out: the machine is too loaded for a verdict on time
			for _, r := range results {
				m := r.msg
				switch {
				case m == nil:
					c.Violate("steady|no result", "", wit)
				case m.ExtensionFields.Err != nil:
					if slow || r.dur < 4*time.Second {
						// (an early error: connection gone — reported above — or a loaded machine)
						c.Inconclusive()
						continue
					}
					if _, ok := answered[m.ExtensionFields.PlatformSeq]; ok {
						c.Violate("steady|a command answered at once by a terminal with uninterrupted traffic ended with an error",
							fmt.Sprintf("terminal %s command %d: %v after %v; the terminal answered serial %d", t.Phone, r.k, m.ExtensionFields.Err, r.dur, m.ExtensionFields.PlatformSeq), wit)
					} else {
						c.Violate("steady|a command to a terminal with uninterrupted traffic never reached it",
							fmt.Sprintf("terminal %s command %d: %v after %v", t.Phone, r.k, m.ExtensionFields.Err, r.dur), wit)
					}
				default:
					want, ok := answered[m.ExtensionFields.PlatformSeq]
					b := m.JTMessage.Body
					if !ok || len(b) < 5 || binary.BigEndian.Uint16(b) != m.ExtensionFields.PlatformSeq || b[4] != want {
						c.Violate("steady|caller received a response the terminal did not write for its command",
							fmt.Sprintf("terminal %s command %d: platform serial %d, body %x, terminal wrote result %d (known %v)", t.Phone, r.k, m.ExtensionFields.PlatformSeq, b, want, ok), wit)
					} else {
						c.Count("steady_commands_matched", 1)
					}
				}
			}
			if !slow && len(hbAnswered) < sent-2 {
				c.Violate("steady|heartbeats of a terminal with uninterrupted traffic went unanswered",
					fmt.Sprintf("terminal %s: %d sent, %d answered", t.Phone, sent, len(hbAnswered)), wit)
			}
			if slow {
				anySlow.Store(true)
				c.Inconclusive()
			}
		}(ti)
	}
	wg.Wait()
	if !anySlow.Load() {
		c.Floor("steady_commands_matched", 6)
	}
}

// c12MixedTimeouts: two commands outstanding on ONE terminal with different durations, the later one with the shorter one. Each
// call's timeout is its own: the later, short command (never answered) returns a timeout after its own duration although the
// earlier command — without a timeout, or with 30 s — is still waiting. The terminal answers the earlier command only after
// the short one's verdict. Time is used in the sound direction only: "had not returned its duration + slack after it was sent".
// (seed C12w1: one timer per connection, armed only when the first command becomes outstanding.)
func c12MixedTimeouts(c *core.Collector, srv *svc.Server) {
	for variant, longD := range []time.Duration{-1, 30 * time.Second} {
		c.Eval()
		phone := fmt.Sprintf("1956%03d%02d", c.Seed%1000, variant)
		t, err := svc.Dial(srv.Addr, variant == 1, phone)
		if err != nil {
			c.Inconclusive()
			return
		}
		t.Write(t.Frame(0x0002, 1, nil))
		if rx, ok, to := t.Next(20 * time.Second); to || !ok || rx.F == nil {
			c.Inconclusive()
			t.Close()
			return
		}
		cmds := make(chan uint16, 8) // platform serials of command frames, in the order they reached the terminal
		go func() {
			for {
				rx, ok, to := t.Next(60 * time.Second)
				if to || !ok {
					close(cmds)
					return
				}
				if rx.F != nil && rx.F.ID == 0x8104 {
					cmds <- rx.F.Serial
				}
			}
		}()
		aCh := make(chan cmdResult, 1)
		go func() {
			aCh <- sendCmd(srv.G, phone, consts.P8104QueryTerminalParams, nil, longD, 60*time.Second)
		}()
		aSerial, okA := <-cmds // A is on the wire
		if !okA {
			c.Inconclusive()
			t.Close()
			return
		}
		shortD := 200 * time.Millisecond
		b := sendCmd(srv.G, phone, consts.P8104QueryTerminalParams, nil, shortD, shortD+slackFor(shortD))
		switch {
		case b.kind == "stranded":
			c.Violate("timeout|a command's timeout did not fire after its own duration while an earlier command with a longer duration was outstanding",
				fmt.Sprintf("terminal %s: command A (duration %v) outstanding; command B (duration %v, never answered) had no result %v after it was sent", phone, longD, shortD, b.dur.Round(time.Millisecond)), map[string]any{"kind": "c12mixed", "variant": variant})
		case b.kind != "timeout":
			c.Violate("match|an unanswered command returned something other than a timeout", fmt.Sprintf("terminal %s: %s", phone, b.kind), map[string]any{"kind": "c12mixed", "variant": variant})
		default:
			c.Count("short_timeouts_that_fired_while_a_longer_command_was_outstanding", 1)
		}
		// now the terminal answers A: its caller gets that response
		t.Write(t.Frame(0x0104, 2, []byte{byte(aSerial >> 8), byte(aSerial), 0}))
		select {
		case a := <-aCh:
			if a.kind != "response" {
				c.Violate("match|the earlier command did not get its response after a later command had timed out", fmt.Sprintf("terminal %s: A (duration %v) -> %s", phone, longD, a.kind), map[string]any{"kind": "c12mixed", "variant": variant})
			}
		case <-time.After(20 * time.Second):
			c.Inconclusive()
		}
		t.Close()
	}
}
