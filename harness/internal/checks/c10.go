package checks

import (
	"bytes"
	"fmt"
	"net"
	"os"
	"reflect"
	"runtime/metrics"
	"runtime/pprof"
	"strings"
	"sync"
	"sync/atomic"
	"syscall"
	"time"

	"github.com/cuteLittleDevil/go-jt808/attachment"
	"github.com/cuteLittleDevil/go-jt808/protocol/jt808"
	"github.com/cuteLittleDevil/go-jt808/protocol/model"
	"github.com/cuteLittleDevil/go-jt808/service"
	"github.com/cuteLittleDevil/go-jt808/shared/consts"

	"verif/harness/internal/att"
	"verif/harness/internal/core"
	"verif/harness/internal/gen"
	"verif/harness/internal/ref"
	"verif/harness/internal/svc"
)

// C10 — hostile input is contained to its own connection (both servers).
// Fault enumeration in child processes: hostile connections (byte streams x lifecycle faults) are journalled
// (fsync) before they are sent; canary sessions and post-attack probes must keep being served; a dead child is
// attributed by the orchestrator from its panic stack and journal tail.

func init() {
	register(core.Plan{
		Property: "C10", Level: "fault_enumeration",
		Parts: func(tier string) []core.Part {
			n := 2
			if tier == "thorough" {
				n = 24
			}
			return []core.Part{
				{Name: "jt808-default", Bin: "race", Batches: n, Parallel: 4, TimeoutS: 900},
				{Name: "jt808-parsing", Bin: "race", Batches: n, Parallel: 4, TimeoutS: 900},
				{Name: "att-default", Bin: "race", Batches: n, Parallel: 4, TimeoutS: 900},
				{Name: "att-recording", Bin: "race", Batches: n, Parallel: 4, TimeoutS: 900},
				{Name: "parser-games", Bin: "plain", Batches: 1, TimeoutS: 900},
				{Name: "fd-exhaustion", Bin: "plain", Batches: 1, TimeoutS: 600},
				{Name: "stalled-reader", Bin: "plain", Batches: 1, TimeoutS: 600},
			}
		},
		Assumptions: []string{
			"faults are those a TCP client can cause: arbitrary byte streams and connection lifecycles; memory that grows with the bytes a peer actually sends (a huge declared chunk trickled in slowly) is not a crash and is not claimed; memory that grows with a DECLARED length is (see the heap sampler below)",
			"'parsing handlers' = README pattern: every registered ID gets a per-connection handler whose OnReadExecutionEvent calls Parse and String() on its own receiver, 0x0200 with the extension dispatcher",
			"a canary / probe that gets no answer within its wall-clock watchdog while the process is alive is inconclusive; a dead process or a wrong answer is a violation",
			"memory: this sandbox has no memory limit, so an allocation sized by a hostile length field would not kill the process here; a 1 ms heap sampler stands in for the OOM killer: live-heap growth of more than 1 GiB over the baseline while hostile connections send a few KiB each is a violation, recorded by the child, which then exits at once (the unchanged servers allocate by bytes received only)",
		},
	}, map[string]Worker{
		"stalled-reader": c10Stalled,
		"jt808-default":  func(c *core.Collector, x *Ctx) { c10JT808(c, x, false) },
		"jt808-parsing":  func(c *core.Collector, x *Ctx) { c10JT808(c, x, true) },
		"att-default":    func(c *core.Collector, x *Ctx) { c10Att(c, x, true) },
		"att-recording":  func(c *core.Collector, x *Ctx) { c10Att(c, x, false) },
		"parser-games":   c10Games,
		"fd-exhaustion":  c10FD,
	})
}

// ---- README-style parsing handlers ---------------------------------------------------------

// The handler embeds one model object for the interface methods the writer goroutine calls (ReplyBody ...), and parses
// into a SEPARATE per-connection receiver in OnReadExecutionEvent (reader goroutine) — like the README's example, which
// parses into its own variable; sharing one receiver between the two goroutines would be the handler's own data race.
type c10Handler struct {
	service.JT808Handler
	recv interface {
		Parse(*jt808.JTMessage) error
	}
}

func (h *c10Handler) OnReadExecutionEvent(m *service.Message) {
	if err := h.recv.Parse(m.JTMessage); err == nil {
		if s, ok := h.recv.(fmt.Stringer); ok {
			_ = s.String()
		}
	}
}
func (h *c10Handler) OnWriteExecutionEvent(_ service.Message) {}

type c10Loc struct {
	model.T0x0200
	e64 model.T0x0200AdditionExtension0x64
	e65 model.T0x0200AdditionExtension0x65
	e66 model.T0x0200AdditionExtension0x66
	e67 model.T0x0200AdditionExtension0x67
	e70 model.T0x0200AdditionExtension0x70
}

func (l *c10Loc) Parse(m *jt808.JTMessage) error {
	l.T0x0200.CustomAdditionContentFunc = func(id uint8, content []byte) (model.AdditionContent, bool) {
		switch id {
		case 0x64:
			return l.e64.Parse(id, content)
		case 0x65:
			return l.e65.Parse(id, content)
		case 0x66:
			return l.e66.Parse(id, content)
		case 0x67:
			return l.e67.Parse(id, content)
		case 0x70:
			return l.e70.Parse(id, content)
		}
		return model.AdditionContent{}, false
	}
	return l.T0x0200.Parse(m)
}

func c10Handlers() map[consts.JT808CommandType]service.Handler {
	mk := func(h service.JT808Handler) service.Handler {
		// a second object of the same type as the reader-side receiver
		t := reflect.TypeOf(h).Elem()
		recv := reflect.New(t).Interface().(interface {
			Parse(*jt808.JTMessage) error
		})
		return &c10Handler{JT808Handler: h, recv: recv}
	}
	return map[consts.JT808CommandType]service.Handler{
		consts.T0001GeneralRespond:               mk(&model.T0x0001{}),
		consts.T0002HeartBeat:                    mk(&model.T0x0002{}),
		consts.T0100Register:                     mk(&model.T0x0100{}),
		consts.T0102RegisterAuth:                 mk(&model.T0x0102{}),
		consts.T0104QueryParameter:               mk(&model.T0x0104{}),
		consts.T0200LocationReport:               mk(&c10Loc{}),
		consts.T0704LocationBatchUpload:          mk(&model.T0x0704{}),
		consts.T0800MultimediaEventInfoUpload:    mk(&model.T0x0800{}),
		consts.T0801MultimediaDataUpload:         mk(&model.T0x0801{}),
		consts.T0805CameraShootImmediately:       mk(&model.T0x0805{}),
		consts.T1003UploadAudioVideoAttr:         mk(&model.T0x1003{}),
		consts.T1005UploadPassengerFlow:          mk(&model.T0x1005{}),
		consts.T1205UploadAudioVideoResourceList: mk(&model.T0x1205{}),
		consts.T1206FileUploadCompleteNotice:     mk(&model.T0x1206{}),
		consts.T1210AlarmAttachInfoMessage:       mk(&model.T0x1210{}),
		consts.T1211FileInfoUpload:               mk(&model.T0x1211{}),
		consts.T1212FileUploadComplete:           mk(&model.T0x1212{}),
		consts.P8003ReissueSubcontractingRequest: mk(&model.P0x8003{}),
		consts.P8103SetTerminalParams:            mk(&model.P0x8103{}),
		consts.P8801CameraShootImmediateCommand:  mk(&model.P0x8801{}),
		consts.P9101RealTimeAudioVideoRequest:    mk(&model.P0x9101{}),
		consts.P9102AudioVideoControl:            mk(&model.P0x9102{}),
		consts.P9205QueryResourceList:            mk(&model.P0x9205{}),
		consts.P9206FileUploadInstructions:       mk(&model.P0x9206{}),
		consts.P9207FileUploadControl:            mk(&model.P0x9207{}),
		consts.P9208AlarmAttachUpload:            mk(&model.P0x9208{}),
	}
}

// ---- hostile generators ----------------------------------------------------------------------

var c10IDs = []uint16{0x0001, 0x0002, 0x0100, 0x0102, 0x0104, 0x0200, 0x0704, 0x0800, 0x0801, 0x0805, 0x1003, 0x1005, 0x1205, 0x1206, 0x1210, 0x1211, 0x1212,
	0x8003, 0x8103, 0x8104, 0x8801, 0x9003, 0x9101, 0x9102, 0x9205, 0x9206, 0x9207, 0x9208, 0x0900, 0x0000, 0xffff}

// c10Bodies: per message ID a pool of valid bodies (from the in-domain generators) to mutate.
func c10Bodies(g gen.G) map[uint16][][]byte {
	pool := map[uint16][][]byte{}
	for k := 0; k < 6; k++ {
		for _, tc := range gen.Cases(g) {
			func() {
				defer func() { recover() }()
				pool[tc.ID] = append(pool[tc.ID], tc.Val.Encode())
			}()
		}
		pool[0x0200] = append(pool[0x0200], g.LocBody(6))
		pool[0x0704] = append(pool[0x0704], g.Batch0704(4))
		if b := pool[0x8103]; len(b) > 0 {
			pool[0x0104] = append(pool[0x0104], append([]byte{g.U8(), g.U8()}, b[len(b)-1]...))
		}
	}
	// parameter lists holding ONE parameter: vendor / active-safety / reserved IDs that no recorded frame carries and the
	// standard IDs around each width class, with value lengths 0..4 and the standard widths (a per-ID decoder without a
	// length guard indexes into what is not there)
	for _, id := range []uint32{0xF364, 0xF365, 0xF366, 0xF367, 0xF368, 0xF370, 0xF000, 0xFFFF, 0x0110, 0x0111, 0x01FF, 0x0032, 0x0084, 0x0001, 0x0013, 0x005D, 0x7FFF, 0x8000, 0xFFFFFFFF, 0x00010001} {
		for _, l := range []int{0, 1, 2, 3, 4, 7, 8, 9} {
			b := []byte{0, byte(id), 1, byte(id >> 24), byte(id >> 16), byte(id >> 8), byte(id), byte(l)}
			b = append(b, g.Bytes(l)...)
			pool[0x0104] = append(pool[0x0104], b)
		}
	}
	return pool
}

func c10Mutate(g gen.G, b []byte) []byte {
	q := append([]byte{}, b...)
	switch g.Intn(7) {
	case 0: // truncate
		if len(q) > 0 {
			q = q[:g.Intn(len(q))]
		}
	case 1: // substitute count/length-like bytes
		for k := g.Intn(3) + 1; k > 0 && len(q) > 0; k-- {
			q[g.Intn(len(q))] = core.Pick(g.Rand, []byte{0, 1, 0x7f, 0x80, 0xfe, 0xff})
		}
	case 2: // hit the first bytes (counts and lengths live there)
		for i := 0; i < len(q) && i < 4; i++ {
			if g.Bool() {
				q[i] = core.Pick(g.Rand, []byte{0, 1, 0xff, 0x80})
			}
		}
	case 3: // extend
		q = append(q, g.Bytes(g.Intn(40))...)
	case 4: // delete a byte in the middle
		if len(q) > 2 {
			i := g.Intn(len(q))
			q = append(q[:i], q[i+1:]...)
		}
	case 5: // hostile additional-info item appended (location-like bodies)
		id := core.Pick(g.Rand, []byte{0x11, 0x31, 0x64, 0x65, 0x66, 0x67, 0x70, 0x05, 0x25, 0x01})
		l := core.Pick(g.Rand, []int{0, 1, 2, 5, 40, 41, 47, 49})
		q = append(q, id, byte(l))
		q = append(q, g.Bytes(l)...)
	}
	if len(q) > 1023 {
		q = q[:1023]
	}
	return q
}

func c10Frame(g gen.G, pool map[uint16][][]byte) []byte {
	id := core.Pick(g.Rand, c10IDs)
	var body []byte
	if bs := pool[id]; len(bs) > 0 && g.Chance(3, 4) {
		body = bs[g.Intn(len(bs))]
		if len(body) > 1023 {
			body = body[:1023]
		}
		if g.Chance(3, 4) {
			body = c10Mutate(g, body)
		}
	} else {
		l := g.Intn(60)
		switch g.Intn(8) {
		case 0:
			l = g.Intn(1024)
		case 1:
			l = 0
		case 2:
			l = 1023
		}
		body = g.Bytes(l)
		for i := range body {
			switch g.Intn(5) {
			case 0:
				body[i] = 0xff
			case 1:
				body[i] = byte(g.Intn(4))
			}
		}
	}
	p := ref.Params{ID: id, V2019: g.Chance(1, 3), VersionByt: g.U8(), Encrypt: g.Chance(1, 10), Serial: g.U16(), Body: body}
	n := 6
	if p.V2019 {
		n = 10
	}
	p.BCD = make([]byte, n)
	p.BCD[n-1] = byte(0x50 + g.Intn(5))
	p.BCD[n-2] = 0x66
	if g.Chance(1, 3) {
		p.Fragmented = true
		p.Sum = core.Pick(g.Rand, []uint16{0, 1, 2, 3, 65535})
		p.No = core.Pick(g.Rand, []uint16{0, 1, 2, 3, 4, 65535})
	}
	payload := ref.Payload(p)
	switch g.Intn(12) {
	case 0: // 2019 bit with the 2013 header length (and vice versa)
		payload[2] ^= 0x40
		payload = c02Fix(payload)
	case 1: // declared length differs from the body
		payload[3] ^= byte(1 + g.Intn(3))
		payload = c02Fix(payload)
	case 2: // fragment bit toggled
		payload[2] ^= 0x20
		payload = c02Fix(payload)
	}
	f := ref.Escape(payload)
	switch g.Intn(14) {
	case 0:
		f[g.Intn(len(f))] = g.U8()
	case 1:
		f = f[:g.Intn(len(f))]
	case 2, 3:
		// broken escape structure BEHIND well-formed escape pairs: the decoder has already produced output for this frame when it
		// meets the mistake (whatever it keeps per frame - a scratch buffer, a pooled object - is part-filled at the error exit)
		if n := len(payload); n > 20 {
			for k := 2 + g.Intn(4); k > 0; k-- {
				payload[13+g.Intn(n-14)] = core.Pick(g.Rand, []byte{0x7e, 0x7d})
			}
			f = ref.Escape(c02Fix(payload))
			last := bytes.LastIndexByte(f[:len(f)-2], 0x7d)
			if last > 0 {
				switch g.Intn(3) {
				case 0:
					f[last+1] = core.Pick(g.Rand, []byte{0x00, 0x03, 0x05, 0x7d, 0xff, 0x10})
				case 1: // a bare 7d: the pair's second byte removed
					f = append(f[:last+1], f[last+2:]...)
				case 2: // the frame ends inside the pair
					f = append(f[:last+1], 0x7e)
				}
			}
		}
	}
	return f
}

type c10Conn struct {
	Writes [][]byte
	Close  string // fin | rst | linger
	PreGap bool
}

func c10Hostile(g gen.G, pool map[uint16][][]byte, attMode bool) c10Conn {
	var cn c10Conn
	cn.Close = core.Pick(g.Rand, []string{"fin", "rst", "fin", "linger"})
	switch g.Intn(11) {
	case 10: // sub-package games on ONE message ID: contradictory totals, numbers beyond an earlier total, repeated packet 1
		id := core.Pick(g.Rand, []uint16{0x0801, 0x0200, 0x0704, 0x0900, 0x0102})
		bcd := []byte{0, 0, 0, 0x44, 0x66, byte(0x50 + g.Intn(5))}
		pairs := [][2]uint16{{2, 1}, {5, 4}, {5, 5}, {1, 1}, {3, 3}, {3, 1}, {2, 3}, {65535, 1}, {65535, 65535}, {4, 1}, {2, 2}, {0, 1}, {1, 0}, {300, 256}, {256, 1}}
		for k := 2 + g.Intn(5); k > 0; k-- {
			pr := pairs[g.Intn(len(pairs))]
			body := g.Bytes(g.Intn(12))
			cn.Writes = append(cn.Writes, ref.Build(ref.Params{ID: id, BCD: bcd, Serial: g.U16(), Fragmented: true, Sum: pr[0], No: pr[1], Body: body}))
		}
		return cn
	case 0: // connect and close
		return cn
	case 1: // random bytes
		b := g.Bytes(1 + g.Intn(300))
		for i := range b {
			if g.Chance(1, 12) {
				b[i] = 0x7e
			}
		}
		cn.Writes = append(cn.Writes, b)
		return cn
	case 2: // one frame cut after k bytes, then close / reset
		f := c10Frame(g, pool)
		if len(f) > 1 {
			cn.Writes = append(cn.Writes, f[:1+g.Intn(len(f)-1)])
		}
		return cn
	}
	k := 1 + g.Intn(6)
	for j := 0; j < k; j++ {
		if attMode && g.Chance(1, 2) {
			cn.Writes = append(cn.Writes, c10AttUnit(g))
		} else {
			cn.Writes = append(cn.Writes, c10Frame(g, pool))
		}
	}
	if g.Chance(1, 3) { // coalesce everything into one write
		cn.Writes = [][]byte{bytes.Join(cn.Writes, nil)}
	}
	return cn
}

// c10AttUnit: attachment control frames and chunk headers with adversarial names / offsets / lengths.
func c10AttUnit(g gen.G) []byte {
	names := [][]byte{[]byte("a.jpg"), []byte("../x"), {0x30, 0x31, 0x63, 0x64}, bytes.Repeat([]byte{0}, 10), bytes.Repeat([]byte("n"), 255), {}, g.Bytes(1 + g.Intn(60))}
	name := names[g.Intn(len(names))]
	bcd := []byte{0, 0, 0, 0, 0x77, byte(g.Intn(4))}
	switch g.Intn(6) {
	case 0, 1: // chunk header
		off := core.Pick(g.Rand, []uint32{0, 1, 0xffffffff, 0x7fffffff, 1 << 20, uint32(g.Intn(5000))})
		ln := core.Pick(g.Rand, []uint32{0, 1, 0xffffffff, 0x80000000, 10, uint32(g.Intn(3000))})
		nm := name
		if len(nm) > 50 {
			nm = nm[:50]
		}
		d := consts.ActiveSafetyJS
		if g.Chance(1, 4) {
			d = consts.ActiveSafetyHLJ
			nm = name
		}
		h := att.ChunkHeader(d, nm, off, ln)
		if g.Chance(1, 3) {
			h = h[:g.Intn(len(h))] // truncated header
		}
		return append(h, g.Bytes(g.Intn(200))...)
	case 2:
		fs := []att.File{{Name: name, Size: core.Pick(g.Rand, []uint32{0, 1, 0xffffffff, 100})}}
		if g.Bool() {
			fs = append(fs, att.File{Name: names[g.Intn(len(names))], Size: g.U32()})
		}
		body := att.Body1210(gen.Dialects[g.Intn(5)], []byte("T"), []byte("al"), fs)
		if g.Chance(1, 3) {
			body = c10Mutate(g, body)
		}
		return ref.Build(ref.Params{ID: 0x1210, BCD: bcd, Serial: g.U16(), Body: body})
	case 3:
		body := att.Body1211(att.File{Name: name, Size: g.U32()}, g.U8())
		if g.Chance(1, 3) {
			body = c10Mutate(g, body)
		}
		return ref.Build(ref.Params{ID: core.Pick(g.Rand, []uint16{0x1211, 0x1212}), BCD: bcd, Serial: g.U16(), Body: body})
	case 4: // a JT808 frame the attachment server does not know
		return ref.Build(ref.Params{ID: core.Pick(g.Rand, []uint16{0x0002, 0x0200, 0x9212, 0x0000}), BCD: bcd, Serial: g.U16(), Body: g.Bytes(g.Intn(30))})
	}
	return append([]byte{0x30, 0x31, 0x63, 0x64}, g.Bytes(g.Intn(80))...)
}

// c10AttHostileSession: a VALID announcement (0x1210 + 0x1211) followed by chunks for the announced file whose
// offsets / lengths are adversarial relative to the announced size — beyond the size, overlapping, zero-length, offset+length
// overflowing — including combinations whose lengths add up to exactly the announced size (so that completion logic runs),
// then optionally 0x1212.
func c10AttHostileSession(g gen.G) c10Conn {
	d := gen.Dialects[g.Intn(5)]
	if g.Chance(2, 3) {
		d = consts.ActiveSafetyJS // the server under attack runs the default dialect
	}
	bcd := []byte{0, 0, 0, 0x55, g.U8() & 0x77, byte(g.Intn(10))}
	size := uint32(1 + g.Intn(64))
	if g.Chance(1, 6) {
		size = core.Pick(g.Rand, []uint32{0, 1, 0xffffffff, 1 << 31})
	}
	name := []byte(g.Str(1 + g.Intn(12)))
	f := att.File{Name: name, Size: size}
	serial := g.U16()
	var ws [][]byte
	add := func(id uint16, body []byte) {
		ws = append(ws, ref.Build(ref.Params{ID: id, BCD: bcd, Serial: serial, Body: body}))
		serial++
	}
	add(0x1210, att.Body1210(d, []byte("T9"), []byte("hostile"), []att.File{f}))
	if g.Bool() {
		add(0x1211, att.Body1211(f, g.U8()))
	}
	nchunks := g.Intn(5) // 0: a completion (0x1212) for an announced file of which nothing was ever received
	remaining := int(size % 4096)
	for k := 0; k < nchunks; k++ {
		ln := uint32(g.Intn(40))
		if k == nchunks-1 && g.Chance(2, 3) && remaining >= 0 {
			ln = uint32(remaining) // lengths add up to exactly the announced size
		}
		remaining -= int(ln)
		off := core.Pick(g.Rand, []uint32{0, 1, size, size + 1, size * 2, 0x10000, 0x7fffffff, 0xffffffff, 0xffffffff - ln + 1, uint32(g.Intn(int(size%4096) + 1))})
		data := g.Bytes(int(ln))
		if g.Chance(1, 8) && ln > 0 {
			data = data[:g.Intn(int(ln))] // fewer bytes than declared, then the next unit follows
		}
		ws = append(ws, append(att.ChunkHeader(d, name, off, ln), data...))
	}
	if g.Chance(2, 3) {
		add(0x1212, att.Body1211(f, g.U8()))
	}
	cn := c10Conn{Writes: ws, Close: core.Pick(g.Rand, []string{"fin", "rst", "linger"})}
	if g.Chance(1, 3) {
		cn.Writes = [][]byte{bytes.Join(ws, nil)}
	}
	return cn
}

func c10Send(addr string, cn c10Conn) bool {
	c, err := net.DialTimeout("tcp", addr, 5*time.Second)
	if err != nil {
		return false
	}
	tc := c.(*net.TCPConn)
	for _, w := range cn.Writes {
		tc.SetWriteDeadline(time.Now().Add(5 * time.Second))
		if _, err := tc.Write(w); err != nil {
			break
		}
	}
	switch cn.Close {
	case "rst":
		tc.SetLinger(0)
	case "linger":
		time.Sleep(1500 * time.Microsecond)
	}
	tc.Close()
	return true
}

// c10RespondHostile joins under one of the commanded keys, waits (bounded) for a platform command and then sends
// response-type frames with mutated / adversarial bodies, some echoing the command's real serial.
func c10RespondHostile(addr string, g gen.G, pool map[uint16][][]byte, j *core.Journal, a, i int) {
	t, err := svc.Dial(addr, g.Chance(1, 3), fmt.Sprintf("665%d", g.Intn(5)))
	if err != nil {
		return
	}
	defer t.Close()
	t.Write(t.Frame(0x0002, 1, nil))
	var cmdSerial uint16
	got := false
	for k := 0; k < 4; k++ {
		rx, ok, to := t.Next(60 * time.Millisecond)
		if to || !ok {
			break
		}
		if rx.F != nil && rx.F.ID != 0x8001 {
			cmdSerial, got = rx.F.Serial, true
			break
		}
	}
	respIDs := []uint16{0x0001, 0x0104, 0x0805, 0x1205, 0x1206}
	for k := 1 + g.Intn(4); k > 0; k-- {
		id := respIDs[g.Intn(len(respIDs))]
		var body []byte
		if bs := pool[id]; len(bs) > 0 {
			body = append([]byte{}, bs[g.Intn(len(bs))]...)
		} else {
			body = g.Bytes(3 + g.Intn(20))
		}
		if got && len(body) >= 2 && g.Chance(2, 3) {
			body[0], body[1] = byte(cmdSerial>>8), byte(cmdSerial) // echo the outstanding command's serial
		}
		if g.Chance(3, 4) {
			body = c10Mutate(g, body)
		}
		f := t.Frame(id, g.U16(), body)
		j.Log(true, "responder %d/%d outstanding=%v frame=%s", a, i, got, core.HexCap(f, 1400))
		if t.Write(f) != nil {
			return
		}
	}
	time.Sleep(time.Duration(g.Intn(800)) * time.Microsecond)
	if g.Bool() {
		t.Reset()
	}
}

// ---- JT808 server ---------------------------------------------------------------------------

// c10Canary runs request/reply rounds on one long-lived connection until stop; every reply is checked with R-reply.
var escapedCanaryFrames atomic.Int64

func c10Canary(c *core.Collector, addr string, id int, stop *atomic.Bool, rounds *atomic.Int64) {
	t, err := svc.Dial(addr, id%2 == 1, fmt.Sprintf("%d", 9100000+id))
	if err != nil {
		c.Violate("canary|well-behaved session could not connect", err.Error(), nil)
		return
	}
	defer t.Close()
	g := gen.G{Rand: core.NewRand(uint64(id), "c10canary", 0)}
	serial := uint16(0)
	pserial := 0
	for !stop.Load() {
		rid := core.Pick(g.Rand, []uint16{0x0002, 0x0200, 0x0100, 0x0102, 0x0704, 0x0801})
		body := c06Body(g, rid, t.V2019, t.Phone)
		if rid == 0x0200 && len(body) >= 28 && g.Chance(2, 3) {
			// well-behaved frames need escaping as well (coordinates that contain 7e / 7d): the session's frames take the decoder's
			// slow path, next to whatever the hostile connections left behind there
			body = bytes.Clone(body)
			body[8+g.Intn(4)], body[12+g.Intn(4)] = 0x7e, 0x7d
			escapedCanaryFrames.Add(1)
		}
		if ref.ExpectedReply(rid, serial+1, body, t.V2019, t.Phone) == nil {
			continue // by design unanswered (2019 auth too short for its fixed fields)
		}
		serial++
		if t.Write(t.Frame(rid, serial, body)) != nil {
			c.Violate("canary|established well-behaved session was closed by the server", fmt.Sprintf("canary %d after %d rounds", id, rounds.Load()), nil)
			return
		}
		rx, ok, to := t.Next(30 * time.Second)
		if to {
			c.Inconclusive()
			return
		}
		exp := ref.ExpectedReply(rid, serial, body, t.V2019, t.Phone)
		if !ok {
			c.Violate("canary|established well-behaved session was closed by the server", fmt.Sprintf("canary %d after %d rounds", id, rounds.Load()), nil)
			return
		}
		if rx.F == nil || exp == nil || rx.F.ID != exp.ID || (!exp.SkipBody && !bytes.Equal(rx.F.Body, exp.Body)) || int(rx.F.Serial) != pserial%65536 {
			c.Violate("canary|well-behaved session got a wrong reply while hostile connections were served", fmt.Sprintf("canary %d request %04x serial %d: got %x", id, rid, serial, rx.Raw), nil)
			return
		}
		pserial++
		rounds.Add(1)
		time.Sleep(200 * time.Microsecond)
	}
}

// serverAnswersFreshConnection tells a stalled CONNECTION from a slow MACHINE: when an established conversation has been silent
// for its whole watchdog period, two fresh connections in a row that are served within 500 ms each mean the server is alive and
// responsive — the missing reply is then a missing reply (violation), not a matter of patience (inconclusive).
var probeSeq atomic.Int64

func serverAnswersFreshConnection(addr string) bool {
	for k := 0; k < 2; k++ {
		t0 := time.Now()
		ok, to := c10Probe(addr, 9900000+int(probeSeq.Add(1)))
		if to || !ok || time.Since(t0) > 500*time.Millisecond {
			return false
		}
	}
	return true
}

func c10Probe(addr string, n int) (ok bool, timedOut bool) {
	t, err := svc.Dial(addr, false, fmt.Sprintf("%d", 9200000+n))
	if err != nil {
		return false, false
	}
	defer t.Close()
	body := make([]byte, 37)
	t.Write(t.Frame(0x0100, 1, body))
	t.Write(t.Frame(0x0002, 2, nil))
	for i := 0; i < 2; i++ {
		rx, okr, to := t.Next(30 * time.Second)
		if to {
			return false, true
		}
		if !okr || rx.F == nil {
			return false, false
		}
		want := []uint16{0x8100, 0x8001}[i]
		if rx.F.ID != want || int(rx.F.Serial) != i {
			return false, false
		}
	}
	return true, false
}

func c10JT808(c *core.Collector, x *Ctx, parsing bool) {
	c.Rule = "hostile connections against a live JT808 server (default handlers / README-style parsing handlers): random bytes; valid frames with mutated in-domain bodies for every supported ID (truncation, count/length substitution, extension, hostile additional-info items), adversarial header fields (package number 0 / > total, total 65535, length 1023, encryption bit, version/fragment bit toggles, length-field lies), corrupt / truncated frames; " +
		"lifecycles: connect-and-close, cut after k bytes, FIN / RST / lingering close, coalesced writes; 2 canary sessions run throughout, a commanded victim session whose phone hostile connections claim must stay reachable by platform commands, and a fresh probe connection must be served after every 10th hostile connection. evaluation = one hostile connection; distinct by hash of its bytes"
	var opts []service.Option
	if parsing {
		opts = append(opts, service.WithCustomHandleFunc(c10Handlers))
	}
	srv, err := svc.Start(nil, opts...)
	if err != nil {
		c.Inconclusive()
		return
	}
	defer c10MemGuard(c, x)()
	var stop atomic.Bool
	var rounds atomic.Int64
	var wg sync.WaitGroup
	for i := 0; i < 2; i++ {
		wg.Add(1)
		go func(i int) {
			defer wg.Done()
			c10Canary(c, srv.Addr, x.Batch*10+i, &stop, &rounds)
		}(i)
	}
	// platform commands keep arriving for the keys the hostile connections use: with a command outstanding, response-type
	// frames (0x0001 0x0104 0x0805 0x1205 0x1206) from the hostile peer go through the response-matching path and its parsers
	var cmds atomic.Int64
	for k := 0; k < 2; k++ {
		wg.Add(1)
		go func(k int) {
			defer wg.Done()
			cmdList := []consts.JT808CommandType{consts.P8104QueryTerminalParams, consts.P8103SetTerminalParams, consts.P8801CameraShootImmediateCommand, consts.P9205QueryResourceList, consts.P9206FileUploadInstructions}
			for i := 0; !stop.Load(); i++ {
				key := fmt.Sprintf("665%d", (i+k)%5)
				res := sendCmd(srv.G, key, cmdList[i%len(cmdList)], []byte{1, 2, 3, 4}, 40*time.Millisecond, 40*time.Millisecond+slackFor(40*time.Millisecond))
				if res.kind == "stranded" {
					c.Violate("stranded|a platform command to a hostile terminal's key never returned", fmt.Sprintf("key %s; service goroutines: %v", key, goroutineDump()), nil)
					return
				}
				if res.kind != "notexist" {
					cmds.Add(1)
				}
				time.Sleep(300 * time.Microsecond)
			}
		}(k)
	}
	// a commanded victim: a well-behaved terminal that answers platform commands; hostile connections claim ITS phone
	// (and are refused); afterwards the platform must still reach the victim under its key
	victimPhone := fmt.Sprintf("%d", 9300000+x.Batch)
	victimUp := make(chan bool, 1)
	wg.Add(1)
	go func() {
		defer wg.Done()
		t, err := svc.Dial(srv.Addr, x.Batch%2 == 1, victimPhone)
		if err != nil {
			victimUp <- false
			return
		}
		defer t.Close()
		t.Write(t.Frame(0x0002, 1, nil))
		if rx, ok, to := t.Next(30 * time.Second); to || !ok || rx.F == nil || rx.F.ID != 0x8001 {
			victimUp <- false
			return
		}
		victimUp <- true
		serial := uint16(1)
		for !stop.Load() {
			rx, ok, to := t.Next(100 * time.Millisecond)
			if to {
				continue
			}
			if !ok {
				if !stop.Load() {
					c.Violate("canary|established well-behaved session was closed by the server", "the commanded victim session (hostile connections claimed its phone)", nil)
				}
				return
			}
			if rx.F != nil && rx.F.ID == 0x8104 {
				serial++
				t.Write(t.Frame(0x0001, serial, []byte{byte(rx.F.Serial >> 8), byte(rx.F.Serial), 0x81, 0x04, 0}))
			}
		}
	}()
	victimOK := <-victimUp
	if !victimOK {
		c.Inconclusive()
	}
	var impersonations atomic.Int64
	impersonate := func(ga gen.G, a, i int) {
		t, err := svc.Dial(srv.Addr, ga.Bool(), victimPhone)
		if err != nil {
			return
		}
		x.Journal.Log(true, "impersonator %d/%d claims the victim's phone %s", a, i, victimPhone)
		t.Write(t.Frame(core.Pick(ga.Rand, []uint16{0x0002, 0x0100, 0x0200, 0x0102}), ga.U16(), ga.Bytes(ga.Intn(40))))
		t.Next(50 * time.Millisecond)
		switch ga.Intn(3) {
		case 0:
			t.Reset()
		default:
			t.Close()
		}
		if ga.Bool() {
			time.Sleep(time.Duration(ga.Intn(3000)) * time.Microsecond)
		}
		res := sendCmd(srv.G, victimPhone, consts.P8104QueryTerminalParams, nil, 3*time.Second, 3*time.Second+slackFor(3*time.Second))
		impersonations.Add(1)
		switch res.kind {
		case "response":
		case "timeout":
			c.Inconclusive() // wall clock: the victim answers, but a loaded machine may be slower than the command's timeout
		case "stranded":
			c.Violate("stranded|a platform command to the victim never returned", fmt.Sprintf("service goroutines: %v", goroutineDump()), nil)
		default:
			c.Violate("victim|an established session can no longer be reached by platform commands after a hostile connection claimed its phone", fmt.Sprintf("attacker %d connection %d: SendActiveMessage(%s) -> %s", a, i, victimPhone, res.kind), nil)
		}
	}
	n := c.N(1500, 8000)
	g := gen.G{Rand: core.NewRand(c.Seed, "c10/"+fmt.Sprint(parsing), uint64(x.Batch))}
	pool := c10Bodies(g)
	// systematic pass (batch 0): every single-parameter list of the pool, as a 0x0104 and wrapped as a 0x8103-shaped body,
	// unmutated, each on a connection of its own behind a heartbeat (the random attackers below pick one of them once in
	// tens of thousands of frames)
	if x.Batch == 0 {
		swept := 0
		for _, b := range pool[0x0104] {
			if len(b) < 8 || b[2] != 1 || len(b) != 8+int(b[7]) {
				continue
			}
			bcd := []byte{0, 0, 0, 0x55, 0x77, byte(swept)}
			cn := c10Conn{Close: "fin", Writes: [][]byte{
				ref.Build(ref.Params{ID: 0x0002, BCD: bcd, Serial: 1}),
				ref.Build(ref.Params{ID: 0x0104, BCD: bcd, Serial: 2, Body: b}),
				ref.Build(ref.Params{ID: 0x0002, BCD: bcd, Serial: 3}),
			}}
			x.Journal.Log(true, "param sweep conn writes=%s", c10Hex(cn.Writes))
			if !c10Send(srv.Addr, cn) {
				c.Violate("accept|new connection refused while hostile connections were served", "single-parameter sweep", nil)
				break
			}
			c.Eval()
			swept++
		}
		c.Count("single_parameter_lists_swept", int64(swept))
		if ok, to := c10Probe(srv.Addr, x.Batch*100000+99000); to {
			c.Inconclusive()
		} else if !ok {
			c.Violate("probe|a fresh connection was not served correctly after hostile connections", "after the single-parameter sweep", nil)
		}
	}
	probes := 0
	// 4 attackers in parallel, each with its own stream
	var awg sync.WaitGroup
	var pmu sync.Mutex
	for a := 0; a < 4; a++ {
		awg.Add(1)
		go func(a int) {
			defer awg.Done()
			ga := gen.G{Rand: core.NewRand(c.Seed, "c10a/"+fmt.Sprint(parsing), uint64(x.Batch*16+a))}
			for i := 0; i < n/4; i++ {
				if i%25 == 12 && victimOK {
					impersonate(ga, a, i)
					c.Eval()
					continue
				}
				if i%7 == 6 {
					// a hostile terminal that waits for a platform command and answers it with malformed response-type frames
					c10RespondHostile(srv.Addr, ga, pool, x.Journal, a, i)
					c.Eval()
					c.Count("hostile_responders", 1)
					continue
				}
				cn := c10Hostile(ga, pool, false)
				x.Journal.Log(true, "conn %d/%d close=%s writes=%s", a, i, cn.Close, c10Hex(cn.Writes))
				if !c10Send(srv.Addr, cn) {
					c.Violate("accept|new connection refused while hostile connections were served", fmt.Sprintf("attacker %d connection %d", a, i), nil)
					return
				}
				c.Eval()
				c.NonTrivial(core.HashBytes(cn.Writes...))
				if i%10 == 9 {
					r0 := rounds.Load()
					ok, to := c10Probe(srv.Addr, x.Batch*100000+a*10000+i)
					pmu.Lock()
					probes++
					pmu.Unlock()
					if to && rounds.Load()-r0 >= 20 {
						// 30 s without an answer for the fresh terminal while the two established canary sessions were served
						// twenty rounds and more: the machine is not slow, new terminals are not being served
						c.Violate("stall|fresh terminals are not served while established sessions are", fmt.Sprintf("after attacker %d connection %d: no answer in 30 s, canaries served %d rounds meanwhile; last hostile writes %s; service goroutines: %v", a, i, rounds.Load()-r0, trunc(c10Hex(cn.Writes), 300), goroutineDump()), map[string]any{"last_hostile": c10Hex(cn.Writes)})
						return
					}
					if to {
						c.Inconclusive()
					} else if !ok {
						c.Violate("probe|a fresh connection was not served correctly after hostile connections", fmt.Sprintf("after attacker %d connection %d; last hostile writes %s", a, i, trunc(c10Hex(cn.Writes), 300)), map[string]any{"last_hostile": c10Hex(cn.Writes)})
						return
					}
				}
				if i%400 == 7 && c.WantSample() {
					c.Sample(map[string]any{"close": cn.Close, "writes": trunc(c10Hex(cn.Writes), 200)})
				}
			}
		}(a)
	}
	awg.Wait()
	// reassembled messages beyond 65535 bytes: consistent lists of tens of thousands of entries sent as up to 255 sub-packages
	// (hostile only in size: every field is well-formed). With a command outstanding for the response types, so that the
	// default server parses them too.
	{
		bigs := gen.BigCases(gen.G{Rand: core.NewRand(c.Seed, "c10big", uint64(x.Batch))})
		nbig := 0
		for bi, tc := range bigs {
			if bi%2 != x.Batch%2 && !c.Thorough() {
				continue
			}
			body := tc.Val.Encode()
			part := 1010
			N := (len(body) + part - 1) / part
			if N > 255 || N < 2 {
				continue
			}
			t, err := svc.Dial(srv.Addr, bi%2 == 1, fmt.Sprintf("665%d", bi%5))
			if err != nil {
				c.Violate("accept|new connection refused while hostile connections were served", "big reassembled message", nil)
				break
			}
			t.Write(t.Frame(0x0002, 1, nil))
			t.Next(5 * time.Second)
			// wait (bounded) for a platform command to this key and echo its serial in the response's first two bytes
			if tc.ID == 0x0805 || tc.ID == 0x1205 {
				for k := 0; k < 20; k++ {
					rx, ok, to := t.Next(100 * time.Millisecond)
					if to || !ok {
						break
					}
					if rx.F != nil && rx.F.ID != 0x8001 {
						body[0], body[1] = byte(rx.F.Serial>>8), byte(rx.F.Serial)
						break
					}
				}
			}
			x.Journal.Log(true, "big reassembled %s: %d bytes in %d sub-packages", tc.Name, len(body), N)
			var all []byte
			for k := 1; k <= N; k++ {
				all = append(all, t.SubFrame(tc.ID, uint16(100+k), uint16(N), uint16(k), body[(k-1)*part:min(k*part, len(body))])...)
			}
			t.Write(all)
			time.Sleep(30 * time.Millisecond)
			t.Close()
			nbig++
			c.Eval()
			if ok, to := c10Probe(srv.Addr, x.Batch*100000+90000+bi); to {
				c.Inconclusive()
			} else if !ok {
				c.Violate("probe|a fresh connection was not served correctly after hostile connections", "after a reassembled message of "+fmt.Sprint(len(body))+" bytes ("+tc.Name+")", nil)
				break
			}
		}
		c.Count("reassembled_messages_beyond_65535_bytes", int64(nbig))
	}
	// many simultaneous connects
	var cwg sync.WaitGroup
	for i := 0; i < 64; i++ {
		cwg.Add(1)
		go func(i int) {
			defer cwg.Done()
			c10Send(srv.Addr, c10Conn{Close: []string{"fin", "rst"}[i%2]})
		}(i)
	}
	cwg.Wait()
	ok, to := c10Probe(srv.Addr, x.Batch*100000+99999)
	if to {
		c.Inconclusive()
	} else if !ok {
		c.Violate("probe|a fresh connection was not served correctly after hostile connections", "final probe", nil)
	}
	stop.Store(true)
	wg.Wait()
	c.Count("canary_rounds", rounds.Load())
	c.Count("canary_frames_that_needed_escaping", escapedCanaryFrames.Load())
	c.Count("commands_routed_to_hostile_connections", cmds.Load())
	c.Count("probes", int64(probes))
	c.Count("impersonations_followed_by_a_command_to_the_victim", impersonations.Load())
	c.Floor("impersonations_followed_by_a_command_to_the_victim", 10)
	c.Floor("canary_rounds", 50)
	c.Floor("probes", 20)
}

func c10Hex(ws [][]byte) string {
	s := ""
	for i, w := range ws {
		if i > 0 {
			s += "|"
		}
		s += core.HexCap(w, 1400)
	}
	return s
}

// memWatch samples the Go heap of this process (harness + server under attack) every millisecond. Hostile connections
// send at most a few KiB each, so the live heap has no reason to grow by gigabytes: growth far beyond the bytes
// actually received means server memory is driven by a client-controlled length field (a process-wide OOM on any
// smaller machine). Returns a function that stops the watcher and reports (baseline, peak) in bytes.
func memWatch(onExceed func(base, now uint64)) func() (uint64, uint64) {
	sample := []metrics.Sample{{Name: "/memory/classes/heap/objects:bytes"}}
	metrics.Read(sample)
	base := sample[0].Value.Uint64()
	var peak atomic.Uint64
	peak.Store(base)
	var stop atomic.Bool
	done := make(chan struct{})
	go func() {
		defer close(done)
		s := []metrics.Sample{{Name: "/memory/classes/heap/objects:bytes"}}
		fired := false
		for !stop.Load() {
			metrics.Read(s)
			v := s[0].Value.Uint64()
			if v > peak.Load() {
				peak.Store(v)
			}
			if !fired && v > base && v-base > c10MemLimit {
				fired = true
				onExceed(base, v)
			}
			time.Sleep(time.Millisecond)
		}
	}()
	return func() (uint64, uint64) {
		stop.Store(true)
		<-done
		return base, peak.Load()
	}
}

const c10MemLimit = 1 << 30

// c10MemGuard starts the heap watcher for one server under attack. When the live heap exceeds the baseline by more than
// c10MemLimit the violation is recorded, the report is written and the child exits at once: the sandbox has no memory
// limit, and letting a length-field-driven allocation run its course gets children SIGKILLed by the kernel instead.
func c10MemGuard(c *core.Collector, x *Ctx) func() {
	stopWatch := memWatch(func(base, now uint64) {
		c.Violate("memory|live heap grew by more than 1 GiB while every hostile connection sent only a few KiB", fmt.Sprintf("baseline %d MiB, now %d MiB: server memory is driven by a client-controlled length field, not by the bytes received (a process-wide out-of-memory death on a smaller machine); last journalled connection: %s", base>>20, now>>20, x.Journal.Last()), nil)
		c.Count("heap_baseline_MiB", int64(base>>20))
		c.Count("heap_peak_MiB", int64(now>>20))
		if x.Out != "" {
			c.WriteTo(x.Out)
		}
		os.Exit(0)
	})
	return func() {
		base, peak := stopWatch()
		c.Count("heap_baseline_MiB", int64(base>>20))
		c.Count("heap_peak_MiB", int64(peak>>20))
	}
}

// ---- attachment server -------------------------------------------------------------------------

// recorders of the attachment server under attack (recording-handler part): one per accepted connection, in order of creation
var c10AttRecs struct {
	sync.Mutex
	list []*att.Recorder
}

// c10AttSession: a complete well-formed upload next to the hostile traffic. Before it, an IMPOSTOR — another terminal (other phone
// number) that knows which files this one is about to upload — announces exactly those names and sizes, sends one wrong byte
// into the middle of each and hangs up: whatever a server remembers across connections (resume caches, name indexes) now holds
// the impostor's leftovers. Half of the uploads are flagged as re-uploads (0x1210 information type 0x01), as a terminal that
// retries after a lost connection sends them. Replies are checked byte-exactly; with the recording handler the upload's
// connection must also have reported every fully sent file complete with the original content.
func c10AttSession(addr string, id int, recording bool) (ok bool, timedOut bool, detail string) {
	g := gen.G{Rand: core.NewRand(uint64(id), "c10attcanary", 0)}
	p := attGenPlan(g, 0, false) // JS dialect, well-formed
	p.Gen = "canary"
	if id%2 == 1 {
		p.InfoType = 1
	}
	attPartition(g, p, id%3)
	b := attBuild(p)
	{
		bcd := []byte{0, 0, 0, 0x66, byte(id>>8) & 0x77, byte(id) & 0x77}
		var ws [][]byte
		ws = append(ws, ref.Build(ref.Params{ID: 0x1210, BCD: bcd, Serial: 1, Body: att.Body1210(consts.ActiveSafetyJS, []byte("T6"), []byte("impostor"), b.files)}))
		for i, f := range b.files {
			if f.Size < 3 || len(f.Name) > 50 || i > 3 {
				continue
			}
			ws = append(ws, ref.Build(ref.Params{ID: 0x1211, BCD: bcd, Serial: uint16(2 + i), Body: att.Body1211(f, 0)}))
			ws = append(ws, append(att.ChunkHeader(consts.ActiveSafetyJS, f.Name, 1, 1), 0xEE))
		}
		c10Send(addr, c10Conn{Writes: ws, Close: core.Pick(g.Rand, []string{"fin", "linger"})})
		time.Sleep(20 * time.Millisecond)
	}
	c10AttRecs.Lock()
	mark := len(c10AttRecs.list)
	c10AttRecs.Unlock()
	viol, incon := attRun(p, true, addr)
	if incon {
		return false, true, ""
	}
	if len(viol) > 0 {
		return false, false, viol[0][0] + ": " + viol[0][1]
	}
	if recording {
		// the complete events precede the 0x9212 replies that attRun has just checked: no waiting is involved
		c10AttRecs.Lock()
		recs := append([]*att.Recorder{}, c10AttRecs.list[mark:]...)
		c10AttRecs.Unlock()
		for i, f := range b.files {
			if b.completeAt[i] < 0 || f.Content == nil {
				continue
			}
			found := false
			for _, r := range recs {
				for _, e := range r.Events() {
					if e.Stage == attachment.ProgressStageStreamDataComplete && e.Cur == string(f.Name) && bytes.Equal(e.Body, f.Content) {
						found = true
					}
				}
			}
			if !found {
				return false, false, fmt.Sprintf("content: file %d (size %d) was sent completely and acknowledged, but no connection reported it complete with the original content (an impostor with another phone number had announced the same names before; information type %d)", i, f.Size, p.InfoType)
			}
		}
	}
	return true, false, ""
}

func c10Att(c *core.Collector, x *Ctx, defaultHandler bool) {
	c.Rule = "hostile connections against a live attachment server (default file handler in a sandbox cwd / recording handler): control frames and chunk headers with adversarial names (marker bytes, NULs, 255 B, empty), offsets and lengths (0, 2^31, 2^32-1, beyond the file), mutated bodies, unknown commands, random bytes, JT808 frames; lifecycles as for the JT808 server incl. close mid-file; " +
		"a canary upload (complete well-formed session, checked byte-exactly on its replies) runs after every 10th hostile connection. evaluation = one hostile connection; distinct by hash of its bytes"
	var opts []attachment.Option
	if defaultHandler {
		cwd, _ := os.Getwd()
		os.MkdirAll(cwd+"/attwork", 0o755)
		os.Chdir(cwd + "/attwork")
	} else {
		opts = append(opts, attachment.WithFileEventerFunc(func() attachment.FileEventer {
			r := &att.Recorder{}
			c10AttRecs.Lock()
			c10AttRecs.list = append(c10AttRecs.list, r)
			c10AttRecs.Unlock()
			return r
		}))
	}
	devnull, _ := os.OpenFile("/dev/null", os.O_WRONLY, 0)
	os.Stdout = devnull // the default handler prints every progress event
	addr, err := att.StartTCP(opts...)
	if err != nil {
		c.Inconclusive()
		return
	}
	defer c10MemGuard(c, x)()
	// opaque one-byte fields swept over all 256 values in otherwise well-formed frames (file type of 0x1211/0x1212, info type of 0x1210)
	for v := 0; v < 256; v++ {
		f := att.File{Name: []byte(fmt.Sprintf("sweep%d.bin", v)), Size: 4}
		bcd := []byte{0, 0, 0, 0x33, byte(v>>4) & 0x7, byte(v & 0x0f)}
		b1210 := att.Body1210(consts.ActiveSafetyJS, []byte("T5"), []byte("sweep"), []att.File{f})
		b1210[7+16+32] = byte(v) // info type
		ws := [][]byte{
			ref.Build(ref.Params{ID: 0x1210, BCD: bcd, Serial: 1, Body: b1210}),
			ref.Build(ref.Params{ID: 0x1211, BCD: bcd, Serial: 2, Body: att.Body1211(f, byte(v))}),
			append(att.ChunkHeader(consts.ActiveSafetyJS, f.Name, 0, 4), 1, 2, 3, 4),
			ref.Build(ref.Params{ID: 0x1212, BCD: bcd, Serial: 3, Body: att.Body1211(f, byte(v))}),
		}
		cn := c10Conn{Writes: ws, Close: "linger"}
		x.Journal.Log(true, "sweep %d writes=%s", v, c10Hex(cn.Writes))
		if !c10Send(addr, cn) {
			c.Violate("accept|new connection refused while hostile connections were served", fmt.Sprintf("type sweep %d", v), nil)
			return
		}
		c.Eval()
	}
	c.Count("byte_field_sweep_connections", 256)
	n := c.N(1200, 6000)
	canaries := c.Counter("canary_uploads")
	var awg sync.WaitGroup
	for a := 0; a < 4; a++ {
		awg.Add(1)
		go func(a int) {
			defer awg.Done()
			ga := gen.G{Rand: core.NewRand(c.Seed, "c10att/"+fmt.Sprint(defaultHandler), uint64(x.Batch*16+a))}
			pool := c10Bodies(ga)
			for i := 0; i < n/4; i++ {
				cn := c10Hostile(ga, pool, true)
				if i%7 == 5 {
					cn = c10AttHostileSession(ga)
				}
				if i%7 == 3 { // close mid-file: a well-formed session cut at a random point
					p := attGenPlan(ga, 0, false)
					b := attBuild(p)
					cut := 1 + ga.Intn(len(b.stream)-1)
					cn = c10Conn{Writes: [][]byte{b.stream[:cut]}, Close: core.Pick(ga.Rand, []string{"fin", "rst"})}
				}
				x.Journal.Log(true, "conn %d/%d close=%s writes=%s", a, i, cn.Close, c10Hex(cn.Writes))
				if !c10Send(addr, cn) {
					c.Violate("accept|new connection refused while hostile connections were served", fmt.Sprintf("attacker %d connection %d", a, i), nil)
					return
				}
				c.Eval()
				c.NonTrivial(core.HashBytes(cn.Writes...))
				if i%10 == 9 {
					ok, to, detail := c10AttSession(addr, x.Batch*100000+a*10000+i, !defaultHandler)
					canaries.Add(1)
					if to {
						c.Inconclusive()
					} else if !ok {
						c.Violate("probe|a well-formed upload was not served correctly after hostile connections", detail, map[string]any{"last_hostile": c10Hex(cn.Writes)})
						return
					}
				}
				if i%300 == 5 && c.WantSample() {
					c.Sample(map[string]any{"close": cn.Close, "writes": trunc(c10Hex(cn.Writes), 200)})
				}
			}
		}(a)
	}
	awg.Wait()
	ok, to, detail := c10AttSession(addr, x.Batch*100000+99999, !defaultHandler)
	if to {
		c.Inconclusive()
	} else if !ok {
		c.Violate("probe|a well-formed upload was not served correctly after hostile connections", "final: "+detail, nil)
	}
	c.Floor("canary_uploads", 20)
}

// ---- JT808 stream parser under hostile sub-package sequences and (virtual) time ---------------------------------
//
// The socket parts cannot wait 5 s / 60 s on thousands of hostile connections, so the timer-driven paths of the parser
// (re-request after 5 s idle, expiry after 60 s) would only ever see well-formed state. This part feeds hostile
// fragment sequences — empty bodies, totals 0 / 1 / 65535, contradictory totals, numbers beyond the total, duplicates,
// repeated packet 1, several IDs — through service.VerifParser (the code path of connection.reader) and ages the
// parser's clock between reads. Oracle: no panic, ever (a panic in the reader goroutine ends the whole server).
func c10Games(c *core.Collector, x *Ctx) {
	c.Rule = "hostile sub-package sequences through the real stream parser with virtual time between reads: fragments with empty / 1-byte / 1023-byte bodies, totals and numbers from {0,1,2,3,5,255,256,65535}, contradictory totals, duplicates, repeated packet 1, 1-3 message IDs, " +
		"unfragmented messages in between, ages from {0.1,4,5.1,5.6,11,30,59,61,120 s}; oracle: the parser never panics. evaluation = one sequence; distinct by hash of the sequence"
	n := c.N(20000, 400000)
	vals := []uint16{0, 1, 2, 3, 5, 255, 256, 65535}
	ages := []int64{100, 4000, 5100, 5600, 11000, 30000, 59000, 61000, 120000}
	aged := c.Counter("sequences_with_timer_paths_reached")
	core.ParallelFor(n, ncpu(), func(i int) {
		r := core.NewRand(c.Seed, "c10games", uint64(x.Batch)<<32|uint64(i))
		ids := []uint16{0x0801, 0x0704, 0x0200}[:1+r.Intn(3)]
		var ops []hookOp
		var frames []string
		v19 := r.Bool()
		k := 3 + r.Intn(12)
		hasAge := false
		coherent := uint16(0)
		if i%3 == 0 {
			coherent = core.Pick(r, []uint16{256, 257, 300, 65535, 255, 3})
		}
		for q := 0; q < k; q++ {
			switch r.Intn(6) {
			case 0:
				ops = append(ops, hookOp{AgeMs: ages[r.Intn(len(ages))]})
				hasAge = true
				continue
			case 1:
				f := hookFrameV(v19, 0x0002, r.U16(), false, 0, 0, nil)
				frames = append(frames, core.Hex(f))
				ops = append(ops, hookOp{Feed: core.Hex(f)})
				continue
			}
			sum, no := vals[r.Intn(len(vals))], vals[r.Intn(len(vals))]
			if coherent != 0 && r.Chance(3, 4) {
				// a third of the sequences stick to ONE announced total (often a huge one) for most of their fragments: a transfer of
				// 256 / 65535 packets that really is open, with later packets of it arriving after the timers have run
				sum = coherent
				no = core.Pick(r, []uint16{1, 2, 3, 5, 255, 256, sum})
			} else if r.Chance(1, 2) { // plausible pair
				sum = uint16(2 + r.Intn(4))
				no = uint16(1 + r.Intn(int(sum)))
			}
			var body []byte
			switch r.Intn(5) {
			case 0: // empty
			case 1:
				body = []byte{r.Byte()}
			case 2:
				body = r.Bytes(1023)
			default:
				body = r.Bytes(1 + r.Intn(12))
			}
			f := hookFrameV(v19, ids[r.Intn(len(ids))], r.U16(), true, sum, no, body)
			frames = append(frames, core.Hex(f))
			for _, s := range hookSplit(f) {
				ops = append(ops, hookOp{Feed: core.Hex(s)})
			}
			if r.Chance(1, 3) { // the same fragment again (duplicate), possibly several times
				for d := 1 + r.Intn(4); d > 0; d-- {
					frames = append(frames, core.Hex(f))
					for _, s := range hookSplit(f) {
						ops = append(ops, hookOp{Feed: core.Hex(s)})
					}
				}
			}
		}
		// always end with an aged read, so that whatever state the sequence left is seen by the timer paths
		ops = append(ops, hookOp{AgeMs: []int64{5600, 61000}[r.Intn(2)]})
		f := hookFrameV(v19, 0x0002, 9, false, 0, 0, nil)
		frames = append(frames, core.Hex(f))
		ops = append(ops, hookOp{Feed: core.Hex(f)})
		sc := &hookScenario{Kind: "c10games", Gen: "sub-package games with virtual time", Frames: frames, Ops: ops}
		c.Eval()
		c.NonTrivial(core.HashString(fmt.Sprint(ops)))
		if guard(c, func() any { return sc }, func() {
			vp := service.NewVerifParser()
			for _, op := range sc.Ops {
				if op.AgeMs != 0 {
					vp.Age(time.Duration(op.AgeMs) * time.Millisecond)
					continue
				}
				vp.Feed(core.UnHex(op.Feed)) // a returned error only closes this connection
			}
		}) {
			return
		}
		if hasAge {
			aged.Add(1)
		}
		if i%5000 == 0 && c.WantSample() {
			c.Sample(map[string]any{"gen": "parser games", "ops": len(ops), "first_ops": ops[:min(4, len(ops))]})
		}
	})
	c.Floor("sequences_with_timer_paths_reached", 1000)
	// exhaustive part: EVERY sequence of up to L fragments of one message ID over the alphabet {total 2,3} x {number 1,2,3} x
	// {empty body, 1-byte body} (12 symbols; contradictory totals, numbers beyond the total, slots overwritten by empty bodies
	// and filled again — whatever bookkeeping a parser keeps per transfer is driven through every short history), each
	// followed by an aged read. L = 5 (271 452 sequences) in quick, 6 in thorough (3.26 M), batch 0 only.
	if x.Batch == 0 {
		L := 5
		if c.Thorough() {
			L = 6
		}
		type sym struct {
			sum, no uint16
			empty   bool
		}
		var alpha []sym
		for _, sum := range []uint16{2, 3} {
			for _, no := range []uint16{1, 2, 3} {
				alpha = append(alpha, sym{sum, no, false}, sym{sum, no, true})
			}
		}
		pre := make([][]byte, len(alpha))
		for i, a := range alpha {
			var body []byte
			if !a.empty {
				body = []byte{byte(0x41 + i)}
			}
			pre[i] = hookFrameV(false, 0x0801, uint16(100+i), true, a.sum, a.no, body)
		}
		hb := hookFrameV(false, 0x0002, 9, false, 0, 0, nil)
		total := 0
		for l := 1; l <= L; l++ {
			n := 1
			for k := 0; k < l; k++ {
				n *= len(alpha)
			}
			total += n
			ll := l
			const shards = 256
			core.ParallelFor(shards, ncpu(), func(sh int) {
				seq := make([]int, ll)
				for idx := sh; idx < n; idx += shards {
					v := idx
					for k := 0; k < ll; k++ {
						seq[k] = v % len(alpha)
						v /= len(alpha)
					}
					wit := func() any {
						var fs []string
						for _, q := range seq {
							fs = append(fs, core.Hex(pre[q]))
						}
						return &hookScenario{Kind: "c10games", Gen: "exhaustive short fragment histories", Frames: fs}
					}
					if guard(c, wit, func() {
						vp := service.NewVerifParser()
						for _, q := range seq {
							vp.Feed(pre[q])
						}
						vp.Age(5600 * time.Millisecond)
						vp.Feed(hb)
					}) {
						return
					}
				}
			})
		}
		c.Evals(int64(total))
		c.Count("exhaustive_fragment_histories", int64(total))
		c.Floor("exhaustive_fragment_histories", 270000)
	}
}

// ---- descriptor exhaustion -----------------------------------------------------------------------------------
//
// One client that opens connections and holds them can use up the server process's file descriptors: accept then
// fails with EMFILE for a while. That is a connection lifecycle like any other of the property: while it lasts new
// clients cannot be served, but once the hostile client lets go the servers must accept again and established sessions
// must have survived. The child lowers its own RLIMIT_NOFILE (client and server ends live in this process), floods
// each server, releases, and probes.
func c10FD(c *core.Collector, x *Ctx) {
	c.Rule = "descriptor exhaustion: RLIMIT_NOFILE of the child lowered to 160; per round a flood of up to 400 held-open connections against the JT808 server and the attachment server (dials continue until they fail), released after 150 ms; " +
		"oracle: the established session still gets its replies and a fresh connection is served by each server after every round. evaluation = one round"
	var lim syscall.Rlimit
	if err := syscall.Getrlimit(syscall.RLIMIT_NOFILE, &lim); err != nil {
		c.Inconclusive()
		return
	}
	devnull, _ := os.OpenFile("/dev/null", os.O_WRONLY, 0)
	os.Stdout = devnull
	srv, err := svc.Start(nil)
	if err != nil {
		c.Inconclusive()
		return
	}
	attAddr, err := att.StartTCP(attachment.WithFileEventerFunc(func() attachment.FileEventer { return &att.Recorder{} }))
	if err != nil {
		c.Inconclusive()
		return
	}
	est, err := svc.Dial(srv.Addr, false, "9400001")
	if err != nil {
		c.Inconclusive()
		return
	}
	defer est.Close()
	estSerial := uint16(0)
	estRound := func() string {
		estSerial++
		if est.Write(est.Frame(0x0002, estSerial, nil)) != nil {
			return "write failed"
		}
		rx, ok, to := est.Next(20 * time.Second)
		if to {
			return "timeout"
		}
		if !ok || rx.F == nil || rx.F.ID != 0x8001 || int(rx.F.Serial) != int(estSerial-1) {
			return "closed or wrong reply"
		}
		return ""
	}
	if w := estRound(); w != "" {
		c.Inconclusive()
		return
	}
	low := lim
	low.Cur = 160
	if err := syscall.Setrlimit(syscall.RLIMIT_NOFILE, &low); err != nil {
		c.Inconclusive()
		return
	}
	defer syscall.Setrlimit(syscall.RLIMIT_NOFILE, &lim)
	rounds := c.N(6, 30)
	for round := 0; round < rounds; round++ {
		addr := []string{srv.Addr, attAddr}[round%2]
		var held []net.Conn
		failed := 0
		for i := 0; i < 400 && failed < 20; i++ {
			cn, err := net.DialTimeout("tcp", addr, 2*time.Second)
			if err != nil {
				failed++
				time.Sleep(2 * time.Millisecond)
				continue
			}
			held = append(held, cn)
		}
		x.Journal.Log(true, "fd round %d against %s: %d connections held, %d dials failed", round, addr, len(held), failed)
		time.Sleep(150 * time.Millisecond)
		for _, cn := range held {
			if round%3 == 0 {
				cn.(*net.TCPConn).SetLinger(0)
			}
			cn.Close()
		}
		c.Count("flood_connections_held", int64(len(held)))
		if failed > 0 {
			c.Count("rounds_that_reached_the_descriptor_limit", 1)
		}
		time.Sleep(150 * time.Millisecond)
		c.Eval()
		c.NonTrivial(core.HashString(fmt.Sprintf("fd/%d/%d", x.Batch, round)))
		// the established session survived
		if w := estRound(); w == "timeout" {
			c.Inconclusive()
		} else if w != "" {
			c.Violate("canary|established well-behaved session was closed by the server", "after a flood of held-open connections exhausted the process's descriptors: "+w, nil)
			return
		}
		// both servers accept again
		ok, to := false, false
		for try := 0; try < 40 && !ok; try++ { // the released descriptors come back as the servers notice the closes
			ok, to = c10Probe(srv.Addr, 9500000+x.Batch*1000+round*50+try)
			if !ok {
				time.Sleep(50 * time.Millisecond)
			}
		}
		if to {
			c.Inconclusive()
		} else if !ok {
			c.Violate("accept|the JT808 server no longer serves new connections after descriptor exhaustion ended", fmt.Sprintf("round %d (flood against %s)", round, addr), nil)
			return
		}
		aok, ato, detail := false, false, ""
		for try := 0; try < 40 && !aok; try++ {
			aok, ato, detail = c10AttSession(attAddr, 9600000+x.Batch*1000+round*50+try, false)
			if !aok {
				time.Sleep(50 * time.Millisecond)
			}
		}
		if ato {
			c.Inconclusive()
		} else if !aok {
			c.Violate("accept|the attachment server no longer serves new connections after descriptor exhaustion ended", fmt.Sprintf("round %d (flood against %s): %s", round, addr, detail), nil)
			return
		}
		c.Count("rounds_after_which_both_servers_served_new_clients", 1)
	}
	// ---- one long exhaustion: the flood against the JT808 server is HELD for 6 s (thorough 12 s) with further dials arriving all
	// the time, so accept keeps failing for seconds. Once the hostile client lets go, a new terminal must be served promptly:
	// an established session that is answered within half a second before and after shows that the machine is not slow, and a
	// fresh terminal that then waits more than 2.5 s is not being accepted. (seed C10w1: accept back-off that doubles without
	// bound and is never reset.)
	{
		hold := time.Duration(c.N(6, 12)) * time.Second
		var held []net.Conn
		t0 := time.Now()
		failed := 0
		for time.Since(t0) < hold {
			cn, err := net.DialTimeout("tcp", srv.Addr, 300*time.Millisecond)
			if err != nil {
				failed++
				time.Sleep(20 * time.Millisecond)
				continue
			}
			held = append(held, cn)
			if len(held) > 400 {
				time.Sleep(20 * time.Millisecond)
			}
		}
		x.Journal.Log(true, "long fd round: %d connections held for %v, %d dials failed", len(held), hold, failed)
		for _, cn := range held {
			cn.Close()
		}
		time.Sleep(300 * time.Millisecond)
		e0 := time.Now()
		w1 := estRound()
		estLat := time.Since(e0)
		p0 := time.Now()
		ok, to := c10Probe(srv.Addr, 9590000+x.Batch)
		lat := time.Since(p0)
		e1 := time.Now()
		w2 := estRound()
		estLat2 := time.Since(e1)
		c.Eval()
		switch {
		case w1 != "" && w1 != "timeout", w2 != "" && w2 != "timeout":
			c.Violate("canary|established well-behaved session was closed by the server", "after a long flood of held-open connections: "+w1+w2, nil)
		case to || w1 == "timeout" || w2 == "timeout":
			c.Inconclusive()
		case !ok:
			c.Violate("accept|the JT808 server no longer serves new connections after descriptor exhaustion ended", "after the long flood", nil)
		case failed > 0 && lat > 2500*time.Millisecond && estLat < 500*time.Millisecond && estLat2 < 500*time.Millisecond:
			c.Violate("accept|new terminals wait for seconds after descriptor exhaustion ended although established sessions are served at once",
				fmt.Sprintf("flood held %v (%d connections, %d failed dials); 300 ms after its release a new terminal was answered only after %v, the established session after %v / %v", hold, len(held), failed, lat.Round(time.Millisecond), estLat.Round(time.Millisecond), estLat2.Round(time.Millisecond)), nil)
		default:
			if failed > 0 {
				c.Count("long_exhaustion_rounds_judged", 1)
			}
		}
	}
	c.Floor("rounds_that_reached_the_descriptor_limit", 2)
	c.Floor("rounds_after_which_both_servers_served_new_clients", 4)
}

// ---- a client that stops reading ------------------------------------------------------------------------------
//
// A connection lifecycle like any other: the client joins, keeps sending valid heartbeats and never reads a byte again.
// The replies fill the socket buffers until a write of the server blocks. That alone concerns only this client — but the
// platform goes on addressing commands to every terminal it knows, this one included. While the client stays connected and
// silent, established sessions must keep being served and NEW terminals must be admitted and answered (within a bound
// generous enough for a server that gives a stuck write some seconds before it gives the connection up).
func c10Stalled(c *core.Collector, x *Ctx) {
	c.Rule = "a hostile client joins, floods valid heartbeats (variant: after opening 7 000 sub-packaged transfers and waiting 5.3 s, so that the server's writes are re-requests) and never reads; once a socket write of the server is seen parked (goroutine dump) the platform addresses 6 commands to that terminal, as it does to any terminal it knows; " +
		"oracle: while the client stays connected and silent, two canary sessions keep getting their replies and every fresh terminal is answered within 30 s; afterwards the client closes and every command call returns. The same lifecycle against the attachment server (flood of 0x1212 requests, 13 s). Each variant has a server of its own. evaluation = one probe / command call"
	var wg sync.WaitGroup
	for _, v := range []int{0, 1} {
		wg.Add(1)
		go func(v int) {
			defer wg.Done()
			c10StalledRound(c, x, v)
		}(v)
	}
	wg.Add(1)
	go func() {
		defer wg.Done()
		c10StalledAttachment(c, x)
	}()
	wg.Wait()
	// (no floor: on a machine too loaded to fill the socket buffers in time the variants end as inconclusive, which is reported)
}

func c10StalledRound(c *core.Collector, x *Ctx, round int) {
	srv, err := svc.Start(nil)
	if err != nil {
		c.Inconclusive()
		return
	}
	var stop atomic.Bool
	var rounds atomic.Int64
	var wg sync.WaitGroup
	for i := 0; i < 2; i++ {
		wg.Add(1)
		go func(i int) {
			defer wg.Done()
			c10Canary(c, srv.Addr, 700+i, &stop, &rounds)
		}(i)
	}
	defer func() {
		stop.Store(true)
		wg.Wait()
	}()
	{
		t, err := svc.Dial(srv.Addr, round%2 == 1, fmt.Sprintf("%d", 9400000+round))
		if err != nil {
			c.Inconclusive()
			return
		}
		t.Close() // lends its frame builder only
		raw, err := net.DialTimeout("tcp", srv.Addr, 5*time.Second)
		if err != nil {
			c.Inconclusive()
			return
		}
		if round%2 == 1 {
			// (this variant never makes the server write anything but re-requests: it joins with a general response, which is
			// handled and not answered, and floods general responses later — no reply ever arms a deadline on the socket)
			raw.Write(t.Frame(0x0001, 1, []byte{0, 0, 0, 2, 0}))
			time.Sleep(200 * time.Millisecond)
		} else {
			raw.Write(t.Frame(0x0002, 1, nil))
			raw.SetReadDeadline(time.Now().Add(20 * time.Second))
			if _, err := raw.Read(make([]byte, 15)); err != nil {
				raw.Close()
				c.Inconclusive()
				return
			}
		}
		var batch []byte
		for k := 0; k < 1000; k++ {
			batch = append(batch, t.Frame(0x0002, uint16(k+2), nil)...)
		}
		if round%2 == 1 {
			// variant: the writes that fill the buffers are re-requests, not replies — 7 000 transfers (packet 1 of 511, one
			// message ID each) are opened, left alone for 5.3 s, and then the flood of heartbeats begins: the first read after
			// the pause makes the server ask for 510 missing packets of every one of them (7 MB of 0x8003 frames)
			var open []byte
			for k := 0; k < 7000; k++ {
				open = append(open, t.SubFrame(uint16(0x3000+k), uint16(k), 511, 1, []byte{byte(k)})...)
				if len(open) > 50000 {
					raw.Write(open)
					open = open[:0]
				}
			}
			raw.Write(open)
			time.Sleep(5300 * time.Millisecond)
			batch = batch[:0]
			for k := 0; k < 1000; k++ {
				batch = append(batch, t.Frame(0x0001, uint16(k+2), []byte{0, 0, 0, 2, 0})...)
			}
		}
		var stalls atomic.Int64 // consecutive writes of ours that made no progress in 200 ms: the server is not reading THIS connection
		floodStop := make(chan struct{})
		floodDone := make(chan struct{})
		go func() {
			defer close(floodDone)
			pending := batch
			for {
				select {
				case <-floodStop:
					return
				default:
				}
				raw.SetWriteDeadline(time.Now().Add(200 * time.Millisecond))
				n, err := raw.Write(pending)
				pending = pending[n:]
				if len(pending) == 0 {
					pending = batch
				}
				if err != nil {
					if ne, ok := err.(net.Error); !ok || !ne.Timeout() {
						return
					}
					stalls.Add(1)
				} else {
					stalls.Store(0)
				}
			}
		}()
		// wait (bounded) until a writer of the server is parked in its socket write
		parked := false
		for i := 0; i < 120 && !parked; i++ {
			time.Sleep(250 * time.Millisecond)
			parked = stalls.Load() >= 5 && goroutineInIOWaitWrite()
		}
		if !parked {
			close(floodStop)
			<-floodDone
			raw.Close()
			c.Inconclusive() // the situation could not be produced on this machine
			return
		}
		c.Count("servers_writes_parked_by_a_client_that_does_not_read", 1)
		// the platform addresses commands to the silent terminal
		var cwg sync.WaitGroup
		results := make([]string, 6)
		for k := 0; k < 6; k++ {
			cwg.Add(1)
			go func(k int) {
				defer cwg.Done()
				res := sendCmd(srv.G, t.Phone, consts.P8104QueryTerminalParams, nil, 200*time.Millisecond, 75*time.Second)
				results[k] = res.kind
			}(k)
		}
		time.Sleep(500 * time.Millisecond)
		// fresh terminals while the client stays connected and silent
		held := time.Now()
		for p := 0; p < 3; p++ {
			r0 := rounds.Load()
			c.Eval()
			ok, to := c10Probe(srv.Addr, 880000+round*10+p)
			served := rounds.Load() - r0
			switch {
			case ok:
				c.Count("fresh_terminals_served_while_a_client_does_not_read", 1)
			case to && served >= 5:
				c.Violate("stall|a client that stops reading, with platform commands addressed to it, keeps new terminals from being served",
					fmt.Sprintf("a fresh terminal got no answer for 30 s while the two established canary sessions were served %d rounds in that time; the silent client had been connected for %v; service goroutines: %v", served, time.Since(held).Round(time.Second), goroutineDump()), nil)
				p = 3
			case to:
				c.Inconclusive()
				p = 3
			default:
				c.Violate("probe|a fresh connection was not served correctly after hostile connections", "while a client that does not read was connected", nil)
			}
		}
		close(floodStop)
		<-floodDone
		raw.Close()
		cwg.Wait()
		for _, k := range results {
			c.Eval()
			if k == "stranded" {
				c.Violate("stranded|a platform command to a client that stopped reading never returned, not even after it disconnected", fmt.Sprintf("service goroutines: %v", goroutineDump()), nil)
				break
			}
		}
		c.NonTrivial(core.HashString(fmt.Sprintf("stalled/%d/%d", x.Batch, round)))
	}
}

// c10StalledAttachment: the same lifecycle against the attachment server: a client announces a file and then floods 0x1212
// requests for it (each is answered with a retransmission list) without ever reading. Once a reply write is parked it keeps
// the connection for 13 more seconds with more requests buffered behind — longer than a write deadline a server may use —
// while ordinary upload sessions on other connections must complete all the time, and after it has gone.
func c10StalledAttachment(c *core.Collector, x *Ctx) {
	addr, err := att.StartTCP() // default handlers
	if err != nil {
		c.Inconclusive()
		return
	}
	good := func(n int) (ok, timedOut bool) {
		bcd := []byte{0x01, 0x37, 0x00, 0x00, 0x00, byte(n)}
		f := att.File{Name: []byte(fmt.Sprintf("ok%d.bin", n)), Size: 64, Content: bytes.Repeat([]byte{byte(n)}, 64)}
		var writes [][]byte
		serial := uint16(1)
		ctrl := func(id uint16, body []byte) {
			writes = append(writes, ref.Build(ref.Params{ID: id, BCD: bcd, Serial: serial, Body: body}))
			serial++
		}
		ctrl(0x1210, att.Body1210(consts.ActiveSafetyJS, []byte("T1"), []byte("a"), []att.File{f}))
		ctrl(0x1211, att.Body1211(f, 0))
		writes = append(writes, append(att.ChunkHeader(consts.ActiveSafetyJS, f.Name, 0, 64), f.Content...))
		ctrl(0x1212, att.Body1211(f, 0))
		var started atomic.Int64
		res := att.RunTCP(addr, writes, &started, 3)
		if res.TimedOut {
			return false, true
		}
		if len(res.Replies) != 3 || res.Replies[2] == nil || res.Replies[2].ID != 0x9212 {
			return false, false
		}
		return true, false
	}
	bcd := []byte{0x01, 0x37, 0x00, 0x00, 0x99, 0x01}
	f := att.File{Name: []byte("never.bin"), Size: 1 << 20}
	raw, err := net.DialTimeout("tcp", addr, 5*time.Second)
	if err != nil {
		c.Inconclusive()
		return
	}
	defer raw.Close()
	raw.Write(ref.Build(ref.Params{ID: 0x1210, BCD: bcd, Serial: 1, Body: att.Body1210(consts.ActiveSafetyJS, []byte("T1"), []byte("a"), []att.File{f})}))
	raw.Write(ref.Build(ref.Params{ID: 0x1211, BCD: bcd, Serial: 2, Body: att.Body1211(f, 0)}))
	var batch []byte
	for k := 0; k < 500; k++ {
		batch = append(batch, ref.Build(ref.Params{ID: 0x1212, BCD: bcd, Serial: uint16(3 + k), Body: att.Body1211(f, 0)})...)
	}
	parkedAt := time.Time{}
	pending := batch
	start := time.Now()
	probes, served := 0, 0
	for time.Since(start) < 60*time.Second {
		raw.SetWriteDeadline(time.Now().Add(200 * time.Millisecond))
		n, err := raw.Write(pending)
		pending = pending[n:]
		if len(pending) == 0 {
			pending = batch
		}
		if err != nil {
			if ne, ok := err.(net.Error); !ok || !ne.Timeout() {
				break // the server has ended the connection: fine
			}
			if parkedAt.IsZero() && goroutineRunning("attachment.(*connection).run") {
				var buf bytes.Buffer
				pprof.Lookup("goroutine").WriteTo(&buf, 2)
				for _, g := range strings.Split(buf.String(), "\n\n") {
					if strings.Contains(g, "IO wait") && strings.Contains(g, "internal/poll.(*FD).Write") && strings.Contains(g, "attachment.(*connection).run") {
						parkedAt = time.Now()
					}
				}
			}
		}
		if !parkedAt.IsZero() {
			if time.Since(parkedAt) > 13*time.Second {
				break
			}
			// an ordinary session every second or so
			if int(time.Since(parkedAt)/time.Second) >= probes {
				probes++
				c.Eval()
				ok, to := good(probes)
				switch {
				case ok:
					served++
				case to:
					c.Inconclusive()
				default:
					c.Violate("probe|a fresh connection was not served correctly after hostile connections", "attachment server, while a client that does not read was connected", nil)
					return
				}
			}
		}
	}
	if parkedAt.IsZero() {
		c.Inconclusive()
		return
	}
	raw.Close()
	c.Eval()
	if ok, to := good(99); to {
		c.Inconclusive()
	} else if !ok {
		c.Violate("probe|a fresh connection was not served correctly after hostile connections", "attachment server, after a client that did not read has gone", nil)
	}
	c.Count("attachment_sessions_served_while_a_client_does_not_read", int64(served))
	if served < 3 {
		c.Inconclusive()
	}
}
