package checks

import (
	"verif/harness/internal/core"
	"verif/harness/internal/ref"
)

// C09 — delivered messages are stable.
// Part "hook": every message returned by the real stream parser is snapshotted at delivery and re-read after every
// later read and after the end-of-connection clear; the hook reproduces connection.reader's reused 1023-byte buffer.
// Part "socket": equal-length pipelined frames with unique tokens against a live server under delay injection
// and the race detector (svc_c09.go).

func init() {
	register(core.Plan{
		Property: "C09", Level: "exploration",
		Parts: func(tier string) []core.Part {
			return []core.Part{
				{Name: "hook", Bin: "plain", Batches: 1, TimeoutS: 1200},
				{Name: "socket", Bin: "raceov", Batches: c09Batches(tier), Parallel: 4, TimeoutS: 900, Env: []string{"VERIF_YIELD=1"}},
			}
		},
		Assumptions: []string{
			"hook service.VerifParser keeps the live *Message pointers and copies every read into one reused buffer, as connection.reader does",
			"socket part: the schedules explored are those produced by seeded delay injection at every channel operation / socket write of package service",
		},
	}, map[string]Worker{"hook": c09Hook, "socket": c09Socket})
}

func c09Batches(tier string) int {
	if tier == "thorough" {
		return 12
	}
	return 3
}

func c09Hook(c *core.Collector, x *Ctx) {
	c.Rule = "frame sequences through the real parser: equal-length escape-free frames with different content one per read (the next read overwrites the same buffer bytes), escaped frames, several frames per read, frames split across reads, " +
		"sub-packaged transfers in every order for N<=4 and random N<=12 interleaved with plain frames, incomplete transfers aged past the 5 s re-request and 60 s expiry thresholds; after EVERY later read and after the end-of-connection clear each delivered message is compared with its snapshot. " +
		"non-trivial = scenario with >= 2 delivered messages; distinct by hash of the reads"
	cats := map[string]bool{"stable": true}
	delivered := c.Counter("scenarios")
	run := func(gen string, frames [][]byte, cuts []int, cutsGiven bool) {
		var stream []byte
		var ends []int
		for _, f := range frames {
			stream = append(stream, f...)
			ends = append(ends, len(stream))
		}
		if !cutsGiven {
			cuts = ends
		}
		sc := &hookScenario{Kind: "hook", Gen: gen, Frames: hexAll(frames), Ops: opsFromCuts(stream, cuts)}
		hookEval(c, sc, cats, len(frames) >= 2)
		delivered.Add(1)
		if c.WantSample() && len(stream) < 120 && len(frames) >= 3 {
			c.Sample(map[string]any{"gen": gen, "frames": sc.Frames, "reads": len(sc.Ops)})
		}
	}
	// timer paths: an incomplete transfer, 5.5 s / 61 s of (virtual) idle time, then more traffic — the re-request and the expiry
	// are built from state that delivered messages may share (the first packet's header)
	na := c.N(300, 6000)
	core.ParallelFor(na, ncpu(), func(i int) {
		r := core.NewRand(c.Seed, "c09age", uint64(i))
		N := 2 + r.Intn(5)
		v := r.Bool()
		id := core.Pick(r, []uint16{0x0801, 0x0704, 0x0200})
		bodies := c05Bodies(r, N, r.Intn(4))
		var frames [][]byte
		var ops []hookOp
		feed := func(f []byte) {
			frames = append(frames, f)
			for _, sg := range hookSplit(f) {
				ops = append(ops, hookOp{Feed: core.Hex(sg)})
			}
		}
		feed(hookFrameV(v, id, uint16(100+i%50), true, uint16(N), 1, bodies[0]))
		var missing []int
		for k := 2; k <= N; k++ {
			if r.Bool() || (k == N && len(missing) == 0) {
				missing = append(missing, k)
			} else {
				feed(hookFrameV(v, id, uint16(200+k), true, uint16(N), uint16(k), bodies[k-1]))
			}
		}
		ops = append(ops, hookOp{AgeMs: 5600})
		feed(hookFrameV(v, 0x0002, 1, false, 0, 0, nil)) // re-request produced here
		ops = append(ops, hookOp{AgeMs: 5600})
		feed(hookFrameV(v, 0x0002, 2, false, 0, 0, nil)) // and again
		if i%2 == 0 {
			for _, k := range missing {
				feed(hookFrameV(v, id, uint16(300+k), true, uint16(N), uint16(k), bodies[k-1]))
			}
		} else {
			ops = append(ops, hookOp{AgeMs: 61000})
			feed(hookFrameV(v, 0x0002, 3, false, 0, 0, nil)) // expiry noticed here
		}
		feed(hookFrameV(v, 0x0200, 4, false, 0, 0, c04Body(r, 2, 28)))
		sc := &hookScenario{Kind: "hook", Gen: "transfer with timer paths (re-request, expiry)", Frames: hexAll(frames), Ops: ops}
		hookEval(c, sc, cats, true)
		delivered.Add(1)
	})
	// frames of the tolerated dialect (check code 0x7D sent raw) followed by escaped frames: the decoder's special exit for them
	nd := c.N(400, 8000)
	core.ParallelFor(nd, ncpu(), func(i int) {
		r := core.NewRand(c.Seed, "c09raw7d", uint64(i))
		var fs [][]byte
		for q := 0; q < 2+r.Intn(5); q++ {
			v := r.Bool()
			body := c04Body(r, r.Intn(4), 1+r.Intn(40))
			f := hookFrameV(v, core.Pick(r, []uint16{0x0200, 0x0002, 0x0102}), uint16(q+1), false, 0, 0, body)
			if q%2 == 0 {
				// rebuild with the check code steered to 0x7D and left unescaped
				rf, _ := ref.Validate(f)
				pp := ref.Payload(ref.Params{ID: rf.ID, V2019: rf.V2019, VersionByt: 1, BCD: rf.BCD, Serial: rf.Serial, Body: rf.Body})
				pp[len(pp)-2] ^= pp[len(pp)-1] ^ 0x7d
				pp = c02Fix(pp)
				if pp[len(pp)-1] == 0x7d && pp[len(pp)-2] != 0x7d && pp[len(pp)-2] != 0x7e {
					e2 := ref.Escape(pp[:len(pp)-1])
					f = append(e2[:len(e2)-1], 0x7d, 0x7e)
				}
			}
			fs = append(fs, f)
		}
		run("raw-7d-checksum dialect mixed with escaped frames", fs, nil, false)
	})
	n := c.N(4000, 300000)
	core.ParallelFor(n, ncpu(), func(i int) {
		r := core.NewRand(c.Seed, "c09", uint64(i))
		switch i % 4 {
		case 0: // equal-length frames, one per read
			k := 2 + r.Intn(6)
			l := r.Intn(40)
			class := 2 // escape-free
			if r.Chance(1, 3) {
				class = r.Intn(4)
			}
			var fs [][]byte
			v := r.Bool()
			id := core.Pick(r, []uint16{0x0200, 0x0002, 0x0102, 0x0801})
			for q := 0; q < k; q++ {
				b := c04Body(r, class, l)
				if l > 0 {
					b[0] = byte(0x21 + q)
				}
				fs = append(fs, hookFrame(v, id, uint16(q+1), false, 0, 0, b))
			}
			run("equal-length one-per-read", fs, nil, false)
		case 1: // mixed frames, random segmentation
			fs := c04Frames(r, 2+r.Intn(6), 60)
			n := 0
			for _, f := range fs {
				n += len(f)
			}
			var cuts []int
			for q := r.Intn(8); q > 0; q-- {
				cuts = append(cuts, 1+r.Intn(n))
			}
			run("mixed random-cuts", fs, cuts, true)
			run("mixed one-per-read", fs, nil, false)
		case 2: // sub-packaged transfer, one packet per read, followed by more traffic
			N := 2 + r.Intn(11)
			bodies := c05Bodies(r, N, r.Intn(4))
			p := r.Perm(N - 1)
			order := []int{1}
			for _, q := range p {
				order = append(order, q+2)
			}
			fs := c05Scenario(r.Bool(), 0x0801, N, order, bodies, -1, -1, 0, r.Intn(N+1))
			fs = append(fs, c04Frames(r, 1+r.Intn(3), 30)...)
			run("transfer one-per-read", fs, nil, false)
		case 3: // every order for small N, equal lengths, escape-free
			N := 2 + r.Intn(3)
			rest := []int{}
			for k := 2; k <= N; k++ {
				rest = append(rest, k)
			}
			ps := perms(rest)
			order := append([]int{1}, ps[r.Intn(len(ps))]...)
			bodies := c05Bodies(r, N, 2)
			fs := c05Scenario(false, 0x0801, N, order, bodies, -1, -1, 0, -1)
			fs = append(fs, hookFrame(false, 0x0002, 77, false, 0, 0, nil))
			run("transfer equal-length", fs, nil, false)
		}
	})
	c.Floor("scenarios", 1000)
}
