package checks

import (
	"bytes"
	"encoding/binary"
	"fmt"
	"net"
	"sync/atomic"
	"time"

	"verif/harness/internal/core"
	"verif/harness/internal/ref"
	"verif/harness/internal/svc"
)

// C06, part stalled-then-resumed: a terminal that pipelines heartbeats and does not read for a while (a link that stalls in one
// direction), then reads again. It floods until a reply write of the server is seen parked (goroutine dump), stays silent for
// 12.5 s (longer than the deadline the server puts on its writes), then reads whatever comes until the end of the stream or 3 s
// of quiet. Whatever the server decided to do with that connection, the bytes the terminal receives are frames: reply i is the
// general response to request i, with platform serial i; the stream may END early (a server that gives up on the connection
// closes it, possibly in the middle of a frame), but after a frame that was cut short nothing follows.
// (seed C06s1: after a write timeout, with part of a frame written, the writer carries on with the next reply.)
func c06Stalled(c *core.Collector, x *Ctx) {
	c.Rule = "one terminal: join, then a flood of pipelined heartbeats without reading until a reply write of the server is parked (goroutine dump), 12.5 s of silence, then everything is read. " +
		"oracle over the received byte stream: frame i is the 0x8001 for request i with platform serial i; a frame that is cut short is the last thing received. evaluation = one received frame"
	srv, err := svc.Start(nil)
	if err != nil {
		c.Inconclusive()
		return
	}
	t, err := svc.Dial(srv.Addr, c.Seed%2 == 1, fmt.Sprintf("%d", 6600000+c.Seed%1000))
	if err != nil {
		c.Inconclusive()
		return
	}
	t.Close() // lends its frame builder only
	raw, err := net.DialTimeout("tcp", srv.Addr, 5*time.Second)
	if err != nil {
		c.Inconclusive()
		return
	}
	defer raw.Close()
	raw.SetWriteDeadline(time.Now().Add(20 * time.Second))
	raw.Write(t.Frame(0x0002, 1, nil))
	raw.SetReadDeadline(time.Now().Add(20 * time.Second))
	head := make([]byte, 0, 64)
	one := make([]byte, 1)
	for n7e := 0; n7e < 2; {
		if _, err := raw.Read(one); err != nil {
			c.Inconclusive()
			return
		}
		head = append(head, one[0])
		if one[0] == 0x7e {
			n7e++
		}
	}
	// request k (k >= 1) of the flood has serial 2 + (k-1) mod 1000
	var batch []byte
	for k := 0; k < 1000; k++ {
		batch = append(batch, t.Frame(0x0002, uint16(k+2), nil)...)
	}
	var stalls atomic.Int64
	floodStop := make(chan struct{})
	floodDone := make(chan struct{})
	go func() {
		defer close(floodDone)
		pending := batch
		for {
			select {
			case <-floodStop:
				return
			default:
			}
			raw.SetWriteDeadline(time.Now().Add(200 * time.Millisecond))
			n, err := raw.Write(pending)
			pending = pending[n:]
			if len(pending) == 0 {
				pending = batch
			}
			if err != nil {
				if ne, ok := err.(net.Error); !ok || !ne.Timeout() {
					return
				}
				stalls.Add(1)
			} else {
				stalls.Store(0)
			}
		}
	}()
	parked := false
	for i := 0; i < 120 && !parked; i++ {
		time.Sleep(250 * time.Millisecond)
		parked = stalls.Load() >= 5 && goroutineInIOWaitWrite()
	}
	close(floodStop)
	<-floodDone
	if !parked {
		c.Inconclusive() // the situation could not be produced on this machine
		return
	}
	c.Count("reply_writes_parked_by_a_terminal_that_does_not_read", 1)
	time.Sleep(12500 * time.Millisecond)
	// read everything
	stream := append([]byte{}, head...)
	buf := make([]byte, 1<<16)
	ended := false
	for total := 0; total < 1<<28; {
		raw.SetReadDeadline(time.Now().Add(3 * time.Second))
		n, err := raw.Read(buf)
		stream = append(stream, buf[:n]...)
		total += n
		if err != nil {
			if ne, ok := err.(net.Error); !ok || !ne.Timeout() {
				ended = true // EOF / reset: the server closed the connection
			}
			break
		}
	}
	c.Count("bytes_received_after_the_silence", int64(len(stream)))
	if ended {
		c.Count("connections_the_server_gave_up_on", 1)
	}
	// split at the delimiters: [7e payload 7e][7e payload 7e]...
	wit := map[string]any{"terminal": t.Phone, "bytes_received": len(stream), "stream_ended": ended}
	i, frames := 0, 0
	for i < len(stream) {
		if stream[i] != 0x7e {
			c.Violate("stalled|bytes between two reply frames", fmt.Sprintf("offset %d of %d: %s", i, len(stream), core.HexCap(stream[i:], 40)), wit)
			return
		}
		j := bytes.IndexByte(stream[i+1:], 0x7e)
		if j < 0 {
			// a frame without its closing delimiter: legitimate only as the very end of a stream that ended
			if !ended {
				c.Violate("stalled|a reply frame was cut short and the connection stayed open", fmt.Sprintf("frame %d at offset %d of %d: %s", frames, i, len(stream), core.HexCap(stream[i:], 40)), wit)
			}
			c.Count("streams_ending_inside_a_frame", 1)
			break
		}
		seg := stream[i : i+j+2]
		f, ok := ref.Validate(seg)
		c.Eval()
		wantEcho := uint16(1)
		if frames > 0 {
			wantEcho = uint16(2 + (frames-1)%1000)
		}
		switch {
		case !ok:
			rest := len(stream) - (i + j + 2)
			c.Violate("stalled|a reply frame was cut short and the connection went on with the next reply", fmt.Sprintf("frame %d at offset %d does not decode (%s); %d more bytes follow it, stream ended=%v", frames, i, core.HexCap(seg, 40), rest, ended), wit)
			return
		case f.ID != 0x8001 || len(f.Body) != 5 || binary.BigEndian.Uint16(f.Body) != wantEcho || binary.BigEndian.Uint16(f.Body[2:]) != 0x0002 || f.Body[4] != 0:
			c.Violate("stalled|reply i is not the general response to request i", fmt.Sprintf("frame %d: id %04x body %x, request %d had serial %d", frames, f.ID, f.Body, frames, wantEcho), wit)
			return
		case f.Serial != uint16(frames):
			c.Violate("stalled|platform serials of the replies are not consecutive", fmt.Sprintf("frame %d carries platform serial %d", frames, f.Serial), wit)
			return
		}
		frames++
		i += j + 2
	}
	c.Count("reply_frames_checked_after_the_silence", int64(frames))
	c.NonTrivial(core.HashString(fmt.Sprintf("stalled/%d/%v", frames, ended)))
	c.Floor("reply_frames_checked_after_the_silence", 100)
}
