package checks

import (
	"fmt"

	"verif/harness/internal/core"
)

// C14 — missing sub-packages are re-requested exactly, stale transfers expire.
// Virtual time through the parser hook (Age) decides both directions of every threshold; no verdict depends
// on the wall clock (a scenario during which > 250 ms of real time passed is retried / inconclusive).

func init() {
	register(core.Plan{
		Property: "C14", Level: "exploration",
		Parts: func(tier string) []core.Part {
			ps := []core.Part{{Name: "virtual-time", Bin: "plain", Batches: 1, TimeoutS: 1800}}
			if tier == "thorough" {
				ps = append(ps, core.Part{Name: "real-time", Bin: "race", Batches: 1, TimeoutS: 600})
			} else {
				ps = append(ps, core.Part{Name: "real-time-short", Bin: "plain", Batches: 1, TimeoutS: 300})
			}
			return ps
		},
		Assumptions: []string{
			"hook Age(d) makes every pending transfer d older (creation and last-update time): virtual passage of time",
			"R-reasm timer rules: re-request on inbound data when idle >= 5 s since the last packet or last re-request; expiry at >= 60 s since packet 1, applied before the packets of the read that notices it",
			"idle times are kept >= 400 ms away from the 5 s / 60 s thresholds so that microseconds of real execution time cannot flip a verdict",
		},
	}, map[string]Worker{"virtual-time": c14Worker, "real-time": c14RealTime, "real-time-short": c14RealTimeShort})
}

func c14Worker(c *core.Collector, x *Ctx) {
	c.Rule = "N=2..9 with EVERY non-empty subset of {2..N} missing; random N<=255 (all-but-first, only-last, random subsets); idle 4.5 s (nothing) / 5.5 s (exactly one re-request: first packet's serial, ascending missing list); " +
		"second read right after (nothing: at most once per 5 s); further rounds with partial resupply (the next re-request names exactly the remainder); resupply completes with the right body; ageing to 59 s (completes) and 61 s (never delivered, also after the remaining packets arrive); 2-3 message IDs pending concurrently with different ages. " +
		"distinct by hash of the operation list"
	cats := map[string]bool{"timer": true, "reasm": true}
	hb := func(serial uint16) []byte { return hookFrame(false, 0x0002, serial, false, 0, 0, nil) }
	type builder struct {
		frames [][]byte
		ops    []hookOp
	}
	feed := func(b *builder, f []byte) {
		b.frames = append(b.frames, f)
		for _, s := range hookSplit(f) {
			b.ops = append(b.ops, hookOp{Feed: core.Hex(s)})
		}
	}
	age := func(b *builder, ms int64) { b.ops = append(b.ops, hookOp{AgeMs: ms}) }
	// feedCut: the frame arrives in two reads (TCP does not respect frame boundaries): "the next inbound data" after an idle
	// spell is then a read that completes no frame
	feedCut := func(b *builder, f []byte, at int) {
		b.frames = append(b.frames, f)
		b.ops = append(b.ops, hookOp{Feed: core.Hex(f[:at])}, hookOp{Feed: core.Hex(f[at:])})
	}
	run := func(gen string, b *builder) {
		sc := &hookScenario{Kind: "hook", Gen: gen, Frames: hexAll(b.frames), Ops: b.ops}
		hookEval(c, sc, cats, true)
		if c.WantSample() && len(b.ops) < 14 {
			c.Sample(map[string]any{"gen": gen, "ops": b.ops})
		}
	}
	// ---- every non-empty missing subset for N = 2..Nmax
	Nmax := c.N(9, 11)
	type job struct{ N, mask int }
	var jobs []job
	for N := 2; N <= Nmax; N++ {
		for mask := 1; mask < 1<<(N-1); mask++ {
			jobs = append(jobs, job{N, mask})
		}
	}
	core.ParallelFor(len(jobs), ncpu(), func(ji int) {
		j := jobs[ji]
		r := core.NewRand(c.Seed, "c14", uint64(ji))
		id := core.Pick(r, []uint16{0x0801, 0x0704, 0x0200})
		first := r.U16()
		v19 := ji%2 == 1
		hookFrame := func(_ bool, id, serial uint16, frag bool, sum, no uint16, body []byte) []byte {
			return hookFrameV(v19, id, serial, frag, sum, no, body)
		}
		hb := func(serial uint16) []byte { return hookFrameV(v19, 0x0002, serial, false, 0, 0, nil) }
		for variant := 0; variant < 8; variant++ {
			bodies := c05Bodies(r, j.N, variant&1)
			b := &builder{}
			var missing []int
			feed(b, hookFrame(false, id, first, true, uint16(j.N), 1, bodies[0]))
			for k := 2; k <= j.N; k++ {
				if j.mask>>(k-2)&1 == 1 {
					missing = append(missing, k)
				} else {
					if variant == 4 {
						age(b, 2600) // a slow but active transfer: every arrival restarts the 5 s idle period
					}
					feed(b, hookFrame(false, id, uint16(1000+k), true, uint16(j.N), uint16(k), bodies[k-1]))
				}
			}
			if variant == 6 || variant == 7 {
				// the terminal abandons this incomplete message and starts a NEW one with the same ID (other serials, other
				// bodies, the same packets missing): the re-request names the NEW first packet and the new body is delivered
				age(b, 1200)
				nb := c05Bodies(r, j.N, 1)
				nfirst := first + 200
				feed(b, hookFrame(false, id, nfirst, true, uint16(j.N), 1, nb[0]))
				for k := 2; k <= j.N; k++ {
					if j.mask>>(k-2)&1 == 0 {
						feed(b, hookFrame(false, id, uint16(5000+k), true, uint16(j.N), uint16(k), nb[k-1]))
					}
				}
				age(b, 4500)
				feed(b, hb(1))
				age(b, 1000)
				feed(b, hb(2)) // exactly one re-request, naming nfirst
				if variant == 7 {
					// the restarted transfer is slow: its missing packets come 50 s later — 55.5 s after ITS packet 1 (in time),
					// but more than 60 s after the packet 1 of the attempt it replaced
					age(b, 50000)
				}
				for _, k := range missing {
					feed(b, hookFrame(false, id, uint16(6000+k), true, uint16(j.N), uint16(k), nb[k-1]))
				}
				run(fmt.Sprintf("subset variant=%d (abandoned and restarted)", variant), b)
				continue
			}
			if variant == 4 {
				age(b, 3000)
				feed(b, hb(8)) // 3 s after the last arrival (although > 5 s after the transfer began): nothing
				age(b, 2600)
				feed(b, hb(9)) // 5.6 s idle: exactly one re-request
				for i := len(missing) - 1; i >= 0; i-- {
					k := missing[i]
					age(b, 2600)
					feed(b, hookFrame(false, id, uint16(2000+k), true, uint16(j.N), uint16(k), bodies[k-1]))
					feed(b, hb(uint16(20+i))) // inbound data right after a resupplied packet: nothing
				}
				run("subset variant=4 (arrivals spread over time)", b)
				continue
			}
			age(b, 4500)
			feed(b, hb(1)) // idle < 5 s: nothing
			age(b, 1000)
			feed(b, hb(2)) // idle 5.5 s: exactly one re-request
			feed(b, hb(3)) // immediately again: nothing (at most once per 5 s)
			switch variant {
			case 0: // resupply everything, newest first
				for i := len(missing) - 1; i >= 0; i-- {
					k := missing[i]
					feed(b, hookFrame(false, id, uint16(2000+k), true, uint16(j.N), uint16(k), bodies[k-1]))
				}
			case 1: // partial resupply, idle again, second round names the remainder
				half := len(missing) / 2
				for _, k := range missing[:half] {
					feed(b, hookFrame(false, id, uint16(2000+k), true, uint16(j.N), uint16(k), bodies[k-1]))
				}
				age(b, 5600)
				if ji%2 == 0 {
					feedCut(b, hb(4), 1+r.Intn(12)) // the re-request is owed at the first of the two reads
				} else {
					feed(b, hb(4))
				}
				age(b, 4400)
				feed(b, hb(5)) // 4.4 s after the second re-request: nothing
				for _, k := range missing[half:] {
					feed(b, hookFrame(false, id, uint16(3000+k), true, uint16(j.N), uint16(k), bodies[k-1]))
				}
			case 2: // let it age to 59 s (re-requests keep coming every > 5 s), then resupply: still completes
				for t := int64(5500); t+5600 < 59000; t += 5600 {
					age(b, 5600)
					feed(b, hb(uint16(10+t/1000)))
				}
				// now at 5.5 + 9*5.6 = 55.9 s
				age(b, 3100) // 59.0 s
				for _, k := range missing {
					feed(b, hookFrame(false, id, uint16(2000+k), true, uint16(j.N), uint16(k), bodies[k-1]))
				}
			case 5: // expiry, then a NEW transfer with the same ID and other bodies: exactly the new body is delivered
				age(b, 55500)
				feed(b, hb(6))
				nb := c05Bodies(r, j.N, 1)
				feed(b, hookFrame(false, id, first+7, true, uint16(j.N), 1, nb[0]))
				for k := j.N; k >= 2; k-- {
					feed(b, hookFrame(false, id, uint16(4000+k), true, uint16(j.N), uint16(k), nb[k-1]))
				}
			case 3: // 61 s: the transfer is discarded; the remaining packets arrive afterwards and nothing is delivered
				age(b, 55500) // 61.0 s since packet 1
				if r.Bool() {
					feed(b, hb(6)) // inbound data notices the expiry
				}
				for _, k := range missing {
					feed(b, hookFrame(false, id, uint16(2000+k), true, uint16(j.N), uint16(k), bodies[k-1]))
				}
				feed(b, hb(7))
			}
			if variant != 3 {
				// the message is complete (or replaced by a complete one): quiet for 5.6 s, inbound data, 5.6 s again, inbound
				// data — nothing is missing any more, so nothing is asked for
				age(b, 5600)
				feed(b, hb(40))
				age(b, 5600)
				feed(b, hb(41))
			}
			run(fmt.Sprintf("subset variant=%d", variant), b)
		}
	})
	c.Count("missing_subsets_enumerated", int64(len(jobs)))
	c.Exh = true
	// ---- large N
	nl := c.N(300, 20000)
	core.ParallelFor(nl, ncpu(), func(i int) {
		r := core.NewRand(c.Seed, "c14l", uint64(i))
		N := 10 + r.Intn(246)
		if r.Chance(1, 6) {
			N = 255
		}
		if i < 12 {
			// the re-request's count field is one byte: transfers whose missing set has 254, 255 and 256 members (N = 255, 256, 257
			// with only packet 1 held), and 255 missing out of more
			N = []int{255, 256, 257, 256, 300, 511}[i%6]
		}
		bodies := c05Bodies(r, N, r.Intn(2))
		b := &builder{}
		id := uint16(0x0801)
		first := r.U16()
		feed(b, hookFrame(false, id, first, true, uint16(N), 1, bodies[0]))
		var missing []int
		mode := r.Intn(4)
		if i < 12 {
			mode = 0
		}
		for k := 2; k <= N; k++ {
			miss := false
			switch mode {
			case 0:
				miss = true // all but the first
				if i < 12 && N >= 300 {
					miss = k <= 256 // exactly 255 missing, the rest held
				}
			case 1:
				miss = k == N // only the last
			case 2:
				miss = r.Chance(1, 2)
			default:
				miss = r.Chance(1, 10)
			}
			if k == N && len(missing) == 0 {
				miss = true
			}
			if miss {
				missing = append(missing, k)
			} else {
				feed(b, hookFrame(false, id, uint16(1000+k), true, uint16(N), uint16(k), bodies[k-1]))
			}
		}
		age(b, 5500)
		feed(b, hb(1))
		p := r.Perm(len(missing))
		for _, q := range p {
			k := missing[q]
			feed(b, hookFrame(false, id, uint16(2000+k), true, uint16(N), uint16(k), bodies[k-1]))
		}
		run("large-N", b)
	})
	// ---- several message IDs pending concurrently with different ages
	nm := c.N(300, 20000)
	core.ParallelFor(nm, ncpu(), func(i int) {
		r := core.NewRand(c.Seed, "c14m", uint64(i))
		ids := []uint16{0x0801, 0x0704, 0x0200}
		nid := 2 + r.Intn(2)
		b := &builder{}
		type tr struct {
			id      uint16
			N       int
			bodies  [][]byte
			missing []int
		}
		var trs []tr
		for q := 0; q < nid; q++ {
			N := 2 + r.Intn(6)
			t := tr{id: ids[q], N: N, bodies: c05Bodies(r, N, r.Intn(2))}
			feed(b, hookFrame(false, t.id, uint16(100*q+1), true, uint16(N), 1, t.bodies[0]))
			for k := 2; k <= N; k++ {
				if r.Chance(1, 2) || (k == N && len(t.missing) == 0) {
					t.missing = append(t.missing, k)
				} else {
					feed(b, hookFrame(false, t.id, uint16(100*q+k), true, uint16(N), uint16(k), t.bodies[k-1]))
				}
			}
			trs = append(trs, t)
			age(b, int64(core.Pick(r, []int{600, 2000, 5500, 9000}))) // stagger the transfers
		}
		// a series of reads at various distances; ages chosen from a grid that keeps every transfer >= 400 ms from a threshold is not
		// guaranteed here, so only grid steps of 5.6 s / 0.5 s are used after an initial alignment read
		for step := 0; step < 6; step++ {
			age(b, int64(core.Pick(r, []int{5600, 11200})))
			if r.Chance(1, 3) {
				// the inbound data that lets the server look at its timers is itself a sub-package: a duplicate of a packet
				// (number >= 2) that one of the transfers already holds
				t := trs[r.Intn(len(trs))]
				k := 2 + r.Intn(t.N-1)
				held := true
				for _, m := range t.missing {
					if m == k {
						held = false
					}
				}
				if held {
					feed(b, hookFrame(false, t.id, uint16(700+step), true, uint16(t.N), uint16(k), t.bodies[k-1]))
				} else {
					feed(b, hb(uint16(500+step)))
				}
			} else {
				feed(b, hb(uint16(500+step)))
			}
			if r.Chance(1, 3) {
				t := trs[r.Intn(len(trs))]
				if len(t.missing) > 0 {
					k := t.missing[r.Intn(len(t.missing))]
					feed(b, hookFrame(false, t.id, uint16(900+k), true, uint16(t.N), uint16(k), t.bodies[k-1]))
				}
			}
		}
		sc := &hookScenario{Kind: "hook", Gen: "concurrent-ids", Frames: hexAll(b.frames), Ops: b.ops}
		// discard scenarios whose virtual clock comes within 400 ms of a threshold (decided by the reference model itself)
		if c14NearThreshold(sc) {
			c.Count("scenarios_skipped_near_threshold", 1)
			return
		}
		hookEval(c, sc, cats, true)
	})
	// ---- overlapping transfers of three message IDs where ONE read both ends the oldest transfer (its last packet, or its packet 1
	// once more = a restart) and begins a new one, while a third, stalled transfer sits in between: each transfer's 60 s are
	// counted from ITS OWN packet 1, whatever else began or ended in the reads around it. (seed C14u1: a cached "oldest transfer"
	// pointer that the read described above moves to the newest record.)
	no := c.N(600, 20000)
	core.ParallelFor(no, ncpu(), func(i int) {
		r := core.NewRand(c.Seed, "c14o", uint64(i))
		pm := r.Perm(3)
		ids := []uint16{[]uint16{0x0801, 0x0704, 0x0200}[pm[0]], []uint16{0x0801, 0x0704, 0x0200}[pm[1]], []uint16{0x0801, 0x0704, 0x0200}[pm[2]]}
		X, Y, Z := ids[0], ids[1], ids[2]
		b := &builder{}
		small := func(n int) [][]byte { // short bodies: two frames must fit one 1023-byte read
			bs := c05Bodies(r, n, 1)
			for k := range bs {
				if len(bs[k]) > 120 {
					bs[k] = bs[k][:120]
				}
			}
			return bs
		}
		xb, yb, zb := small(2), small(3), small(2)
		feed(b, hookFrame(false, X, 10, true, 2, 1, xb[0]))
		age(b, int64(core.Pick(r, []int{600, 2000, 7000})))
		feed(b, hookFrame(false, Y, 20, true, 3, 1, yb[0]))
		yHeld := 2 + r.Intn(2) // Y holds packets 1 and yHeld, the third one never comes in time
		feed(b, hookFrame(false, Y, 21, true, 3, uint16(yHeld), yb[yHeld-1]))
		a2 := int64(core.Pick(r, []int{10000, 20000, 30000, 45000}))
		age(b, a2)
		// the read that ends X and begins Z
		restart := r.Chance(1, 3)
		var xf []byte
		if restart {
			xb = small(2)
			xf = hookFrame(false, X, 30, true, 2, 1, xb[0])
		} else {
			xf = hookFrame(false, X, 11, true, 2, 2, xb[1])
		}
		zf := hookFrame(false, Z, 40, true, 2, 1, zb[0])
		both := append(append([]byte{}, xf...), zf...)
		if r.Bool() {
			both = append(append([]byte{}, zf...), xf...)
		}
		if len(both) > 1000 {
			return
		}
		b.frames = append(b.frames, xf, zf)
		b.ops = append(b.ops, hookOp{Feed: core.Hex(both)})
		yTotal := int64(core.Pick(r, []int{55000, 61000, 61000, 65000, 80000})) // Y's age when its last packet finally arrives
		age(b, yTotal-a2)
		if r.Bool() {
			feed(b, hb(50)) // inbound data notices what is overdue
		}
		yMiss := 5 - yHeld
		feed(b, hookFrame(false, Y, 22, true, 3, uint16(yMiss), yb[yMiss-1])) // delivered only if Y is younger than 60 s
		feed(b, hookFrame(false, Z, 41, true, 2, 2, zb[1]))                   // Z likewise, by its own clock
		if restart {
			feed(b, hookFrame(false, X, 31, true, 2, 2, xb[1]))
		}
		feed(b, hb(51))
		sc := &hookScenario{Kind: "hook", Gen: "overlapping-transfers (one read ends the oldest and begins a new one)", Frames: hexAll(b.frames), Ops: b.ops}
		if c14NearThreshold(sc) {
			c.Count("scenarios_skipped_near_threshold", 1)
			return
		}
		c.Count("overlapping_transfer_scenarios", 1)
		hookEval(c, sc, cats, true)
	})
	c.Floor("overlapping_transfer_scenarios", 100)
	c.Floor("missing_subsets_enumerated", 200)
}

// c14NearThreshold replays only the reference model to see whether any read happens within 400 ms of a 5 s / 60 s threshold.
func c14NearThreshold(sc *hookScenario) bool {
	return hookModelNear(sc, 400)
}
