package checks

import (
	"bytes"
	"fmt"

	"verif/harness/internal/core"
)

// C05 — sub-package reassembly delivers exactly the original message.
// Part "reasm": deterministic, through the parser hook with R-reasm as oracle.
// Part "socket": sampled orders over loopback TCP against a live default-configured server (see svc_c05 in svc.go).

func init() {
	register(core.Plan{
		Property: "C05", Level: "exploration",
		Parts: func(tier string) []core.Part {
			return []core.Part{
				{Name: "reasm", Bin: "plain", Batches: 1, TimeoutS: 1800},
				{Name: "socket", Bin: "race", Batches: 1, TimeoutS: 900},
			}
		},
		Assumptions: []string{
			"R-reasm (internal/ref/reasm.go): packet 1 opens a transfer, slots 1..N, complete when the last missing one arrives, numbers 0 and >N ignored",
			"not demanded (property does not state it): contradictory totals, empty packet bodies, a second packet 1 while a transfer is open",
		},
	}, map[string]Worker{"reasm": c05Worker, "socket": c05Socket})
}

func perms(a []int) [][]int {
	if len(a) <= 1 {
		return [][]int{append([]int{}, a...)}
	}
	var out [][]int
	for i := range a {
		rest := append(append([]int{}, a[:i]...), a[i+1:]...)
		for _, p := range perms(rest) {
			out = append(out, append([]int{a[i]}, p...))
		}
	}
	return out
}

// c05Bodies: n non-empty packet bodies with unique content.
func c05Bodies(r *core.Rand, n int, class int) [][]byte {
	bs := make([][]byte, n)
	eq := 3 + r.Intn(20)
	for i := range bs {
		l := 1 + r.Intn(24)
		if class&2 != 0 {
			l = eq // equal lengths: a later packet overwrites the same buffer bytes
		}
		if class&4 != 0 && r.Chance(1, 3) {
			l = 600 + r.Intn(400)
		}
		b := make([]byte, l)
		for j := range b {
			if class&1 == 0 {
				b[j] = byte(0x10*(i%7+1)) + byte(j%13) // escape-free: takes the parser's zero-copy fast path
			} else {
				b[j] = []byte{0x7e, 0x7d, r.Byte()}[r.Intn(3)]
			}
		}
		// unique token
		if l >= 3 {
			b[0], b[1], b[2] = byte(0x20+i), byte(0x30+i%64), byte(0x21+r.Intn(0x50))
		} else {
			b[0] = byte(0x21 + i)
		}
		bs[i] = b
	}
	return bs
}

type c05Step struct {
	frame []byte
}

// c05Scenario builds the frame list for one arrival order with optional extras.
func c05Scenario(v2019 bool, id uint16, N int, order []int, bodies [][]byte, dupAt int, badAt int, bad uint16, plainAt int) [][]byte {
	var fs [][]byte
	seen := map[int]bool{}
	for idx, k := range order {
		if idx == badAt {
			fs = append(fs, hookFrame(v2019, id, 900, true, uint16(N), bad, []byte{9, 9, 9}))
		}
		if idx == plainAt {
			if (plainAt+N)%2 == 0 {
				fs = append(fs, hookFrame(v2019, 0x0002, 901, false, 0, 0, nil))
			} else {
				// an ordinary, unfragmented message with the SAME message ID as the transfer in progress
				fs = append(fs, hookFrame(v2019, id, 901, false, 0, 0, []byte{0x41, 0x42, byte(0x43 + idx)}))
			}
		}
		seen[k] = true
		fs = append(fs, hookFrame(v2019, id, uint16(100+k), true, uint16(N), uint16(k), bodies[k-1]))
		if idx == dupAt && k != 1 && len(seen) < N {
			fs = append(fs, hookFrame(v2019, id, uint16(200+k), true, uint16(N), uint16(k), bodies[k-1]))
		}
	}
	return fs
}

func c05Worker(c *core.Collector, x *Ctx) {
	c.Rule = "totals N=1..Nmax with EVERY permutation of packets 2..N after packet 1 x {escape-free, escaped} x {equal, unequal lengths} x {plain, duplicate of each later packet at every position, unfragmented message (a heartbeat, or a message with the transfer's own ID) interleaved at every position, " +
		"impossible package numbers 0/N+1/65535 at every position} x segmentations {one packet per read, pairs, all coalesced, random cuts}; two interleaved transfers of different IDs at every merge pattern (N<=3); random N<=40. " +
		"non-trivial = N>=2; distinct by hash of the reads"
	cats := map[string]bool{"reasm": true, "crash": true, "stream": true} // (a parser error on a valid stream of sub-packages loses the transfer: C05's business as much as C04's)
	Nmax := c.N(6, 7)
	run := func(gen string, frames [][]byte, mode int, r *core.Rand, nt bool) {
		var stream []byte
		var ends []int
		for _, f := range frames {
			stream = append(stream, f...)
			ends = append(ends, len(stream))
		}
		var cuts []int
		switch mode {
		case 0: // one frame per read
			cuts = ends
		case 1: // pairs
			for i := 1; i < len(ends); i += 2 {
				cuts = append(cuts, ends[i])
			}
		case 2: // all coalesced (maximal reads)
		case 3: // random cuts inside packets
			for k := 1 + r.Intn(6); k > 0; k-- {
				cuts = append(cuts, 1+r.Intn(len(stream)))
			}
		default: // mode = 100 + k: every frame complete but for its last k bytes, which arrive with the next read
			k := mode - 100
			for _, e := range ends {
				if e-k > 0 {
					cuts = append(cuts, e-k)
				}
			}
		}
		sc := &hookScenario{Kind: "hook", Gen: gen, Frames: hexAll(frames), Ops: opsFromCuts(stream, cuts)}
		hookEval(c, sc, cats, nt)
		if nt && c.WantSample() && len(stream) < 200 && r.Chance(1, 50) {
			c.Sample(map[string]any{"gen": gen, "frames": sc.Frames, "reads": len(sc.Ops)})
		}
	}
	type job struct {
		N     int
		order []int
		class int
	}
	var jobs []job
	for N := 1; N <= Nmax; N++ {
		rest := []int{}
		for k := 2; k <= N; k++ {
			rest = append(rest, k)
		}
		for _, p := range perms(rest) {
			for class := 0; class < 4; class++ {
				jobs = append(jobs, job{N, append([]int{1}, p...), class})
			}
		}
	}
	core.ParallelFor(len(jobs), ncpu(), func(ji int) {
		j := jobs[ji]
		r := core.NewRand(c.Seed, "c05", uint64(ji))
		v := ji%2 == 1
		id := core.Pick(r, []uint16{0x0801, 0x0704, 0x0200, 0x0900})
		bodies := c05Bodies(r, j.N, j.class)
		tag := fmt.Sprintf("esc=%v eqlen=%v", j.class&1 == 1, j.class&2 == 2)
		for mode := 0; mode < 4; mode++ {
			m := fmt.Sprintf(" seg=%d", mode)
			run("order "+tag+m, c05Scenario(v, id, j.N, j.order, bodies, -1, -1, 0, -1), mode, r, j.N >= 2)
			for at := 1; at < len(j.order); at++ {
				run("duplicate "+tag+m, c05Scenario(v, id, j.N, j.order, bodies, at, -1, 0, -1), mode, r, true)
				run("interleaved-plain "+tag+m, c05Scenario(v, id, j.N, j.order, bodies, -1, -1, 0, at), mode, r, true)
			}
			for at := 0; at <= len(j.order); at++ {
				if at == 0 {
					continue // before packet 1 there is no transfer: a stray packet is simply ignored (covered below)
				}
				for _, bad := range []uint16{0, uint16(j.N + 1), 65535} {
					if at == len(j.order) {
						continue
					}
					run(fmt.Sprintf("impossible-number-%d ", bad)+tag+m, c05Scenario(v, id, j.N, j.order, bodies, -1, at, bad, -1), mode, r, true)
				}
			}
		}
	})
	c.Count("orders_enumerated", int64(len(jobs)))
	c.Exh = true
	// two interleaved transfers with different IDs: every merge pattern of two 3-packet transfers (and 2-packet)
	type tj struct {
		n1, n2 int
		merge  []int // 0 -> next of transfer 1, 1 -> next of transfer 2
		o1, o2 []int
	}
	var tjobs []tj
	for _, n := range []int{2, 3} {
		var merges [][]int
		var rec func(cur []int, a, b int)
		rec = func(cur []int, a, b int) {
			if a == 0 && b == 0 {
				merges = append(merges, append([]int{}, cur...))
				return
			}
			if a > 0 {
				rec(append(cur, 0), a-1, b)
			}
			if b > 0 {
				rec(append(cur, 1), a, b-1)
			}
		}
		rec(nil, n, n)
		rest := []int{}
		for k := 2; k <= n; k++ {
			rest = append(rest, k)
		}
		for _, m := range merges {
			for _, p1 := range perms(rest) {
				for _, p2 := range perms(rest) {
					tjobs = append(tjobs, tj{n, n, m, append([]int{1}, p1...), append([]int{1}, p2...)})
				}
			}
		}
	}
	core.ParallelFor(len(tjobs), ncpu(), func(ji int) {
		j := tjobs[ji]
		r := core.NewRand(c.Seed, "c05t", uint64(ji))
		for class := 0; class < 4; class++ {
			b1, b2 := c05Bodies(r, j.n1, class), c05Bodies(r, j.n2, class)
			var fs [][]byte
			i1, i2 := 0, 0
			for _, w := range j.merge {
				if w == 0 {
					k := j.o1[i1]
					i1++
					fs = append(fs, hookFrame(false, 0x0801, uint16(k), true, uint16(j.n1), uint16(k), b1[k-1]))
				} else {
					k := j.o2[i2]
					i2++
					fs = append(fs, hookFrame(false, 0x0704, uint16(50+k), true, uint16(j.n2), uint16(k), b2[k-1]))
				}
			}
			for mode := 0; mode < 4; mode++ {
				run(fmt.Sprintf("two-transfers class=%d seg=%d", class, mode), fs, mode, r, true)
			}
		}
	})
	c.Count("two_transfer_merges", int64(len(tjobs)))
	// stray packets with no transfer open, N=1 transfers, random large N
	nr := c.N(300, 20000)
	core.ParallelFor(nr, ncpu(), func(i int) {
		r := core.NewRand(c.Seed, "c05r", uint64(i))
		N := 2 + r.Intn(39)
		if r.Chance(1, 10) {
			N = 1
		}
		if r.Chance(1, 16) {
			N = 250 + r.Intn(60) // totals around and above 256 (package numbers are 16-bit on the wire)
		}
		class := r.Intn(8)
		bodies := c05Bodies(r, N, class)
		p := r.Perm(N - 1)
		order := []int{1}
		for _, q := range p {
			order = append(order, q+2)
		}
		fs := c05Scenario(r.Bool(), core.Pick(r, []uint16{0x0801, 0x0704}), N, order, bodies, r.Intn(N+1), r.Intn(N+1), core.Pick(r, []uint16{0, uint16(N + 1), 65535, uint16(N + 2)}), r.Intn(N+1))
		if r.Chance(1, 5) { // stray packet of another ID whose packet 1 was never sent
			fs = append([][]byte{hookFrame(false, 0x0200, 7, true, 3, 2, []byte{1, 2, 3})}, fs...)
		}
		run("random-large", fs, r.Intn(4), r, true)
	})
	// sub-packages of MAXIMAL wire size (1012..1023 body bytes that all need escaping: 2066+ bytes per frame with the 16- / 21-byte
	// sub-package headers) with the last 1..24 bytes of every frame arriving in a separate read
	nmx := c.N(12, 48)
	core.ParallelFor(nmx, ncpu(), func(i int) {
		r := core.NewRand(c.Seed, "c05max", uint64(i))
		v19 := i%2 == 1
		N := 2 + i%3
		var bodies [][]byte
		for k := 0; k < N; k++ {
			l := 1023 - r.Intn(12)
			b := bytes.Repeat([]byte{[]byte{0x7e, 0x7d}[(i+k)%2]}, l)
			if k == 0 {
				b[0], b[1], b[2] = 0x21, 0x22, byte(0x23+i%50) // token
			}
			bodies = append(bodies, b)
		}
		order := []int{1}
		for _, q := range r.Perm(N - 1) {
			order = append(order, q+2)
		}
		fs := c05Scenario(v19, 0x0801, N, order, bodies, -1, -1, 0, -1)
		fs = append(fs, hookFrame(v19, 0x0002, 999, false, 0, 0, nil))
		for _, k := range []int{1, 2, 3, 4, 7, 12, 24} {
			run(fmt.Sprintf("maximal sub-packages, last %d bytes late", k), fs, 100+k, r, true)
		}
		run("maximal sub-packages, coalesced", fs, 2, r, true)
		c.Count("transfers_of_maximal_size_sub_packages", 1)
	})
	// long history on ONE parser: several hundred consecutive transfers (two message IDs alternating and overlapping, all
	// segmentation modes) so that whatever the parser accumulates over a connection's life (maps, buffers, counters) is aged
	nl := c.N(4, 16)
	core.ParallelFor(nl, ncpu(), func(i int) {
		r := core.NewRand(c.Seed, "c05long", uint64(i))
		var fs [][]byte
		v19 := i%2 == 1
		ntr := 200 + r.Intn(100)
		serial := uint16(r.Intn(60000))
		mk := func(id uint16, N int) [][]byte {
			bodies := c05Bodies(r, N, r.Intn(8))
			order := []int{1}
			for _, q := range r.Perm(N - 1) {
				order = append(order, q+2)
			}
			var out [][]byte
			for _, k := range order {
				serial++
				out = append(out, hookFrame(v19, id, serial, true, uint16(N), uint16(k), bodies[k-1]))
			}
			return out
		}
		for tr := 0; tr < ntr; tr++ {
			N := 2 + r.Intn(4)
			if tr%50 == 9 {
				N = 100 + r.Intn(80) // a big transfer early and then regularly: whatever it leaves behind is met by the small ones
			}
			a := mk([]uint16{0x0801, 0x0704}[tr%2], N)
			if tr%4 == 3 && N < 100 {
				// two transfers of different IDs OVERLAPPING in time: their packets interleaved at random
				b := mk([]uint16{0x0704, 0x0801}[tr%2], 2+r.Intn(4))
				for len(a) > 0 || len(b) > 0 {
					if len(b) == 0 || (len(a) > 0 && r.Bool()) {
						fs, a = append(fs, a[0]), a[1:]
					} else {
						fs, b = append(fs, b[0]), b[1:]
					}
				}
				continue
			}
			for _, f := range a {
				fs = append(fs, f)
				if r.Chance(1, 9) {
					serial++
					fs = append(fs, hookFrame(v19, 0x0002, serial, false, 0, 0, nil))
				}
			}
		}
		run("long-history", fs, i%4, r, true)
		c.Count("long_history_transfers_on_one_parser", int64(ntr))
	})
	// robustness outside the defined behaviour: contradictory totals, repeated packet 1, numbers beyond an earlier total.
	// The property does not say what is delivered here, only that the server is not disturbed: the oracle is "no panic".
	ng := c.N(3000, 100000)
	core.ParallelFor(ng, ncpu(), func(i int) {
		r := core.NewRand(c.Seed, "c05g", uint64(i))
		pairs := [][2]uint16{{2, 1}, {5, 4}, {5, 5}, {1, 1}, {3, 3}, {3, 1}, {2, 3}, {65535, 1}, {65535, 65535}, {4, 1}, {2, 2}, {0, 1}, {1, 0}, {300, 256}, {256, 1}, {3, 2}, {4, 4}}
		id := core.Pick(r, []uint16{0x0801, 0x0704})
		var fs [][]byte
		for k := 2 + r.Intn(7); k > 0; k-- {
			pr := pairs[r.Intn(len(pairs))]
			fs = append(fs, hookFrame(false, id, r.U16(), true, pr[0], pr[1], r.Bytes(r.Intn(10))))
			if r.Chance(1, 4) {
				fs = append(fs, hookFrame(false, 0x0002, r.U16(), false, 0, 0, nil))
			}
		}
		run("sub-package games (no-crash oracle only)", fs, r.Intn(3), r, false)
	})
	// a transfer that replaces an abandoned one of the same ID and takes its time (virtual time): packet 1 of an attempt that is
	// never finished; 10 / 30 / 50 s later packet 1 again and, 55 s after THAT, the rest — the new message is delivered, whole,
	// although more than 60 s have passed since the abandoned attempt began
	{
		nslow := 0
		for N := 2; N <= 5; N++ {
			for _, gap := range []int64{10000, 30000, 50000} {
				for v := 0; v < 2; v++ {
					r := core.NewRand(c.Seed, "c05slow", uint64(N*100+int(gap/1000)*2+v))
					id := core.Pick(r, []uint16{0x0801, 0x0704})
					old := c05Bodies(r, N, 1)
					nb := c05Bodies(r, N, v)
					var frames [][]byte
					var ops []hookOp
					feed := func(f []byte) {
						frames = append(frames, f)
						for _, s := range hookSplit(f) {
							ops = append(ops, hookOp{Feed: core.Hex(s)})
						}
					}
					feed(hookFrame(v == 1, id, 100, true, uint16(N), 1, old[0]))
					ops = append(ops, hookOp{AgeMs: gap})
					feed(hookFrame(v == 1, id, 200, true, uint16(N), 1, nb[0]))
					ops = append(ops, hookOp{AgeMs: 55000})
					for k := 2; k <= N; k++ {
						feed(hookFrame(v == 1, id, uint16(200+k), true, uint16(N), uint16(k), nb[k-1]))
					}
					sc := &hookScenario{Kind: "hook", Gen: "slow transfer that replaced an abandoned one", Frames: hexAll(frames), Ops: ops}
					hookEval(c, sc, cats, true)
					nslow++
				}
			}
		}
		c.Count("slow_transfers_replacing_an_abandoned_one", int64(nslow))
	}
	// a WIDE transfer that pauses: 520 / 600 / 1100 packets, the first 5..40 sent, 5.6 s (virtual) of silence, a heartbeat (the
	// server now owes a re-request that names more packets than one message body can hold), then the rest: the message is
	// delivered, whole (whatever became of the re-request, the transfer itself is healthy)
	{
		nwide := 0
		for wi, N := range []int{520, 600, 1100, 512} {
			for v := 0; v < 2; v++ {
				r := core.NewRand(c.Seed, "c05wide", uint64(wi*2+v))
				id := core.Pick(r, []uint16{0x0801, 0x0704})
				nb := c05Bodies(r, N, v)
				first := 1 + r.Intn(40)
				if N == 512 {
					first = 1 // exactly 511 missing
				}
				var frames [][]byte
				var ops []hookOp
				feed := func(f []byte) {
					frames = append(frames, f)
					ops = append(ops, hookOp{Feed: core.Hex(f)})
				}
				for k := 1; k <= first; k++ {
					feed(hookFrame(v == 1, id, uint16(200+k), true, uint16(N), uint16(k), nb[k-1]))
				}
				ops = append(ops, hookOp{AgeMs: 5600})
				feed(hookFrame(v == 1, 0x0002, 7, false, 0, 0, nil))
				for k := first + 1; k <= N; k++ {
					feed(hookFrame(v == 1, id, uint16(200+k), true, uint16(N), uint16(k), nb[k-1]))
				}
				sc := &hookScenario{Kind: "hook", Gen: "wide transfer that pauses with more than 510 packets missing", Frames: hexAll(frames), Ops: ops}
				hookEval(c, sc, cats, true)
				nwide++
			}
		}
		c.Count("wide_transfers_paused_with_more_than_510_packets_missing", int64(nwide))
	}
	c.Floor("orders_enumerated", 100)
}
