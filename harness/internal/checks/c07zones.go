package checks

import (
	"bytes"
	"fmt"
	"time"
	_ "time/tzdata" // the zone database travels with the binary: the part does not depend on what the host has installed

	"github.com/cuteLittleDevil/go-jt808/protocol/utils"
	"verif/harness/internal/core"
)

// c07Zones: the BCD time helpers in processes whose local time zone is not UTC. A BCD timestamp on the wire is six pairs of
// decimal digits; which of them exist as wall-clock times in the zone the platform happens to run in is none of the codec's
// business. The part sets time.Local (what TZ= does for a real process) to zones with daylight saving — including a 30-minute
// shift, a shift at midnight and a calendar day that was skipped — and sweeps every day of several years at a 15-minute grid
// (seconds 00 and 59) through Time2BCD / BCD2Time. One process, one zone at a time, nothing else running in it.
// (seed C07u1: Time2BCD accepts ISO-8601 input by parsing in time.Local — the hour skipped at spring-forward moves by one hour.)
func c07Zones(c *core.Collector, x *Ctx) {
	c.Rule = "helper law BCD2Time(Time2BCD(t)) == t and Time2BCD(t) == the BCD digits of t, with time.Local set in turn to zones with daylight saving (1 h, 30 min, at midnight, a skipped calendar day) and without; every day of the listed years, every 15 minutes, seconds 00 and 59. evaluation = one timestamp in one zone"
	zones := []string{"Europe/Berlin", "America/New_York", "Australia/Lord_Howe", "America/Santiago", "Pacific/Apia", "Africa/Casablanca", "Asia/Shanghai", "America/Havana", "Asia/Tehran"}
	years := []int{2011, 2024}
	if c.Tier == "thorough" {
		years = []int{2000, 2007, 2011, 2016, 2021, 2024, 2026, 2037, 2069, 2099}
	}
	saved := time.Local
	defer func() { time.Local = saved }()
	two := func(n int) string { return fmt.Sprintf("%02d", n) }
	for _, z := range zones {
		loc, err := time.LoadLocation(z)
		if err != nil {
			c.Note("zone_not_loaded", z+": "+err.Error())
			continue
		}
		time.Local = loc
		c.Count("zones", 1)
		bad := 0
		for _, y := range years {
			for mo := 1; mo <= 12 && bad < 3; mo++ {
				for d := 1; d <= 31 && bad < 3; d++ {
					for q := 0; q < 96 && bad < 3; q++ {
						for _, s := range []int{0, 59} {
							t := "20" + two(y%100) + "-" + two(mo) + "-" + two(d) + " " + two(q/4) + ":" + two(q%4*15) + ":" + two(s)
							c.Eval()
							if q%4 == 0 && s == 0 {
								c.NonTrivial(core.HashString(z + t))
							}
							guard(c, func() any { return map[string]any{"fn": "Time2BCD/BCD2Time", "input": t, "zone": z} }, func() {
								b := utils.Time2BCD(t)
								want := []byte{}
								for _, p := range []int{2, 5, 8, 11, 14, 17} {
									want = append(want, (t[p]-'0')<<4|(t[p+1]-'0'))
								}
								if !bytes.Equal(b, want) {
									bad++
									c.Violate("helper|Time2BCD|bytes differ from BCD digits|local zone with daylight saving", fmt.Sprintf("time.Local=%s: Time2BCD(%q)=%x want %x", z, t, b, want), map[string]any{"fn": "Time2BCD", "input": t, "zone": z})
									return
								}
								if back := utils.BCD2Time(b); back != t {
									bad++
									c.Violate("helper|BCD2Time|round trip|local zone with daylight saving", fmt.Sprintf("time.Local=%s: BCD2Time(Time2BCD(%q))=%q", z, t, back), map[string]any{"fn": "BCD2Time", "input": t, "zone": z})
								}
							})
						}
					}
				}
			}
		}
	}
	c.Floor("zones", 5)
}
