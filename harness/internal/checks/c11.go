package checks

import (
	"encoding/binary"
	"fmt"
	"net"
	"sort"
	"strings"
	"sync"
	"sync/atomic"
	"time"

	"github.com/anishathalye/porcupine"

	"github.com/cuteLittleDevil/go-jt808/service"
	"github.com/cuteLittleDevil/go-jt808/shared/consts"

	"verif/harness/internal/core"
	"verif/harness/internal/ref"
	"verif/harness/internal/svc"
)

// C11 — session registry: at most one live connection per terminal key.
// Histories of joins / leaves / sends are recorded at the client boundary (one logical clock) and checked per key
// with porcupine against the sequential registry specification of DESIGN Appendix F.

func init() {
	register(core.Plan{
		Property: "C11", Level: "exploration",
		Parts: func(tier string) []core.Part {
			n := 4
			if tier == "thorough" {
				n = 40
			}
			return []core.Part{{Name: "registry", Bin: "raceov", Batches: n, Parallel: 4, TimeoutS: 900, Env: []string{"VERIF_YIELD=1"}},
				{Name: "stalled-leave", Bin: "plain", Batches: 1, TimeoutS: 300}, {Name: "stalled-manager", Bin: "plain", Batches: 1, TimeoutS: 400}}
		},
		Assumptions: []string{
			"sequential specification (DESIGN Appendix F): per key an owner; Join ok iff free; Join exist iff taken; Leave frees iff owner; Send notexist iff free; Send delivered(c) iff owner = c",
			"operation intervals: Join = [client's first write, OnJoinEvent]; Leave = [client close, OnLeaveEvent]; Send = [call, return]; an operation that never returned stays open to the end of the history",
			"porcupine Unknown (checker timeout) is inconclusive; key function is the default (phone number)",
		},
	}, map[string]Worker{"registry": c11Worker, "stalled-leave": c11StalledLeave, "stalled-manager": c11StalledManager})
}

type regIn struct {
	Kind string // join | leave | send
	Conn int
}
type regOut struct {
	Res  string // ok | exist | done | notexist | delivered | failed
	Conn int
}

var c11Model = porcupine.Model{
	Partition: func(history []porcupine.Operation) [][]porcupine.Operation {
		m := map[string][]porcupine.Operation{}
		var keys []string
		for _, o := range history {
			k := o.Metadata.(string)
			if _, ok := m[k]; !ok {
				keys = append(keys, k)
			}
			m[k] = append(m[k], o)
		}
		sort.Strings(keys)
		var out [][]porcupine.Operation
		for _, k := range keys {
			out = append(out, m[k])
		}
		return out
	},
	Init: func() interface{} { return 0 },
	Step: func(state, input, output interface{}) (bool, interface{}) {
		owner := state.(int)
		in := input.(regIn)
		out := output.(regOut)
		switch in.Kind {
		case "join":
			if out.Res == "ok" {
				return owner == 0, in.Conn
			}
			return owner != 0, owner
		case "leave":
			if owner == in.Conn {
				return true, 0
			}
			return true, owner
		case "send":
			switch out.Res {
			case "notexist":
				return owner == 0, owner
			case "delivered":
				return owner == out.Conn, owner
			default: // failed: routed to an owner whose connection was going away
				return owner != 0, owner
			}
		}
		return false, owner
	},
	Equal: func(a, b interface{}) bool { return a.(int) == b.(int) },
	DescribeOperation: func(input, output interface{}) string {
		return fmt.Sprintf("%v -> %v", input, output)
	},
}

type c11Conn struct {
	id                    int
	key                   string
	phone                 string // what the terminal puts into its header; equals key unless the server runs a custom key function
	firstSerial           uint16
	joinCall, leaveCall   int64
	closedByServer        bool
	gotReplyBeforeClose   bool
	repliesOK, repliesBad int
}

var nearKeySends atomic.Int64
var ghostSends atomic.Int64
var neverJoin atomic.Int64
var fragFirst atomic.Int64
var leavingBursts atomic.Int64
var zeroKeyHistories atomic.Int64
var onlyUnsupported atomic.Int64
var c11ZeroBusy atomic.Bool

const c11ZeroKey = "000000000000"

var refusing atomic.Value // address of the server whose key function refuses 0x0200
var c11ConnID atomic.Int64
var c11Tag atomic.Uint32

type c11Send struct {
	key       string
	tag       uint32
	call, ret int64
	res       string
}

// c11History runs one short concurrent history and checks it.
func c11History(srv *svc.Server, c *core.Collector, seed uint64, hid int, base int, customKey bool) (viol [][2]string, incon bool, witness any, nops int) {
	bad := func(sig, detail string) { viol = append(viol, [2]string{sig, detail}) }
	// with the custom key function (key = phone without its last digit) different phones share a key
	phoneOf := func(key string, r *core.Rand) string {
		if !customKey {
			return key
		}
		return key + fmt.Sprint(r.Intn(10))
	}
	r0 := core.NewRand(seed, "c11h", uint64(hid))
	nkeys := 2 + r0.Intn(2)
	keys := make([]string, nkeys)
	for i := range keys {
		keys[i] = fmt.Sprintf("%d", base+i)
	}
	if !customKey && refusing.Load() != srv.Addr && r0.Chance(1, 3) && c11ZeroBusy.CompareAndSwap(false, true) {
		// the terminal whose phone number is all zeros (2013 header: the key is the twelve zeros, nothing is trimmed): one
		// history at a time has it among its keys. Anything that normalises keys confuses it with the empty key of
		// connections that never joined.
		defer c11ZeroBusy.Store(false)
		keys[0] = c11ZeroKey
		zeroKeyHistories.Add(1)
	}
	var mu sync.Mutex
	var conns []*c11Conn
	delivered := map[uint32]int{} // tag -> conn id that read it
	ghosts := map[string]bool{}   // keys that appeared only as the phone of a second frame: nobody may own them
	var sends []*c11Send
	stopSend := make(chan struct{})
	var swg sync.WaitGroup
	nsenders := 2 + r0.Intn(3)
	if r0.Chance(1, 3) {
		nsenders = 6 + r0.Intn(4) // bursts: more commands in flight for one key than its 3-slot command queue holds
	}
	if r0.Chance(1, 3) {
		// hold the writer of one key's connections in a slow write callback, so that commands queue up behind it
		svc.SlowWrite.Store(keys[0], 2*time.Millisecond)
		defer svc.SlowWrite.Delete(keys[0])
	}
	for g := 0; g < nsenders; g++ {
		swg.Add(1)
		go func(g int) {
			defer swg.Done()
			r := core.NewRand(seed, "c11s", uint64(hid*16+g))
			for i := 0; i < 12; i++ {
				select {
				case <-stopSend:
					return
				default:
				}
				key := keys[r.Intn(len(keys))]
				if r.Chance(1, 6) {
					// a key that is NOT in use but looks like one that is (zero-padded to the BCD field widths, one character more or
					// less, blanks): nobody ever joins under it, so every command to it must come back "not exist"
					k := key
					pad := func(n int) string {
						if len(k) >= n {
							return "0" + k
						}
						return strings.Repeat("0", n-len(k)) + k
					}
					key = core.Pick(r, []string{pad(12), pad(20), "0" + k, k + "0", " " + k, k + " ", k + "\x00", k[:len(k)-1], k[1:]})
					nearKeySends.Add(1)
				}
				tag := c11Tag.Add(1)
				body := binary.BigEndian.AppendUint32([]byte{1, 0, 0, 0xF0, 0x03, 4}, tag)
				sr := &c11Send{key: key, tag: tag, call: svc.Stamp()}
				res := sendCmd(srv.G, key, consts.P8103SetTerminalParams, body, 25*time.Millisecond, 25*time.Millisecond+slackFor(25*time.Millisecond))
				if res.returned {
					sr.ret = svc.Stamp()
					if res.kind == "notexist" {
						sr.res = "notexist"
					} else {
						sr.res = "routed"
					}
				} else {
					sr.ret = 1 << 60
					sr.res = "stranded"
				}
				mu.Lock()
				sends = append(sends, sr)
				mu.Unlock()
				time.Sleep(time.Duration(r.Intn(400)) * time.Microsecond)
			}
		}(g)
	}
	burst := hid%4 == 3
	if burst {
		// deliberate burst: one long-lived owner whose writer is held in a slow write callback, 8 commands fired at once
		// (more than the 3-slot command queue), a duplicate-key connect in the middle; the owner stays online throughout,
		// so no command may come back "not exist" and the duplicate must be refused.
		close(stopSend)
		swg.Wait()
		stopSend = make(chan struct{})
		key := keys[0]
		svc.SlowWrite.Store(key, 4*time.Millisecond)
		defer svc.SlowWrite.Delete(key)
		r := core.NewRand(seed, "c11b", uint64(hid))
		owner := &c11Conn{id: int(c11ConnID.Add(1)), key: key, phone: phoneOf(key, r)}
		owner.firstSerial = uint16(owner.id)
		conns = append(conns, owner)
		t, err := svc.Dial(srv.Addr, r.Bool() && owner.key != c11ZeroKey, owner.phone)
		if err != nil {
			return nil, true, nil, 0
		}
		odone := make(chan struct{})
		joined := make(chan struct{}, 1)
		go func() {
			defer close(odone)
			for rx := range t.Rx {
				if rx.F == nil {
					continue
				}
				if rx.F.ID == 0x8103 && len(rx.F.Body) == 10 {
					mu.Lock()
					delivered[binary.BigEndian.Uint32(rx.F.Body[6:])] = owner.id
					mu.Unlock()
				}
				if rx.F.ID == 0x8001 {
					select {
					case joined <- struct{}{}:
					default:
					}
				}
			}
		}()
		owner.joinCall = svc.Stamp()
		t.Write(t.Frame(0x0002, owner.firstSerial, nil))
		select {
		case <-joined:
		case <-time.After(20 * time.Second):
			t.Close()
			return nil, true, nil, 0
		}
		// keep the writer busy: heartbeats whose replies go through the slow write callback
		for k := 0; k < 3; k++ {
			t.Write(t.Frame(0x0002, uint16(40000+k), nil))
		}
		var bwg sync.WaitGroup
		for g := 0; g < 8; g++ {
			bwg.Add(1)
			go func(g int) {
				defer bwg.Done()
				tag := c11Tag.Add(1)
				body := binary.BigEndian.AppendUint32([]byte{1, 0, 0, 0xF0, 0x03, 4}, tag)
				sr := &c11Send{key: key, tag: tag, call: svc.Stamp()}
				res := sendCmd(srv.G, key, consts.P8103SetTerminalParams, body, 25*time.Millisecond, 25*time.Millisecond+slackFor(25*time.Millisecond))
				if res.returned {
					sr.ret = svc.Stamp()
					sr.res = "routed"
					if res.kind == "notexist" {
						sr.res = "notexist"
					}
				} else {
					sr.ret, sr.res = 1<<60, "stranded"
				}
				mu.Lock()
				sends = append(sends, sr)
				mu.Unlock()
			}(g)
		}
		// a duplicate-key connect while the burst is in flight
		dup := &c11Conn{id: int(c11ConnID.Add(1)), key: key}
		dup.firstSerial = uint16(dup.id)
		mu.Lock()
		conns = append(conns, dup)
		mu.Unlock()
		if t2, err := svc.Dial(srv.Addr, t.V2019, phoneOf(key, r)); err == nil {
			dup.joinCall = svc.Stamp()
			t2.Write(t2.Frame(0x0002, dup.firstSerial, nil))
			t2.WaitClosed(20 * time.Second)
			dup.leaveCall = svc.Stamp()
			t2.Close()
		}
		bwg.Wait()
		// leaving burst: the writer is kept busy again, 8 more commands are fired at once (more than the 3-slot queue holds) and
		// the owner goes away while most of them are still queued somewhere between the registry and its writer: every call
		// returns — delivered, failed or "not exist" — none is left behind with a connection that no longer exists
		for k := 0; k < 3; k++ {
			t.Write(t.Frame(0x0002, uint16(40100+k), nil))
		}
		var lwg sync.WaitGroup
		for g := 0; g < 8; g++ {
			lwg.Add(1)
			go func(g int) {
				defer lwg.Done()
				tag := c11Tag.Add(1)
				body := binary.BigEndian.AppendUint32([]byte{1, 0, 0, 0xF0, 0x03, 4}, tag)
				sr := &c11Send{key: key, tag: tag, call: svc.Stamp()}
				res := sendCmd(srv.G, key, consts.P8103SetTerminalParams, body, 25*time.Millisecond, 25*time.Millisecond+slackFor(25*time.Millisecond))
				if res.returned {
					sr.ret = svc.Stamp()
					sr.res = "routed"
					if res.kind == "notexist" {
						sr.res = "notexist"
					}
				} else {
					sr.ret, sr.res = 1<<60, "stranded"
				}
				mu.Lock()
				sends = append(sends, sr)
				mu.Unlock()
			}(g)
		}
		time.Sleep(time.Duration(500+r.Intn(3000)) * time.Microsecond)
		owner.leaveCall = svc.Stamp()
		if r.Bool() {
			t.Reset()
		} else {
			t.Close()
		}
		lwg.Wait()
		<-odone
		leavingBursts.Add(1)
	}
	var cwg sync.WaitGroup
	var dialFailed atomic.Bool
	defer func() {
		if dialFailed.Load() {
			incon = true
		}
	}()
	nclients := 4 + r0.Intn(5)
	if burst {
		nclients = 0
	}
	for g := 0; g < nclients; g++ {
		cwg.Add(1)
		go func(g int) {
			defer cwg.Done()
			r := core.NewRand(seed, "c11c", uint64(hid*16+g))
			for i := 0; i < 3; i++ {
				cn := &c11Conn{id: int(c11ConnID.Add(1)), key: keys[r.Intn(len(keys))]}
				cn.phone = phoneOf(cn.key, r)
				cn.firstSerial = uint16(cn.id)
				mu.Lock()
				conns = append(conns, cn)
				mu.Unlock()
				t, err := svc.Dial(srv.Addr, r.Bool() && cn.key != c11ZeroKey, cn.phone)
				if err != nil {
					dialFailed.Store(true)
					return
				}
				// terminal reader: records tagged commands, counts replies
				done := make(chan struct{})
				go func() {
					defer close(done)
					for rx := range t.Rx {
						if rx.F == nil {
							continue
						}
						if rx.F.ID == 0x8103 && len(rx.F.Body) == 10 {
							tag := binary.BigEndian.Uint32(rx.F.Body[6:])
							mu.Lock()
							delivered[tag] = cn.id
							mu.Unlock()
						}
						if rx.F.ID == 0x8001 {
							mu.Lock()
							cn.repliesOK++
							mu.Unlock()
						}
					}
				}()
				cn.joinCall = svc.Stamp()
				if refusing.Load() == srv.Addr && r.Chance(1, 4) {
					// only a refused message (a location report presenting this key), then gone: this connection never joins and must
					// leave the key's owner, if there is one, alone
					t.Write(t.Frame(0x0200, cn.firstSerial, c04Body(r, 2, 28)))
					time.Sleep(time.Duration(r.Intn(1500)) * time.Microsecond)
					if r.Bool() {
						t.Reset()
					} else {
						t.Close()
					}
					<-done
					neverJoin.Add(1)
					continue
				}
				if r.Chance(1, 9) {
					// only an unsupported message, then gone: the connection never joins (its leave callback carries no key) and
					// must leave every registered terminal alone
					t.Write(t.Frame(0x0900, cn.firstSerial, []byte{1, 2, 3}))
					time.Sleep(time.Duration(r.Intn(1500)) * time.Microsecond)
					if r.Bool() {
						t.Reset()
					} else {
						t.Close()
					}
					<-done
					onlyUnsupported.Add(1)
					continue
				}
				if r.Chance(1, 5) {
					// an unsupported message first: the connection joins with its first HANDLED message
					t.Write(t.Frame(0x0900, cn.firstSerial, []byte{1, 2, 3}))
					t.Write(t.Frame(0x0002, 20000, nil))
				} else if r.Chance(1, 7) {
					// the first message is a sub-package fragment (a terminal resuming an upload after a reconnect): the connection
					// joins with it like with any handled message — announced once to the join callback — although the fragment
					// itself never reaches the read callbacks
					t.Write(t.SubFrame(0x0801, cn.firstSerial, 3, uint16(1+r.Intn(3)), []byte{0, 0, 0, 9, 0, 0, 1, 1, 2, 3}))
					if r.Bool() {
						t.Write(t.Frame(0x0002, 20001, nil))
					}
					fragFirst.Add(1)
				} else if r.Chance(1, 4) {
					// the first write carries a SECOND frame with another phone number (a "ghost" key nobody ever joins under): on the
					// owner's connection it is just another message; a refused duplicate must not come back under the ghost key
					ghost := cn.key + "77"
					gb := svc.PhoneBCD(ghost, len(t.BCD))
					first := t.Frame(0x0002, cn.firstSerial, nil)
					second := ref.Build(ref.Params{ID: 0x0002, V2019: t.V2019, VersionByt: 1, BCD: gb, Serial: 30000})
					t.Write(append(first, second...))
					mu.Lock()
					ghosts[ghost] = true
					mu.Unlock()
				} else {
					t.Write(t.Frame(0x0002, cn.firstSerial, nil))
				}
				// stay a while, sending a few more heartbeats (the owner must keep being served)
				for k := 0; k < r.Intn(3); k++ {
					time.Sleep(time.Duration(r.Intn(1200)) * time.Microsecond)
					t.Write(t.Frame(0x0002, uint16(30000+k), nil))
				}
				time.Sleep(time.Duration(r.Intn(2500)) * time.Microsecond)
				cn.leaveCall = svc.Stamp()
				switch r.Intn(5) {
				case 0, 1:
					t.Reset()
				case 2: // the server ends the connection itself: a frame with a wrong checksum (parse error path)
					f := t.Frame(0x0002, 30100, nil)
					f[len(f)-2] ^= 0x55
					t.Write(f)
					t.WaitClosed(2 * time.Second)
					t.Close()
				default:
					t.Close()
				}
				<-done
				time.Sleep(time.Duration(r.Intn(500)) * time.Microsecond)
			}
		}(g)
	}
	cwg.Wait()
	// quiescence: every connection the server has seen must reach its leave callback; connections whose first frame the
	// server has not (yet) read get a grace period, and the set of recorders must be stable across two looks 100 ms apart
	settle := time.Now()
	stableSince := time.Time{}
	lastCount := -1
	var stuck []string
	for {
		count, missing := 0, []string{}
		mu.Lock()
		for _, cn := range conns {
			for _, rec := range svc.LookupAll(cn.phone, cn.firstSerial) {
				count++
				if rec.Count("leave") == 0 {
					missing = append(missing, fmt.Sprintf("conn %d key %s", cn.id, cn.key))
				}
			}
		}
		mu.Unlock()
		if count != lastCount {
			lastCount = count
			stableSince = time.Now()
		}
		if len(missing) == 0 && time.Since(stableSince) > 100*time.Millisecond && time.Since(settle) > 150*time.Millisecond {
			break
		}
		if time.Since(settle) > 40*time.Second {
			stuck = missing
			break
		}
		time.Sleep(5 * time.Millisecond)
	}
	if len(stuck) > 0 {
		if probeMax.Load() > 750 {
			incon = true
		} else {
			bad("stuck|a connection the server had read from did not reach its leave callback within 40 s after the peer closed", fmt.Sprintf("%v; service goroutines: %v", stuck, goroutineDump()))
		}
	}
	close(stopSend)
	swg.Wait()
	// nobody ever joined under a ghost key: a command to it must come back "not exist" (also after everything has left)
	mu.Lock()
	var gl []string
	for g := range ghosts {
		gl = append(gl, g)
	}
	mu.Unlock()
	for _, g := range gl {
		res := sendCmd(srv.G, g, consts.P8103SetTerminalParams, []byte{1, 0, 0, 0xF0, 0x03, 4, 0, 0, 0, 0}, 25*time.Millisecond, 25*time.Millisecond+slackFor(25*time.Millisecond))
		ghostSends.Add(1)
		if res.kind != "notexist" {
			bad("registry|a key that only ever appeared as the phone of a later frame of some connection is registered", fmt.Sprintf("ghost key %s: SendActiveMessage -> %s", g, res.kind))
		}
	}
	end := svc.Stamp() + 1
	if svc.RaceMode { // C18 drives this workload without the logical clock: no history to check
		mu.Lock()
		nops = len(conns)*2 + len(sends)
		mu.Unlock()
		return nil, false, nil, nops
	}
	// ---- build the history
	var ops []porcupine.Operation
	mu.Lock()
	defer mu.Unlock()
	type desc struct {
		Op        string
		Key       string
		Call, Ret int64
	}
	var listing []desc
	for _, cn := range conns {
		recs := svc.LookupAll(cn.phone, cn.firstSerial)
		if len(recs) == 0 {
			// the server never saw a message on this connection (closed before it was read): no effect on the registry
			continue
		}
		if len(recs) > 1 {
			bad("harness|two recorders for one connection identity", "")
			continue
		}
		rl := recs[0].ReaderLog()
		var joins, leaves []svc.Event
		for _, e := range rl {
			switch e.Kind {
			case "join":
				joins = append(joins, e)
			case "leave":
				leaves = append(leaves, e)
			}
		}
		if len(joins) == 0 {
			handled := 0
			for _, e := range rl {
				if e.Kind == "read" {
					handled++
				}
			}
			if handled == 0 {
				// only unsupported messages were read before the connection ended: it never joined, no registry effect;
				// its leave callback, if any, must not announce a key
				for _, e := range leaves {
					if e.Key != "" {
						bad("callback|a connection that never joined announced a key to the leave callback", fmt.Sprintf("conn %d key %q", cn.id, e.Key))
					}
				}
				continue
			}
		}
		if len(joins) != 1 {
			bad("callback|join callback count != 1 for a connection whose message was handled", fmt.Sprintf("conn %d key %s: %d join callbacks", cn.id, cn.key, len(joins)))
			continue
		}
		j := joins[0]
		res := "ok"
		if j.Err != "" {
			res = "exist"
		}
		if j.Err != "" && !strings.Contains(j.Err, "exist") {
			// the key function refused the message (not a duplicate): no registry operation took place; the connection never owned
			// the key and must not announce it when it leaves
			for _, e := range leaves {
				if e.Key == cn.key {
					bad("callback|a connection whose key was refused by the key function announced that key to the leave callback", fmt.Sprintf("conn %d key %s", cn.id, cn.key))
				}
			}
			continue
		}
		if res == "ok" && j.Key != cn.key {
			bad("callback|join callback reports a different key", fmt.Sprintf("conn %d key %s joined as %q", cn.id, cn.key, j.Key))
		}
		ops = append(ops, porcupine.Operation{ClientId: cn.id, Input: regIn{"join", cn.id}, Call: cn.joinCall, Output: regOut{Res: res}, Return: j.Stamp, Metadata: cn.key})
		listing = append(listing, desc{fmt.Sprintf("conn%d join->%s", cn.id, res), cn.key, cn.joinCall, j.Stamp})
		if len(leaves) > 1 {
			bad("callback|leave callback more than once for one connection", fmt.Sprintf("conn %d: %d", cn.id, len(leaves)))
		}
		if res == "ok" {
			lr := end
			if len(leaves) == 1 {
				lr = leaves[0].Stamp
				if leaves[0].Key != cn.key {
					bad("callback|leave callback key differs from the join key", fmt.Sprintf("conn %d joined %q left %q", cn.id, cn.key, leaves[0].Key))
				}
			} else {
				bad("callback|no leave callback for a joined connection that has ended", fmt.Sprintf("conn %d key %s", cn.id, cn.key))
			}
			lc := cn.leaveCall
			if lc > lr {
				lc = j.Stamp
			}
			ops = append(ops, porcupine.Operation{ClientId: cn.id, Input: regIn{"leave", cn.id}, Call: lc, Output: regOut{Res: "done"}, Return: lr, Metadata: cn.key})
			listing = append(listing, desc{fmt.Sprintf("conn%d leave", cn.id), cn.key, lc, lr})
			if cn.repliesOK == 0 {
				// the owner must have been served at least once (its first heartbeat) unless it was reset at once — not judged here
			}
		} else {
			// refused duplicate: its leave callback, if any, must not carry the key
			if len(leaves) == 1 && leaves[0].Key == cn.key {
				bad("callback|refused duplicate connection announced the owner's key to the leave callback", fmt.Sprintf("conn %d key %s", cn.id, cn.key))
			}
		}
	}
	for i, sr := range sends {
		out := regOut{Res: sr.res}
		switch sr.res {
		case "routed":
			if cid, ok := delivered[sr.tag]; ok {
				out = regOut{Res: "delivered", Conn: cid}
			} else {
				out = regOut{Res: "failed"}
			}
		case "stranded":
			bad("stranded|SendActiveMessage did not return", fmt.Sprintf("key %s tag %d; service goroutines: %v", sr.key, sr.tag, goroutineDump()))
			out = regOut{Res: "failed"}
		}
		ops = append(ops, porcupine.Operation{ClientId: 1000000 + i, Input: regIn{"send", 0}, Call: sr.call, Output: out, Return: sr.ret, Metadata: sr.key})
		listing = append(listing, desc{fmt.Sprintf("send->%s(conn%d)", out.Res, out.Conn), sr.key, sr.call, sr.ret})
	}
	nops = len(ops)
	res, info := porcupine.CheckOperationsVerbose(c11Model, ops, 60*time.Second)
	_ = info
	sort.Slice(listing, func(i, j int) bool { return listing[i].Call < listing[j].Call })
	switch res {
	case porcupine.Illegal:
		bad("linearizability|no sequential execution of the registry specification explains the recorded history", fmt.Sprintf("%d operations over keys %v", len(ops), keys))
	case porcupine.Unknown:
		incon = true
	}
	if len(viol) > 0 || (hid%25 == 0) {
		if len(listing) > 80 {
			listing = listing[:80]
		}
		witness = map[string]any{"history": listing, "keys": keys}
	}
	return
}

// c11Twins: two servers in one process are two registries. The same terminal key is online on both at once: each admits it,
// each routes its own commands to its own connection, and leaving one leaves the other alone.
func c11Twins(c *core.Collector, a, b *svc.Server, base int, rounds int) {
	tagOf := func(rx svc.Rx) (uint32, bool) {
		if rx.F != nil && rx.F.ID == 0x8103 && len(rx.F.Body) == 10 {
			return binary.BigEndian.Uint32(rx.F.Body[6:]), true
		}
		return 0, false
	}
	for k := 0; k < rounds; k++ {
		key := fmt.Sprintf("%d", base+k)
		c.Eval()
		bad := func(sig, detail string) {
			c.Violate(sig, detail, map[string]any{"kind": "c11twins", "key": key})
		}
		ta, err1 := svc.Dial(a.Addr, k%2 == 0, key)
		tb, err2 := svc.Dial(b.Addr, k%2 == 0, key)
		if err1 != nil || err2 != nil {
			c.Inconclusive()
			return
		}
		ta.Write(ta.Frame(0x0002, 11, nil))
		tb.Write(tb.Frame(0x0002, 22, nil))
		ra, oka, toa := ta.Next(20 * time.Second)
		rb, okb, tob := tb.Next(20 * time.Second)
		if toa || tob {
			c.Inconclusive()
			ta.Close()
			tb.Close()
			return
		}
		if !oka || !okb || ra.F == nil || rb.F == nil || ra.F.ID != 0x8001 || rb.F.ID != 0x8001 {
			bad("twins|a terminal online on one server was not admitted by a second server in the same process", "key "+key)
			ta.Close()
			tb.Close()
			continue
		}
		send := func(s *svc.Server) (string, uint32) {
			tag := c11Tag.Add(1)
			body := binary.BigEndian.AppendUint32([]byte{1, 0, 0, 0xF0, 0x03, 4}, tag)
			res := sendCmd(s.G, key, consts.P8103SetTerminalParams, body, 30*time.Millisecond, 30*time.Millisecond+slackFor(30*time.Millisecond))
			return res.kind, tag
		}
		got := func(t *svc.Term) (uint32, bool) {
			// (the frame was written before the call returned; the generous wait only matters on a machine under load)
			for {
				rx, ok, to := t.Next(5 * time.Second)
				if to || !ok {
					return 0, false
				}
				if tag, is := tagOf(rx); is {
					return tag, true
				}
			}
		}
		// each server's command reaches its own connection and only that one
		kA, tagA := send(a)
		kB, tagB := send(b)
		ga, hasA := got(ta)
		gb, hasB := got(tb)
		if kA == "notexist" || kB == "notexist" || !hasA || !hasB || ga != tagA || gb != tagB {
			bad("twins|commands of two servers for the same key are not routed each to its own connection", fmt.Sprintf("key %s: server A -> %s (its terminal read tag %d, want %d, got=%v); server B -> %s (read %d, want %d, got=%v)", key, kA, ga, tagA, hasA, kB, gb, tagB, hasB))
		}
		// the terminal leaves server A: B's registration is untouched, A's is gone
		ta.Close()
		if rec := svc.Lookup(ta.Phone, 11); rec == nil || !rec.WaitLeave(20*time.Second) {
			c.Inconclusive()
			tb.Close()
			return
		}
		kB2, tagB2 := send(b)
		gb2, hasB2 := got(tb)
		kA2, _ := send(a)
		if kB2 == "notexist" || !hasB2 || gb2 != tagB2 {
			bad("twins|a terminal leaving one server lost its registration on the other", fmt.Sprintf("key %s: server B -> %s", key, kB2))
		}
		if kA2 != "notexist" {
			bad("twins|a key that left a server is still registered there", fmt.Sprintf("key %s: server A -> %s", key, kA2))
		}
		tb.Close()
		if rec := svc.Lookup(tb.Phone, 22); rec != nil {
			rec.WaitLeave(20 * time.Second)
		}
		c.Count("twin_server_rounds", 1)
	}
}

func c11Worker(c *core.Collector, x *Ctx) {
	c.Rule = "many short histories: 2-3 keys, 4-8 client goroutines each doing connect / first message / more heartbeats / FIN or RST / reconnect (so duplicate-key connects happen by construction), 2-4 sender goroutines doing SendActiveMessage with uniquely tagged commands; " +
		"seeded delay injection; every third history against a server with a custom key function (several phone numbers per key); each history checked per key with porcupine. evaluation = one operation; distinct by (history id, yield trace hash)"
	startProbe()
	seed := c.Seed*1000 + uint64(x.Batch) + 900000
	yielding := svc.YieldFromEnv(seed)
	srv, err := svc.Start(func() service.TerminalEventer { return svc.NewRecorder() })
	if err != nil {
		c.Inconclusive()
		return
	}
	// a second server with a custom key function: key = phone number without its last digit (several phones per key)
	srvK, err := svc.Start(func() service.TerminalEventer { return svc.NewRecorder() }, service.WithKeyFunc(func(m *service.Message) (string, bool) {
		p := m.JTMessage.Header.TerminalPhoneNo
		if len(p) < 2 {
			return p, true
		}
		return p[:len(p)-1], true
	}))
	if err != nil {
		c.Inconclusive()
		return
	}
	// a third server whose key function refuses some messages (returns the key it would have used, and false): a terminal is
	// admitted by its first message of another kind. Connections that only ever send refused messages never join.
	srvR, err := svc.Start(func() service.TerminalEventer { return svc.NewRecorder() }, service.WithKeyFunc(func(m *service.Message) (string, bool) {
		return m.JTMessage.Header.TerminalPhoneNo, m.JTMessage.Header.ID != 0x0200
	}))
	if err != nil {
		c.Inconclusive()
		return
	}
	refusing.Store(srvR.Addr)
	// a fourth server that came up at the fourth attempt: Run() was called three times on the same object while the port was
	// still taken, and once more after it had been released
	srvF, err := svc.StartAfterFailedRuns(func() service.TerminalEventer { return svc.NewRecorder() }, 3)
	if err != nil {
		c.Inconclusive()
		srvF = srv
	}
	if !svc.RaceMode {
		if srvT, err := svc.Start(func() service.TerminalEventer { return svc.NewRecorder() }); err == nil {
			c11Twins(c, srv, srvT, 3900000+x.Batch*1000, c.N(12, 60))
		}
	}
	n := c.N(75, 500)
	sem := make(chan struct{}, 4)
	var wg sync.WaitGroup
	var stop atomic.Bool
	verdicts := map[string]int64{}
	var vmu sync.Mutex
	for h := 0; h < n; h++ {
		if stop.Load() {
			break
		}
		wg.Add(1)
		sem <- struct{}{}
		go func(h int) {
			defer wg.Done()
			defer func() { <-sem }()
			x.Journal.Log(false, "history %d", h)
			mark := svc.TraceMark()
			custom := h%3 == 2
			hs := srv
			if custom {
				hs = srvK
				c.Count("histories_with_custom_key_function", 1)
			}
			if h%6 == 1 {
				hs = srvF
				c.Count("histories_on_a_server_started_after_failed_attempts", 1)
			}
			if h%6 == 4 {
				hs = srvR
				c.Count("histories_with_a_refusing_key_function", 1)
			}
			viol, incon, wit, nops := c11History(hs, c, c.Seed, x.Batch*100000+h, 3000000+x.Batch*100000+h*10, custom)
			th, _ := svc.TraceHash(mark)
			c.Evals(int64(nops))
			c.Count("histories", 1)
			c.Counter("sends_to_look_alike_keys_that_nobody_owns").Store(nearKeySends.Load())
			c.Counter("sends_to_ghost_keys_of_second_frames").Store(ghostSends.Load())
			c.Counter("connections_that_only_sent_refused_messages").Store(neverJoin.Load())
			c.Counter("connections_whose_first_message_was_a_fragment").Store(fragFirst.Load())
			c.Counter("bursts_of_8_commands_with_the_owner_leaving").Store(leavingBursts.Load())
			c.Counter("histories_with_the_all_zero_phone_among_the_keys").Store(zeroKeyHistories.Load())
			c.Counter("connections_that_only_sent_an_unsupported_message").Store(onlyUnsupported.Load())
			c.NonTrivial(core.HashString(fmt.Sprintf("%d/%d/%x", x.Batch, h, th)))
			vmu.Lock()
			switch {
			case incon:
				verdicts["inconclusive"]++
			case len(viol) > 0:
				verdicts["illegal"]++
			default:
				verdicts["ok"]++
			}
			vmu.Unlock()
			if incon {
				c.Inconclusive()
			}
			for _, v := range viol {
				if v[0][:8] == "stranded" {
					stop.Store(true)
				}
				c.Violate(v[0], v[1], wit)
			}
			if wit != nil && len(viol) == 0 {
				c.Sample(wit)
			}
		}(h)
	}
	wg.Wait()
	for k, v := range verdicts {
		c.Count("porcupine_"+k, v)
	}
	d, tot := svc.SitesHit()
	c.Count("yield_sites_hit", int64(d))
	c.Count("yield_calls", int64(tot))
	if yielding {
		c.Floor("yield_sites_hit", 15)
	}
	c.Floor("porcupine_ok", 20)
}

// c11StalledLeave: the ending of a connection that the SERVER gives up on. A terminal joins, floods heartbeats and never reads;
// a server that puts a deadline on its socket writes closes that connection itself after a while (one that does not is left
// alone for 25 s, then the terminal closes). Whichever side ends it: the leave callback runs exactly once with the key, the key
// is free afterwards ("not exist" for commands) and the same terminal is admitted again.
func c11StalledLeave(c *core.Collector, x *Ctx) {
	c.Rule = "a terminal joins, floods valid heartbeats and never reads until a socket write of the server is parked; then it waits up to 25 s for the server to end the connection (else closes it itself). oracle: exactly one leave callback with the key, commands to the key come back 'not exist' afterwards, a new connection under the key is admitted and served. evaluation = one terminal"
	srv, err := svc.Start(func() service.TerminalEventer { return svc.NewRecorder() })
	if err != nil {
		c.Inconclusive()
		return
	}
	var wg sync.WaitGroup
	for k := 0; k < 2; k++ {
		wg.Add(1)
		go func(k int) {
			defer wg.Done()
			c.Eval()
			key := fmt.Sprintf("%d", 3950000+k)
			bad := func(sig, detail string) {
				c.Violate(sig, detail, map[string]any{"kind": "c11stalled", "key": key})
			}
			t, err := svc.Dial(srv.Addr, k%2 == 1, key)
			if err != nil {
				c.Inconclusive()
				return
			}
			t.Close() // lends its frame builder only
			raw, err := net.DialTimeout("tcp", srv.Addr, 5*time.Second)
			if err != nil {
				c.Inconclusive()
				return
			}
			defer raw.Close()
			raw.Write(t.Frame(0x0002, 1, nil))
			raw.SetReadDeadline(time.Now().Add(20 * time.Second))
			if _, err := raw.Read(make([]byte, 15)); err != nil {
				c.Inconclusive()
				return
			}
			var batch []byte
			for q := 0; q < 1000; q++ {
				batch = append(batch, t.Frame(0x0002, uint16(q+2), nil)...)
			}
			parked := false
			pending := batch
			start := time.Now()
			for time.Since(start) < 30*time.Second && !parked {
				raw.SetWriteDeadline(time.Now().Add(200 * time.Millisecond))
				n, err := raw.Write(pending)
				pending = pending[n:]
				if len(pending) == 0 {
					pending = batch
				}
				if err != nil {
					if ne, ok := err.(net.Error); !ok || !ne.Timeout() {
						break
					}
					parked = goroutineInIOWaitWrite()
				}
			}
			if !parked {
				c.Inconclusive()
				return
			}
			// the terminal goes quiet; does the server end the connection? (read until the stream ends or 25 s have passed)
			serverEnded := false
			time.Sleep(13 * time.Second) // silent, not reading: a server with a write deadline gives the connection up in this time
			raw.SetReadDeadline(time.Now().Add(12 * time.Second))
			buf := make([]byte, 1<<16)
			for {
				_, err := raw.Read(buf)
				if err != nil {
					if ne, ok := err.(net.Error); !ok || !ne.Timeout() {
						serverEnded = true
					}
					break
				}
			}
			raw.Close()
			if serverEnded {
				c.Count("connections_the_server_gave_up_on", 1)
			}
			rec := svc.Lookup(t.Phone, 1)
			if rec == nil {
				c.Inconclusive()
				return
			}
			if !rec.WaitLeave(30 * time.Second) {
				bad("callback|no leave callback for a joined connection that has ended", fmt.Sprintf("key %s: the connection of a terminal that had stopped reading ended (by the server: %v) and 30 s later the leave callback has not run; service goroutines: %v", key, serverEnded, goroutineDump()))
				return
			}
			leaves := 0
			for _, e := range rec.ReaderLog() {
				if e.Kind == "leave" {
					leaves++
					if e.Key != key {
						bad("callback|leave callback key differs from the join key", fmt.Sprintf("joined %q left %q", key, e.Key))
					}
				}
			}
			if leaves != 1 {
				bad("callback|leave callback more than once for one connection", fmt.Sprintf("key %s: %d", key, leaves))
			}
			res := sendCmd(srv.G, key, consts.P8104QueryTerminalParams, nil, 100*time.Millisecond, 100*time.Millisecond+slackFor(100*time.Millisecond))
			if res.kind != "notexist" {
				bad("registry|a key whose connection has ended and left is still registered", fmt.Sprintf("key %s: SendActiveMessage -> %s", key, res.kind))
			}
			t2, err := svc.Dial(srv.Addr, k%2 == 1, key)
			if err != nil {
				c.Inconclusive()
				return
			}
			defer t2.Close()
			t2.Write(t2.Frame(0x0002, 7, nil))
			if rx, ok, to := t2.Next(20 * time.Second); to {
				c.Inconclusive()
			} else if !ok || rx.F == nil || rx.F.ID != 0x8001 {
				bad("registry|a terminal whose earlier connection has ended is not admitted again", fmt.Sprintf("key %s", key))
			}
			c.Count("stalled_terminals_followed_to_their_leave", 1)
			c.NonTrivial(core.HashString("c11stalled/" + key))
		}(k)
	}
	wg.Wait()
}

// c11StalledManager: a duplicate of an online key arrives while the session manager cannot serve it — a third terminal has
// stopped reading, its connection's writer is parked in a socket write, and more commands than its queue holds are addressed to
// it, so the manager goroutine waits (until that write's deadline ends the stalled connection). However long the duplicate has
// to wait and whatever becomes of it: the owner keeps its key — commands for the key still reach the owner, and a further
// connection presenting the key is still refused. Every verdict is taken after the stall is over, on state, not on timing.
// (seed C11u1: join gives up after 3 s and queues a leave(key) to undo itself; for a refused duplicate that leave removes the
// owner's registration.)
func c11StalledManager(c *core.Collector, x *Ctx) {
	c.Rule = "own server; terminal S joins, floods heartbeats without reading until the server's write to it is parked; owner A holds key K; 8 commands are sent to S at once (queue of 3: the manager blocks); 300 ms later a duplicate D presents K. After all commands have returned: A still answers, a command for K arrives at A, another duplicate E is refused, K had exactly one successful join and no leave. evaluation = one round"
	for round := 0; round < c.N(1, 3); round++ {
		c.Eval()
		srv, err := svc.Start(func() service.TerminalEventer { return svc.NewRecorder() })
		if err != nil {
			c.Inconclusive()
			return
		}
		keyS, keyK := fmt.Sprintf("%d", 3960000+round), fmt.Sprintf("%d", 3970000+round)
		bad := func(sig, detail string) {
			c.Violate(sig, detail, map[string]any{"kind": "c11stalledmanager", "key": keyK, "round": round})
		}
		a, err := svc.Dial(srv.Addr, round%2 == 1, keyK)
		if err != nil {
			c.Inconclusive()
			return
		}
		defer a.Close()
		a.Write(a.Frame(0x0002, 1, nil))
		if rx, ok, to := a.Next(20 * time.Second); to || !ok || rx.F == nil || rx.F.ID != 0x8001 {
			c.Inconclusive()
			return
		}
		ts, err := svc.Dial(srv.Addr, false, keyS)
		if err != nil {
			c.Inconclusive()
			return
		}
		ts.Close() // lends its frame builder only
		raw, err := net.DialTimeout("tcp", srv.Addr, 5*time.Second)
		if err != nil {
			c.Inconclusive()
			return
		}
		defer raw.Close()
		raw.Write(ts.Frame(0x0002, 1, nil))
		raw.SetReadDeadline(time.Now().Add(20 * time.Second))
		if _, err := raw.Read(make([]byte, 15)); err != nil {
			c.Inconclusive()
			return
		}
		var batch []byte
		for q := 0; q < 1000; q++ {
			batch = append(batch, ts.Frame(0x0002, uint16(q+2), nil)...)
		}
		parked := false
		pending := batch
		start := time.Now()
		for time.Since(start) < 30*time.Second && !parked {
			raw.SetWriteDeadline(time.Now().Add(200 * time.Millisecond))
			n, err := raw.Write(pending)
			pending = pending[n:]
			if len(pending) == 0 {
				pending = batch
			}
			if err != nil {
				if ne, ok := err.(net.Error); !ok || !ne.Timeout() {
					break
				}
				parked = goroutineInIOWaitWrite()
			}
		}
		if !parked {
			c.Inconclusive()
			continue
		}
		// more commands for S than its queue holds: the manager goroutine waits on the fourth
		var cw sync.WaitGroup
		for q := 0; q < 8; q++ {
			cw.Add(1)
			go func() {
				defer cw.Done()
				sendCmd(srv.G, keyS, consts.P8104QueryTerminalParams, nil, time.Second, 60*time.Second)
			}()
		}
		time.Sleep(300 * time.Millisecond)
		d, err := svc.Dial(srv.Addr, round%2 == 1, keyK)
		if err != nil {
			c.Inconclusive()
			continue
		}
		t0 := time.Now()
		d.Write(d.Frame(0x0002, 900, nil))
		dClosed := d.WaitClosed(40 * time.Second)
		waited := time.Since(t0)
		d.Close()
		if waited > 2*time.Second {
			c.Count("duplicates_that_waited_for_a_stalled_manager", 1)
		}
		done := make(chan struct{})
		go func() { cw.Wait(); close(done) }()
		select {
		case <-done:
		case <-time.After(70 * time.Second):
			c.Inconclusive() // (stranded callers are C13's subject)
			continue
		}
		raw.Close()
		time.Sleep(300 * time.Millisecond)
		// ---- the verdicts, on the settled state
		a.Write(a.Frame(0x0002, 2, nil))
		alive := false
		for {
			rx, ok, to := a.Next(20 * time.Second)
			if to {
				c.Inconclusive()
				break
			}
			if !ok {
				bad("registry|a refused duplicate ended the owner's connection", fmt.Sprintf("key %s: the owner's connection was closed after a duplicate had presented the key during a manager stall (the duplicate waited %v, closed=%v)", keyK, waited.Round(time.Millisecond), dClosed))
				break
			}
			if rx.F != nil && rx.F.ID == 0x8001 {
				alive = true
				break
			}
		}
		if !alive {
			continue
		}
		resCh := make(chan cmdResult, 1)
		go func() {
			resCh <- sendCmd(srv.G, keyK, consts.P8104QueryTerminalParams, nil, 3*time.Second, 3*time.Second+slackFor(3*time.Second))
		}()
		gotCmd := false
		for !gotCmd {
			rx, ok, to := a.Next(5 * time.Second)
			if to || !ok {
				break
			}
			if rx.F != nil && rx.F.ID == 0x8104 {
				gotCmd = true
				a.Write(a.Frame(0x0104, 3, append([]byte{byte(rx.F.Serial >> 8), byte(rx.F.Serial), 0})))
			}
		}
		res := <-resCh
		if res.kind == "notexist" {
			bad("registry|a command for an online key returned not-exist", fmt.Sprintf("key %s: its owner is connected and answers heartbeats; a duplicate had presented the key while the manager was stalled (waited %v) — SendActiveMessage -> %s, command frame reached the owner: %v", keyK, waited.Round(time.Millisecond), res.kind, gotCmd))
		} else if !gotCmd {
			bad("routing|a command for an online key did not reach its owner", fmt.Sprintf("key %s: SendActiveMessage -> %s", keyK, res.kind))
		}
		e, err := svc.Dial(srv.Addr, round%2 == 1, keyK)
		if err == nil {
			e.Write(e.Frame(0x0002, 950, nil))
			rx, ok, to := e.Next(3 * time.Second)
			if !to && ok && rx.F != nil && rx.F.ID == 0x8001 {
				// E was admitted; is the owner still live? then two live connections hold one key
				a.Write(a.Frame(0x0002, 4, nil))
				if rx2, ok2, to2 := a.Next(10 * time.Second); !to2 && ok2 && rx2.F != nil {
					bad("registry|two live connections for one key", fmt.Sprintf("key %s: a connection presenting the key was admitted and served while the owner's connection is alive and served too (after a duplicate met a stalled manager, waited %v)", keyK, waited.Round(time.Millisecond)))
				}
			}
			e.Close()
		}
		if rec := svc.Lookup(a.Phone, 1); rec != nil {
			for _, ev := range rec.ReaderLog() {
				if ev.Kind == "leave" {
					bad("callback|leave callback for a connection that is still alive", fmt.Sprintf("key %s", keyK))
				}
			}
		}
		a.Close()
		c.Count("stalled_manager_rounds_judged", 1)
		c.NonTrivial(core.HashString("c11stalledmanager/" + keyK))
	}
	c.Floor("stalled_manager_rounds_judged", 1)
}
