package checks

import (
	"bytes"
	"fmt"

	"github.com/cuteLittleDevil/go-jt808/service"

	"verif/harness/internal/core"
	"verif/harness/internal/ref"
)

// C04 — stream framing is independent of TCP segmentation (hook variant: exhaustive/structured cuts; socket variant: c04sock.go).

func init() {
	register(core.Plan{
		Property: "C04", Level: "exploration",
		Parts: func(tier string) []core.Part {
			nb := 1
			if tier == "thorough" {
				nb = 4
			}
			return []core.Part{{Name: "partitions", Bin: "plain", Batches: 1, TimeoutS: 1800}, {Name: "socket", Bin: "plain", Batches: nb, Parallel: 2, TimeoutS: 1800}}
		},
		Assumptions: []string{
			"service.VerifParser (build tag verif) feeds packageParse through one reused 1023-byte buffer exactly as connection.reader does; connection.reader itself (read loop and hand-over to the writer) is exercised by the socket part, whose partitions are what the kernel makes of the writes (TCP may coalesce or split them further)",
			"R-stream: a frame is available exactly when its closing delimiter has been fed; only unfragmented frames (C05 owns fragmented ones)",
		},
	}, map[string]Worker{"partitions": c04Worker, "socket": c04Socket})
}

func c04Body(r *core.Rand, class, l int) []byte {
	b := r.Bytes(l)
	switch class {
	case 1: // escape-dense
		for i := range b {
			b[i] = []byte{0x7e, 0x7d}[r.Intn(2)]
		}
	case 2: // escape-free (zero-copy path)
		for i := range b {
			b[i] = byte(0x10 + r.Intn(0x60))
		}
	case 3: // specials mixed with 01/02
		for i := range b {
			if r.Chance(1, 2) {
				b[i] = []byte{0x7e, 0x7d, 0x01, 0x02}[r.Intn(4)]
			}
		}
	}
	return b
}

func c04Frames(r *core.Rand, n int, maxBody int) [][]byte {
	var fs [][]byte
	ids := []uint16{0x0002, 0x0200, 0x0100, 0x0102, 0x0704, 0x0900, 0x0001, 0x7e7e}
	for i := 0; i < n; i++ {
		l := r.Intn(maxBody + 1)
		if r.Chance(1, 4) {
			l = 0
		}
		v19 := r.Bool()
		if r.Chance(1, 4) {
			// encryption / reserved bits of the property word set (the parser must not read them as part of the length)
			bcd := hookBCD13
			if v19 {
				bcd = hookBCD19
			}
			fs = append(fs, attrFrame(v19, bcd, core.Pick(r, ids), r.U16(), c04Body(r, r.Intn(4), l), core.Pick(r, []byte{0x04, 0x08, 0x10, 0x1c, 0x80, 0x9c})))
			continue
		}
		fs = append(fs, hookFrame(v19, core.Pick(r, ids), r.U16(), false, 0, 0, c04Body(r, r.Intn(4), l)))
	}
	return fs
}

func c04Worker(c *core.Collector, x *Ctx) {
	c.Rule = "streams of 1..8 valid unfragmented frames (both versions, bodies 0..1023 incl. escape-dense ones whose escaped form exceeds the 1023-byte read buffer, back-to-back delimiters) x partitions: " +
		"byte-by-byte, one frame per read, maximal 1023-byte reads, ALL 1-cuts and ALL 2-cuts of short streams (<=L bytes), cuts inside every escape pair and around every delimiter, random k-cuts (k<=40); frames of maximal wire size (1015..1023 special bytes, both header versions) with every cut in their first and last 40 bytes. " +
		"non-trivial = partition with at least one cut strictly inside a frame; distinct by hash of the reads"
	cats := map[string]bool{"stream": true}
	L := c.N(110, 260)
	run := func(gen string, frames [][]byte, cuts []int) {
		var stream []byte
		for _, f := range frames {
			stream = append(stream, f...)
		}
		sc := &hookScenario{Kind: "hook", Gen: gen, Frames: hexAll(frames), Ops: opsFromCuts(stream, cuts)}
		inside := false
		endSet := map[int]bool{}
		off := 0
		for _, f := range frames {
			off += len(f)
			endSet[off] = true
		}
		for _, cu := range cuts {
			if cu > 0 && cu < len(stream) && !endSet[cu] {
				inside = true
			}
		}
		hookEval(c, sc, cats, inside || len(stream) > 1023)
		if inside && c.WantSample() && len(stream) < 80 {
			c.Sample(map[string]any{"gen": gen, "frames": sc.Frames, "reads": sc.Ops})
		}
	}
	// (1) exhaustive 1-cuts and 2-cuts of short streams
	nshort := c.N(48, 240)
	core.ParallelFor(nshort, ncpu(), func(i int) {
		r := core.NewRand(c.Seed, "c04s", uint64(i))
		var frames [][]byte
		for {
			frames = c04Frames(r, 1+r.Intn(4), 24)
			tot := 0
			for _, f := range frames {
				tot += len(f)
			}
			if tot <= L {
				break
			}
		}
		n := 0
		for _, f := range frames {
			n += len(f)
		}
		run("no-cut", frames, nil)
		for a := 1; a < n; a++ {
			run("1-cut", frames, []int{a})
			for b := a + 1; b < n; b++ {
				run("2-cut", frames, []int{a, b})
			}
		}
		c.Count("streams_with_exhaustive_1_and_2_cuts", 1)
	})
	c.Exh = true
	// (2) longer streams with structured and random partitions
	nlong := c.N(1500, 40000)
	core.ParallelFor(nlong, ncpu(), func(i int) {
		r := core.NewRand(c.Seed, "c04l", uint64(i))
		maxBody := 1023
		if r.Chance(1, 2) {
			maxBody = 60
		}
		frames := c04Frames(r, 1+r.Intn(8), maxBody)
		var stream []byte
		var ends []int
		for _, f := range frames {
			stream = append(stream, f...)
			ends = append(ends, len(stream))
		}
		n := len(stream)
		// byte by byte
		if n <= 3000 {
			all := make([]int, 0, n)
			for k := 1; k < n; k++ {
				all = append(all, k)
			}
			run("byte-by-byte", frames, all)
		}
		run("frame-per-read", frames, ends)
		run("maximal-reads", frames, nil)
		// around delimiters
		var dl []int
		for _, e := range ends {
			dl = append(dl, e-1, e, e+1)
		}
		run("around-delimiters", frames, dl)
		// inside every escape pair
		var esc []int
		for k := 0; k+1 < n; k++ {
			if stream[k] == 0x7d {
				esc = append(esc, k+1)
			}
		}
		if len(esc) > 0 {
			run("inside-escape-pairs", frames, esc)
			for q := 0; q < 3; q++ {
				run("inside-escape-pair", frames, []int{esc[r.Intn(len(esc))]})
			}
		}
		// random k-cuts
		for q := 0; q < c.N(6, 12); q++ {
			k := 1 + r.Intn(40)
			cuts := make([]int, k)
			for j := range cuts {
				cuts[j] = 1 + r.Intn(n)
			}
			run("random-k-cuts", frames, cuts)
		}
	})
	// (2b) a read that ends INSIDE a frame at the moment the parser has something of its own to say: a sub-packaged transfer has
	// been idle for 5.6 s (virtual time), so the read that follows makes the parser produce a re-request; that read holds a
	// heartbeat cut at every position, the rest arrives with the next read, more frames follow. Whatever the parser does for its
	// re-request must not touch the terminal's byte stream.
	{
		njobs := c.N(6, 24)
		core.ParallelFor(njobs, ncpu(), func(i int) {
			r := core.NewRand(c.Seed, "c04aged", uint64(i))
			v19 := i%2 == 1
			frag := hookFrame(v19, core.Pick(r, []uint16{0x0801, 0x0704}), r.U16(), true, 3, 1, c04Body(r, 2, 20+r.Intn(20)))
			hb := hookFrame(v19, 0x0002, r.U16(), false, 0, 0, nil)
			loc := hookFrame(v19, 0x0200, r.U16(), false, 0, 0, c04Body(r, i%3, 28))
			hb2 := hookFrame(v19, 0x0002, r.U16(), false, 0, 0, nil)
			frames := [][]byte{frag, hb, loc, hb2}
			for k := 1; k < len(hb); k++ {
				for _, age := range []int64{5600, 11000, 59000} {
					ops := []hookOp{{Feed: core.Hex(frag)}, {AgeMs: age}, {Feed: core.Hex(hb[:k])}, {Feed: core.Hex(append(append([]byte{}, hb[k:]...), loc...))}, {Feed: core.Hex(hb2)}}
					if k%2 == 0 {
						ops = []hookOp{{Feed: core.Hex(frag)}, {AgeMs: age}, {Feed: core.Hex(hb[:k])}, {Feed: core.Hex(hb[k:])}, {AgeMs: 5600}, {Feed: core.Hex(loc[:len(loc)/2])}, {Feed: core.Hex(append(append([]byte{}, loc[len(loc)/2:]...), hb2...))}}
					}
					sc := &hookScenario{Kind: "hook", Gen: "aged read that ends inside a frame", Frames: hexAll(frames), Ops: ops}
					hookEval(c, sc, cats, true)
					c.Count("aged_reads_ending_inside_a_frame", 1)
				}
			}
		})
	}
	// (3) frames of maximal wire size: bodies of 1015..1023 bytes made of 0x7e/0x7d only (every byte doubles on the wire: up to
	// 2066 bytes for a 2019 header), between two small frames; every single cut in the first and last 40 bytes of the big frame,
	// and every pair (cut inside the tail, cut k bytes earlier) for the reads a 1023-byte buffer would produce
	nbig := c.N(24, 96)
	core.ParallelFor(nbig, ncpu(), func(i int) {
		r := core.NewRand(c.Seed, "c04big", uint64(i))
		v19 := i%2 == 1
		l := 1023 - i/2%9
		body := c04Body(r, 1, l)
		if i%3 == 0 { // all 0x7d / all 0x7e
			body = bytes.Repeat([]byte{[]byte{0x7d, 0x7e}[i/3%2]}, l)
		}
		a := hookFrame(v19, 0x0002, r.U16(), false, 0, 0, nil)
		b := hookFrame(v19, 0x0900, r.U16(), false, 0, 0, body)
		if i%4 >= 2 {
			// the longest frames the protocol allows: besides the body, every header byte that can be is a delimiter or escape
			// byte too (message ID, version byte, phone, serial, package total and number) — 2080..2092 bytes on the wire
			n := 6
			if v19 {
				n = 10
			}
			sp := func() byte { return []byte{0x7e, 0x7d}[r.Intn(2)] }
			bcd := make([]byte, n)
			for k := range bcd {
				bcd[k] = sp()
			}
			q := ref.Params{ID: uint16(sp())<<8 | uint16(sp()), V2019: v19, VersionByt: sp(), BCD: bcd, Serial: uint16(sp())<<8 | uint16(sp()),
				Fragmented: true, Sum: 0x7e7e, No: uint16(0x7d00) | uint16(sp()), Body: body}
			if i%8 >= 6 { // one header field ordinary (the frame a byte or two shorter)
				q.Serial = r.U16()
			}
			b = ref.Build(q)
			c.Count("fully_escaped_frames", 1)
		}
		d := hookFrame(v19, 0x0200, r.U16(), false, 0, 0, c04Body(r, 2, 28))
		frames := [][]byte{a, b, d}
		s0, e0 := len(a), len(a)+len(b)
		run("big-frame", frames, nil)
		for k := 1; k <= 40; k++ {
			run("big-frame-tail-cut", frames, []int{e0 - k})
			run("big-frame-head-cut", frames, []int{s0 + k})
			run("big-frame-tail-cut", frames, []int{s0 + 1023, e0 - k})
			run("big-frame-tail-cut", frames, []int{1023, 2046, e0 - k})
		}
		// ... and the same frame followed by a second frame of maximal size: the read that follows the cut in the tail is a FULL
		// one (1023 bytes), so that what the parser holds (almost all of the first frame) plus one read is as large as it gets
		{
			b2 := hookFrame(v19, 0x0900, r.U16(), false, 0, 0, bytes.Repeat([]byte{0x7e}, 1023))
			frames2 := [][]byte{a, b, b2, d}
			for k := 1; k <= 12; k++ {
				run("big-frame-then-big-frame", frames2, []int{e0 - k})
				run("big-frame-then-big-frame", frames2, []int{s0 + 1023, s0 + 2046, e0 - k})
			}
		}
		c.Count("maximal_size_frames", 1)
	})
	// (4) ONE parser for a long time: tens of megabytes of big and small frames through the buffered path in reads of every size,
	// with the read boundaries drifting over every position of the frames. Lean oracle (no per-read stability pass): the
	// sequence of (ID, serial, body hash) extracted must equal the sequence sent.
	core.ParallelFor(c.N(8, 16), ncpu(), func(li int) {
		target := c.N(40, 160) << 20
		r := core.NewRand(c.Seed, "c04long", uint64(li))
		vp := service.NewVerifParser()
		type exp struct {
			id, serial uint16
			h          uint64
		}
		var want []exp
		var pending []byte
		sent, got, nframes := 0, 0, 0
		serial := uint16(0)
		bad := ""
		for sent < target && bad == "" {
			// refill the outgoing byte queue
			for len(pending) < 4096 {
				serial++
				var body []byte
				switch r.Intn(5) {
				case 0:
					body = nil
				case 1:
					body = c04Body(r, 2, 28)
				default:
					body = c04Body(r, 1, 1023-r.Intn(8)) // maximal wire size
				}
				id := core.Pick(r, []uint16{0x0002, 0x0200, 0x0900})
				pending = append(pending, hookFrameV(nframes%2 == 1, id, serial, false, 0, 0, body)...)
				want = append(want, exp{id, serial, core.HashBytes(body)})
				nframes++
			}
			n := 1 + r.Intn(1023)
			if r.Chance(1, 3) || li%4 == 3 {
				n = 1023 // (every fourth parser: maximal reads only, as a fast sender produces them)
			}
			msgs, err := vp.Feed(pending[:n])
			pending = pending[n:]
			sent += n
			if err != nil {
				bad = "stream|parser returned an error on a valid stream: " + core.NormPanic(err.Error())
				break
			}
			for _, m := range msgs {
				if got >= len(want) || m.ID != want[got].id || m.Serial != want[got].serial || core.HashBytes(m.Body) != want[got].h {
					bad = "stream|message extracted from a long-lived parser differs from the frame that was sent"
					break
				}
				got++
			}
			if len(want) > 4096 && got > 2048 { // keep the expectation window small
				want = want[2048:]
				got -= 2048
			}
		}
		c.Evals(int64(nframes))
		c.Count("long_lived_parser_megabytes", int64(sent>>20))
		if bad != "" {
			c.Violate(bad, fmt.Sprintf("after %d bytes (%d frames) through one parser", sent, nframes), map[string]any{"bytes_fed": sent, "frames": nframes})
		}
	})
	c.Floor("long_lived_parser_megabytes", 200)
	c.Floor("maximal_size_frames", 10)
	c.Floor("fully_escaped_frames", 4)
	c.Floor("aged_reads_ending_inside_a_frame", 100)
	c.Floor("streams_with_exhaustive_1_and_2_cuts", 10)
}
