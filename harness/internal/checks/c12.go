package checks

import (
	"bytes"
	"encoding/binary"
	"fmt"
	"sync"
	"sync/atomic"
	"time"

	"github.com/cuteLittleDevil/go-jt808/service"
	"github.com/cuteLittleDevil/go-jt808/shared/consts"

	"verif/harness/internal/core"
	"verif/harness/internal/ref"
	"verif/harness/internal/svc"
)

// C12 — platform commands are matched with their own responses.
// Every command body carries a unique 8-byte tag; the simulated terminal logs (platform serial <-> tag) for every
// command it reads and answers per script; each caller's result is paired with the serial that carried its tag.

func init() {
	register(core.Plan{
		Property: "C12", Level: "exploration",
		Parts: func(tier string) []core.Part {
			n := 4
			if tier == "thorough" {
				n = 32
			}
			return []core.Part{{Name: "commands", Bin: "raceov", Batches: n, Parallel: 4, TimeoutS: 900, Env: []string{"VERIF_YIELD=1"}},
				{Name: "steady-traffic", Bin: "plain", Batches: 1, Parallel: 1, TimeoutS: 120}}
		},
		Assumptions: []string{
			"unique tags make the history unambiguous: a caller's result is checked against the serial of the frame that carried its own tag, as logged by the terminal",
			"time is used only in the sound direction: a timeout result is illegal only if the terminal wrote the matching response more than max(T/2, 400 ms) before call start + T; a missing result is a violation only after T + 3 s + 20 T with the latency probe quiet",
			"0x1003 carries no serial and is outside the property's list of response types",
		},
	}, map[string]Worker{"commands": c12Worker, "steady-traffic": c12Steady})
}

var c12Cmds = []struct {
	Cmd  consts.JT808CommandType
	Resp uint16
}{
	{consts.P8103SetTerminalParams, 0x0001},
	{consts.P8104QueryTerminalParams, 0x0104},
	{consts.P8801CameraShootImmediateCommand, 0x0805},
	{consts.P9101RealTimeAudioVideoRequest, 0x0001},
	{consts.P9102AudioVideoControl, 0x0001},
	{consts.P9205QueryResourceList, 0x1205},
	{consts.P9206FileUploadInstructions, 0x1206},
	// the server matches a response by its echoed serial, not by command/response pairing: every response type is also
	// exercised with commands other than its usual partner
	{consts.P8106QuerySpecifyParam, 0x0104},
	{consts.P8105TerminalControl, 0x0001},
	{consts.P8201QueryLocation, 0x0001},
	{consts.P8300TextInfoDistribution, 0x0001},
	{consts.P8803StorageMultimediaDataUpload, 0x0805},
	{consts.P9201SendVideoRecordRequest, 0x1205},
	{consts.P9202SendVideoRecordControl, 0x0001},
	{consts.P9207FileUploadControl, 0x1206},
	{consts.P8107QueryTerminalProperties, 0x0104},
	{consts.P8202TmpLocationTrack, 0x1205},
}

// c12RaceOnly: command / response pairs that take part only when the scenarios run for the race detector (C18): the 0x1003
// answer to 0x9003 carries no serial, so C12's oracle cannot attribute it, but the code path exists and must be race-free.
var c12RaceOnly = []struct {
	Cmd  consts.JT808CommandType
	Resp uint16
}{{consts.P9003QueryTerminalAudioVideoProperties, 0x1003}}

func c12RespType(cmd uint16) uint16 {
	if svc.RaceMode && cmd == 0x9003 {
		return 0x1003
	}
	for _, x := range c12Cmds {
		if uint16(x.Cmd) == cmd {
			return x.Resp
		}
	}
	return 0
}

// c12Response builds the terminal's response to a command frame: echoes the platform serial, carries a token.
func c12Response(cmdID, pserial uint16, token uint32) (id uint16, body []byte) {
	s := []byte{byte(pserial >> 8), byte(pserial)}
	tk := binary.BigEndian.AppendUint32(nil, token)
	switch c12RespType(cmdID) {
	case 0x0001:
		return 0x0001, append(append(s, byte(cmdID>>8), byte(cmdID)), byte(token))
	case 0x0104:
		b := append(s, 1, 0, 0, 0xF0, 0x01, 4)
		return 0x0104, append(b, tk...)
	case 0x0805:
		b := append(s, 0, 0, 1)
		return 0x0805, append(b, tk...)
	case 0x1205:
		return 0x1205, append(s, 0, 0, 0, 0)
	case 0x1206:
		return 0x1206, append(s, byte(token))
	case 0x1003:
		return 0x1003, []byte{1, 2, 3, 4, 0, 5, 1, 1, 8, 8}
	}
	return 0, nil
}

// echoed serial inside a response body (all five response types start with it)
func c12Echo(body []byte) (uint16, bool) {
	if len(body) < 2 {
		return 0, false
	}
	return uint16(body[0])<<8 | uint16(body[1]), true
}

type c12Seen struct {
	pserial uint16
	cmd     uint16
	tag     uint64
	at      time.Time
	respAt  time.Time // zero: never answered
	respID  uint16
	resp    []byte
}

type c12Call struct {
	Tag      uint64
	Cmd      uint16
	Term     int
	Timeout  time.Duration
	Start    time.Time
	Res      cmdResult
	Script   string
	Expected string
}

var c12Scripts = []string{"inorder", "reversed-one-write", "late-within", "late-after-deadline", "duplicated", "unknown-serial-first", "never", "mixed", "reuse-object", "sub-packaged-response"}

type c12Scenario struct {
	Script    string `json:"terminal_script"`
	Terms     int    `json:"terminals"`
	Callers   int    `json:"callers_per_terminal"`
	TimeoutMs int    `json:"timeout_ms"`
	Base      int    `json:"key_base"`
	Traffic   bool   `json:"interleaved_heartbeats_and_locations"`
	PreRoll   int    `json:"pre_rolled_heartbeats"`
	// ZeroPhone: terminal 0 has the all-zero phone number (its key is the string of zeros, nothing trimmed), and connections
	// that never join (one unsupported message, then gone) come and go before and while it is commanded
	ZeroPhone bool `json:"terminal_0_has_the_all_zero_phone,omitempty"`
}

var c12ZeroBusy atomic.Bool

var c12Tag atomic.Uint64

func c12Run(srv *svc.Server, sc c12Scenario, r *core.Rand) (viol [][2]string, incon bool, poisoned bool, calls []*c12Call) {
	bad := func(sig, detail string) { viol = append(viol, [2]string{sig, detail}) }
	timeout := time.Duration(sc.TimeoutMs) * time.Millisecond
	slack := slackFor(timeout)
	type termState struct {
		t        *svc.Term
		mu       sync.Mutex
		seen     []*c12Seen
		replies  []svc.Rx // automatic replies (non-command frames) in order
		expRep   []*ref.Reply
		frames   int // frames written by the server so far (platform serial expectation)
		serialOK bool
		done     chan struct{}
		want     int
		hbSerial uint16
	}
	terms := make([]*termState, sc.Terms)
	for i := range terms {
		digits := fmt.Sprintf("%d", sc.Base+i)
		if sc.ZeroPhone && i == 0 {
			digits = "0"
		}
		t, err := svc.Dial(srv.Addr, r.Bool(), digits)
		if err != nil {
			return nil, true, false, nil
		}
		ts := &termState{t: t, done: make(chan struct{}), want: sc.Callers, serialOK: true}
		terms[i] = ts
		defer t.Close()
		// join
		if t.Write(t.Frame(0x0002, 1, nil)) != nil {
			return nil, true, false, nil
		}
		rx, ok, to := t.Next(20 * time.Second)
		if to || !ok || rx.F == nil {
			return nil, true, false, nil
		}
		ts.frames = 1
		if sc.PreRoll > 0 && i == 0 {
			// pre-roll the platform serial close to the wrap with pipelined heartbeats
			var buf []byte
			for k := 0; k < sc.PreRoll; k++ {
				buf = append(buf, t.Frame(0x0002, uint16(k+2), nil)...)
				if len(buf) > 32768 {
					t.Write(buf)
					buf = nil
				}
			}
			t.Write(buf)
			for k := 0; k < sc.PreRoll; k++ {
				rx, ok, to := t.Next(60 * time.Second)
				if to || !ok || rx.F == nil {
					return nil, true, false, nil
				}
				if int(rx.F.Serial) != ts.frames%65536 {
					ts.serialOK = false
				}
				ts.frames++
			}
		}
	}
	if sc.ZeroPhone {
		bystander := func(k int) {
			b, err := svc.Dial(srv.Addr, k%2 == 0, fmt.Sprintf("%d", sc.Base+9))
			if err != nil {
				return
			}
			b.Write(b.Frame(0x0900, uint16(k), []byte{1, 2, 3}))
			time.Sleep(2 * time.Millisecond)
			if k%3 == 0 {
				b.Reset()
			} else {
				b.Close()
			}
		}
		bystander(0)
		bystander(1)
		time.Sleep(30 * time.Millisecond)
		go func() {
			for k := 2; k < 8; k++ {
				bystander(k)
			}
		}()
	}
	// terminal behaviour
	for ti, ts := range terms {
		go func(ti int, ts *termState) {
			defer close(ts.done)
			t := ts.t
			r := core.NewRand(uint64(sc.Base), "c12term", uint64(ti))
			var held []*c12Seen
			var respSerial atomic.Uint32
			respond := func(s *c12Seen, token uint32, serialShift uint16) []byte {
				id, body := c12Response(s.cmd, s.pserial+serialShift, token)
				return t.Frame(id, uint16(0x4000+respSerial.Add(1)), body)
			}
			answer := func(s *c12Seen) {
				f := respond(s, uint32(s.tag), 0)
				ts.mu.Lock()
				s.respAt = time.Now()
				s.respID, s.resp = c12RespBody(f)
				ts.mu.Unlock()
				t.Write(f)
			}
			traffic := func() {
				if !sc.Traffic {
					return
				}
				ts.hbSerial++
				id := uint16(0x0002)
				var body []byte
				if r.Bool() {
					id = 0x0200
					body = make([]byte, 28)
					for i := 22; i < 28; i++ {
						body[i] = 0x11
					}
				}
				ts.mu.Lock()
				ts.expRep = append(ts.expRep, ref.ExpectedReply(id, 0x2000+ts.hbSerial, body, t.V2019, t.Phone))
				ts.mu.Unlock()
				t.Write(t.Frame(id, 0x2000+ts.hbSerial, body))
			}
			cmds := 0
			for {
				rx, ok, to := t.Next(timeout + slack + 5*time.Second)
				if to || !ok {
					return
				}
				ts.mu.Lock()
				if rx.F != nil {
					if int(rx.F.Serial) != ts.frames%65536 {
						ts.serialOK = false
					}
					ts.frames++
				}
				ts.mu.Unlock()
				if rx.F == nil {
					continue
				}
				if c12RespType(rx.F.ID) == 0 { // an automatic reply
					ts.mu.Lock()
					ts.replies = append(ts.replies, rx)
					ts.mu.Unlock()
					continue
				}
				s := &c12Seen{pserial: rx.F.Serial, cmd: rx.F.ID, at: time.Now()}
				if len(rx.F.Body) >= 8 {
					s.tag = binary.BigEndian.Uint64(rx.F.Body[len(rx.F.Body)-8:])
				}
				ts.mu.Lock()
				ts.seen = append(ts.seen, s)
				ts.mu.Unlock()
				cmds++
				script := sc.Script
				if script == "mixed" {
					script = c12Scripts[int(s.tag>>8)%7]
				}
				switch script {
				case "inorder":
					traffic()
					answer(s)
					traffic()
				case "reversed-one-write":
					held = append(held, s)
					if len(held) == ts.want {
						var buf []byte
						for i := len(held) - 1; i >= 0; i-- {
							h := held[i]
							f := respond(h, uint32(h.tag), 0)
							ts.mu.Lock()
							h.respAt = time.Now()
							h.respID, h.resp = c12RespBody(f)
							ts.mu.Unlock()
							buf = append(buf, f...)
							if sc.Traffic && i%2 == 0 {
								ts.hbSerial++
								ts.mu.Lock()
								ts.expRep = append(ts.expRep, ref.ExpectedReply(0x0002, 0x2000+ts.hbSerial, nil, t.V2019, t.Phone))
								ts.mu.Unlock()
								buf = append(buf, t.Frame(0x0002, 0x2000+ts.hbSerial, nil)...)
							}
						}
						t.Write(buf)
						held = nil
					}
				case "late-within":
					go func(s *c12Seen) { time.Sleep(timeout / 4); answer(s) }(s)
				case "late-after-deadline":
					go func(s *c12Seen) { time.Sleep(timeout + timeout/2 + 30*time.Millisecond); answer(s) }(s)
				case "duplicated":
					answer(s)
					traffic()
					t.Write(respond(s, uint32(s.tag), 0))
				case "unknown-serial-first":
					t.Write(respond(s, 0xdead, 1000))
					// and cut-down / malformed frames of every response type (the first 0..4 bytes of a body echoing an unknown
					// serial): whatever the parsers make of them, they complete nobody's command
					for _, rid := range []uint16{0x0805, 0x0104, 0x1205, 0x1206, 0x0001} {
						full := []byte{0xde, byte(0xa0 + cmds%16), 0x01, 0x00, 0x01}
						t.Write(t.Frame(rid, uint16(0x5000+respSerial.Add(1)), full[:cmds%5+int(rid%3)%2]))
					}
					traffic()
					answer(s)
				case "never":
					traffic()
				case "sub-packaged-response":
					// the response travels as 2..3 sub-packages (a long parameter or resource list does), with ordinary traffic
					// between the parts; it is matched once reassembled
					id, body := c12Response(s.cmd, s.pserial, uint32(s.tag))
					n := 2 + int(s.tag)%2
					if n > len(body) {
						n = len(body)
					}
					base := uint16(0x6000 + respSerial.Add(4))
					ts.mu.Lock()
					s.respID, s.resp = id, body
					ts.mu.Unlock()
					for k := 1; k <= n; k++ {
						part := body[(k-1)*len(body)/n : k*len(body)/n]
						if k == n {
							ts.mu.Lock()
							s.respAt = time.Now()
							ts.mu.Unlock()
						}
						t.Write(t.SubFrame(id, base+uint16(k), uint16(n), uint16(k), part))
						if k < n {
							traffic()
						}
					}
				case "reuse-object":
					// the caller re-sends the SAME *ActiveMessage object: first command answered at once, the second one
					// (flag bit 7 of the tag) only after 3/4 of the timeout, when a leftover timer of the first could hit it
					if s.tag&0x80 != 0 {
						go func(s *c12Seen) { time.Sleep(timeout * 3 / 4); answer(s) }(s)
					} else {
						answer(s)
					}
				}
			}
		}(ti, ts)
	}
	// callers
	var wg sync.WaitGroup
	var cmu sync.Mutex
	for ti, ts := range terms {
		for k := 0; k < sc.Callers; k++ {
			wg.Add(1)
			cmd := c12Cmds[r.Intn(len(c12Cmds))]
			if svc.RaceMode && r.Chance(1, 6) {
				cmd = c12RaceOnly[0]
			}
			go func(ti int, ts *termState, k int) {
				defer wg.Done()
				tag := c12Tag.Add(1)<<16 | uint64(ti)<<8 | uint64(k&0x7f)
				body := binary.BigEndian.AppendUint64([]byte{1, 0, 0, 0xF0, 0x02, 8}, tag)
				call := &c12Call{Tag: tag, Cmd: uint16(cmd.Cmd), Term: ti, Timeout: timeout, Start: time.Now(), Script: sc.Script}
				if sc.Script != "reuse-object" {
					call.Res = sendCmd(srv.G, ts.t.Phone, cmd.Cmd, body, timeout, timeout+slack)
					cmu.Lock()
					calls = append(calls, call)
					cmu.Unlock()
					return
				}
				// sequential reuse of one ActiveMessage object (the pattern of the repository's camera example)
				am := service.NewActiveMessage(ts.t.Phone, cmd.Cmd, body, timeout)
				call.Res = sendCmdObj(srv.G, am, timeout+slack)
				cmu.Lock()
				calls = append(calls, call)
				cmu.Unlock()
				time.Sleep(timeout / 2)
				tag2 := tag | 0x80
				am.Body = binary.BigEndian.AppendUint64([]byte{1, 0, 0, 0xF0, 0x02, 8}, tag2)
				call2 := &c12Call{Tag: tag2, Cmd: uint16(cmd.Cmd), Term: ti, Timeout: timeout, Start: time.Now(), Script: sc.Script}
				call2.Res = sendCmdObj(srv.G, am, timeout+slack)
				cmu.Lock()
				calls = append(calls, call2)
				cmu.Unlock()
			}(ti, ts, k)
		}
	}
	wg.Wait()
	// let late responses / trailing replies arrive, then stop the terminals
	time.Sleep(30 * time.Millisecond)
	if sc.Script == "late-after-deadline" || sc.Script == "mixed" {
		time.Sleep(timeout + timeout/2 + 60*time.Millisecond)
	}
	for _, ts := range terms {
		// sentinel heartbeat: once its reply is in, every earlier automatic reply has been seen
		ts.mu.Lock()
		ts.expRep = append(ts.expRep, ref.ExpectedReply(0x0002, 0x7777, nil, ts.t.V2019, ts.t.Phone))
		ts.mu.Unlock()
		ts.t.Write(ts.t.Frame(0x0002, 0x7777, nil))
	}
	deadline := time.Now().Add(20 * time.Second)
	for _, ts := range terms {
		for {
			ts.mu.Lock()
			got, want := len(ts.replies), len(ts.expRep)
			ts.mu.Unlock()
			if got >= want {
				break
			}
			if time.Now().After(deadline) {
				incon = true
				break
			}
			time.Sleep(2 * time.Millisecond)
		}
	}
	if probeMax.Load() > 750 {
		return nil, true, false, calls
	}
	// ---- oracles
	for ti, ts := range terms {
		ts.mu.Lock()
		// exactly once per tag
		count := map[uint64]int{}
		byTag := map[uint64]*c12Seen{}
		for _, s := range ts.seen {
			count[s.tag]++
			byTag[s.tag] = s
		}
		for _, call := range calls {
			if call.Term != ti {
				continue
			}
			n := count[call.Tag]
			s := byTag[call.Tag]
			switch call.Res.kind {
			case "stranded":
				bad("noresult|SendActiveMessage returned no result within timeout + slack|"+sc.Script, fmt.Sprintf("terminal %d tag %x: call started %v ago, timeout %v; service goroutines: %v", ti, call.Tag, time.Since(call.Start), timeout, goroutineDump()))
				poisoned = true
				continue
			case "notexist", "othererr":
				bad("result|command to an online terminal failed with "+call.Res.kind, fmt.Sprintf("terminal %d tag %x err %v", ti, call.Tag, call.Res.msg.ExtensionFields.Err))
				continue
			}
			if n != 1 {
				if !(call.Res.kind == "writefail" && n == 0) {
					bad("delivery|command seen by the terminal a number of times other than once", fmt.Sprintf("terminal %d tag %x seen %d times, result %s", ti, call.Tag, n, call.Res.kind))
				}
				continue
			}
			if s.cmd != call.Cmd {
				bad("delivery|command arrived with a different command ID", fmt.Sprintf("tag %x sent as %04x seen as %04x", call.Tag, call.Cmd, s.cmd))
			}
			switch call.Res.kind {
			case "response":
				m := call.Res.msg
				echo, ok := c12Echo(m.JTMessage.Body)
				want := c12RespType(call.Cmd)
				switch {
				case m.JTMessage == nil || m.JTMessage.Header == nil:
					bad("result|response without a message", "")
				case m.JTMessage.Header.ID != want:
					bad("match|caller received a response of the wrong type", fmt.Sprintf("tag %x cmd %04x got %04x want %04x", call.Tag, call.Cmd, m.JTMessage.Header.ID, want))
				case !ok || echo != s.pserial:
					bad("match|caller received a response that echoes another command's serial", fmt.Sprintf("terminal %d tag %x: its command went out with serial %d, the response handed to the caller echoes %d (script %s)", ti, call.Tag, s.pserial, echo, sc.Script))
				case s.resp != nil && !bytes.Equal(m.JTMessage.Body, s.resp):
					bad("match|caller received a response body the terminal did not write for its command", fmt.Sprintf("tag %x got %x want %x", call.Tag, m.JTMessage.Body, s.resp))
				case m.ExtensionFields.PlatformSeq != s.pserial:
					bad("match|result reports a platform serial other than the one that carried the command", fmt.Sprintf("tag %x reported %d carried %d", call.Tag, m.ExtensionFields.PlatformSeq, s.pserial))
				}
				if s.respAt.IsZero() {
					bad("match|caller received a response although the terminal never answered its command", fmt.Sprintf("tag %x script %s", call.Tag, sc.Script))
				}
			case "timeout":
				if sc.Script == "reuse-object" && call.Res.dur < timeout*9/10 {
					bad("timeout|timeout result long before the configured duration elapsed", fmt.Sprintf("tag %x (re-sent ActiveMessage object): returned after %v, timeout %v", call.Tag, call.Res.dur, timeout))
				}
				margin := timeout / 2
				if margin < 400*time.Millisecond {
					margin = 400 * time.Millisecond
				}
				if !s.respAt.IsZero() && s.respAt.Add(margin).Before(call.Start.Add(timeout)) {
					bad("timeout|timeout result although the terminal had answered with margin", fmt.Sprintf("tag %x: response written %v after call start, timeout %v (script %s)", call.Tag, s.respAt.Sub(call.Start), timeout, sc.Script))
				}
				if call.Res.dur < timeout-5*time.Millisecond {
					bad("timeout|timeout result before the configured duration elapsed", fmt.Sprintf("tag %x returned after %v, timeout %v", call.Tag, call.Res.dur, timeout))
				}
			}
		}
		// commands nobody sent
		for tag, n := range count {
			found := false
			for _, call := range calls {
				if call.Tag == tag {
					found = true
				}
			}
			if !found {
				bad("delivery|terminal received a command no caller sent to it", fmt.Sprintf("terminal %d tag %x x%d", ti, tag, n))
			}
		}
		if !ts.serialOK {
			bad("serial|frames written to a terminal (commands and replies) do not carry consecutive platform serials", fmt.Sprintf("terminal %d", ti))
		}
		// non-response traffic answered normally, in order
		if !incon {
			if len(ts.replies) != len(ts.expRep) {
				bad("traffic|automatic replies to interleaved traffic missing or extra", fmt.Sprintf("terminal %d: %d replies for %d requests (script %s)", ti, len(ts.replies), len(ts.expRep), sc.Script))
			} else {
				for i, e := range ts.expRep {
					g := ts.replies[i]
					if e == nil || g.F == nil || g.F.ID != e.ID || (!e.SkipBody && !bytes.Equal(g.F.Body, e.Body)) {
						bad("traffic|wrong automatic reply to interleaved traffic", fmt.Sprintf("terminal %d reply %d: %x", ti, i, g.Raw))
						break
					}
				}
			}
		}
		ts.mu.Unlock()
	}
	return
}

func c12RespBody(frame []byte) (uint16, []byte) {
	f, ok := ref.Validate(frame)
	if !ok {
		return 0, nil
	}
	return f.ID, f.Body
}

func c12Worker(c *core.Collector, x *Ctx) {
	c.Rule = "scenarios: 1-4 terminals x 1-6 concurrent callers each x commands {8103,8104,8801,9101,9102,9205,9206} x timeout {30 ms..2 s} x terminal script {in order, reversed in one write, late within the timeout, late after the deadline, duplicated, unknown serial first, never, mixed, response sent as 2-3 sub-packages}, " +
		"with heartbeats / location reports interleaved, terminals pre-rolled so that the commands' platform serials sit at the wrap, at 125/126 and at 0x7d00 / 0x7e7e (escaped serial bytes); seeded delay injection. evaluation = one SendActiveMessage call; distinct by (scenario parameters, yield trace hash)"
	startProbe()
	seed := c.Seed*1000 + uint64(x.Batch) + 500000
	yielding := svc.YieldFromEnv(seed)
	srv, err := svc.Start(func() service.TerminalEventer { return svc.NewRecorder() })
	if err != nil {
		c.Inconclusive()
		return
	}
	r := core.NewRand(c.Seed, "c12", uint64(x.Batch))
	n := c.N(100, 400)
	var list []c12Scenario
	for i := 0; i < n; i++ {
		sc := c12Scenario{Script: c12Scripts[i%len(c12Scripts)], Terms: 1 + r.Intn(4), Callers: 1 + r.Intn(6),
			TimeoutMs: core.Pick(r, []int{30, 60, 120, 400, 2000}), Base: 2000000 + x.Batch*100000 + i*10, Traffic: r.Chance(2, 3)}
		if sc.Script == "never" || sc.Script == "late-after-deadline" {
			sc.TimeoutMs = core.Pick(r, []int{30, 60, 120})
		}
		if sc.Script == "reuse-object" {
			sc.TimeoutMs = core.Pick(r, []int{400, 800})
			sc.Callers = 1 + r.Intn(2)
		}
		if i%8 == 0 && sc.Script == "inorder" {
			sc.TimeoutMs = 2000 // immediate answers with a long timeout: a timeout result is decidable as illegal
		}
		if r.Chance(1, 10) {
			sc.Callers = 6 + r.Intn(10) // many simultaneous completions on one connection
			sc.Terms = 1
		}
		sc.ZeroPhone = i%9 == 4
		list = append(list, sc)
	}
	// serial wrap: first scenario of batch 0, alone, with delay injection switched off during the pre-roll
	if x.Batch == 0 {
		svc.YieldLevel.Store(0)
		// pre-rolled terminals: the commands get platform serials around the wrap (65530..), around 125/126 (low byte 7d / 7e:
		// the serial is escaped on the wire) and around 0x7d00 / 0x7e7e (high byte, both bytes)
		for wi, pre := range []int{65530, 119, 0x7d00 - 6, 0x7e7e - 6, 65530} {
			sc := c12Scenario{Script: []string{"reversed-one-write", "inorder", "reversed-one-write", "inorder", "unknown-serial-first"}[wi], Terms: 1, Callers: 12, TimeoutMs: 2000, Base: 2900000 + wi*10, Traffic: true, PreRoll: pre}
			viol, incon, _, calls := c12Run(srv, sc, core.NewRand(c.Seed, "c12wrap", uint64(wi)))
			c.Evals(int64(len(calls)))
			c.Count("wrap_scenarios", 1)
			if incon {
				c.Inconclusive()
			}
			for _, v := range viol {
				c.Violate(v[0], v[1], sc)
			}
		}
		svc.YieldLevel.Store(1)
	}
	traces := map[uint64]bool{}
	var tmu sync.Mutex
	kinds := map[string]int64{}
	sem := make(chan struct{}, 6)
	var wg sync.WaitGroup
	var stop atomic.Bool
	for i, sc := range list {
		if stop.Load() {
			break
		}
		wg.Add(1)
		sem <- struct{}{}
		go func(i int, sc c12Scenario) {
			defer wg.Done()
			defer func() { <-sem }()
			if sc.ZeroPhone {
				// one scenario at a time may own the all-zero phone
				if c12ZeroBusy.CompareAndSwap(false, true) {
					defer c12ZeroBusy.Store(false)
					c.Count("scenarios_with_the_all_zero_phone", 1)
				} else {
					sc.ZeroPhone = false
				}
			}
			x.Journal.Log(false, "scenario %d %+v", i, sc)
			mark := svc.TraceMark()
			viol, incon, poisoned, calls := c12Run(srv, sc, core.NewRand(c.Seed, "c12s", uint64(x.Batch*100000+i)))
			h, nsites := svc.TraceHash(mark)
			c.Evals(int64(len(calls)))
			c.Count("scenarios", 1)
			tmu.Lock()
			for _, cl := range calls {
				kinds[cl.Res.kind]++
			}
			if nsites > 0 {
				traces[h] = true
			}
			tmu.Unlock()
			c.NonTrivial(core.HashString(fmt.Sprintf("%+v/%x", sc, h)))
			if incon {
				c.Inconclusive()
			}
			for _, v := range viol {
				c.Violate(v[0], v[1], sc)
			}
			if poisoned {
				stop.Store(true)
			}
			if i%29 == 0 {
				res := []string{}
				for _, cl := range calls {
					res = append(res, fmt.Sprintf("%04x->%s", cl.Cmd, cl.Res.kind))
				}
				c.Sample(map[string]any{"scenario": sc, "call_results": res})
			}
		}(i, sc)
	}
	wg.Wait()
	for k, v := range kinds {
		c.Count("result_"+k, v)
	}
	c.Count("distinct_yield_traces", int64(len(traces)))
	d, tot := svc.SitesHit()
	c.Count("yield_sites_hit", int64(d))
	c.Count("yield_calls", int64(tot))
	if yielding {
		c.Floor("yield_sites_hit", 15)
	}
	c.Floor("result_response", 50)
	c.Floor("result_timeout", 5)
}
