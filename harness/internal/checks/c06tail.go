package checks

import (
	"bytes"
	"fmt"
	"time"

	"github.com/cuteLittleDevil/go-jt808/shared/consts"

	"verif/harness/internal/core"
	"verif/harness/internal/gen"
	"verif/harness/internal/ref"
	"verif/harness/internal/svc"
)

// C06 monitor 2 (tail bursts): a request followed, in the same write, by messages that get no reply (response-type
// IDs with nobody waiting for them, the first n-1 fragments of a sub-packaged upload). The reply to the request is
// owed as soon as the request has been handled: the terminal must not have to send anything further to get it.
// Decided on relative timing, not on a deadline: a reply that does not show up during a long quiet wait W but
// arrives within W/10 of the NEXT message being sent was withheld until later traffic (violation); a reply that
// arrives neither way is inconclusive.

func c06TailBurst(addr string, cid int, seed uint64, rounds int) (viol [][2]string, incon bool, done int) {
	bad := func(sig, detail string) { viol = append(viol, [2]string{sig, detail}) }
	g := gen.G{Rand: core.NewRand(seed, "c06tail", uint64(cid))}
	v2019 := g.Bool()
	t, err := svc.Dial(addr, v2019, fmt.Sprintf("%d", 6600000+cid))
	if err != nil {
		return nil, true, 0
	}
	defer t.Close()
	const W = 1500 * time.Millisecond
	serial := uint16(g.Intn(60000))
	withheld := 0
	for round := 0; round < rounds; round++ {
		rid := core.Pick(g.Rand, []uint16{0x0002, 0x0200, 0x0100, 0x0704})
		body := c06Body(g, rid, v2019, t.Phone)
		serial++
		rs := serial
		burst := t.Frame(rid, rs, body)
		exp := ref.ExpectedReply(rid, rs, body, v2019, t.Phone)
		// the non-replying tail
		kind := g.Intn(3)
		var fragLast []byte
		var fragFull []byte
		switch kind {
		case 0, 1:
			for k := 1 + g.Intn(5); k > 0; k-- {
				id := core.Pick(g.Rand, []uint16{0x0001, 0x0104, 0x0805, 0x1205, 0x1206})
				var b []byte
				switch id {
				case 0x0001:
					b = []byte{g.U8(), g.U8(), 0x81, 0x03, 0}
				case 0x0104:
					b = []byte{g.U8(), g.U8(), 1, 0, 0, 0, 1, 4, 0, 0, 0, 9}
				case 0x0805:
					b = []byte{g.U8(), g.U8(), 0, 0, 1, 0, 0, 0, 7}
				case 0x1205:
					b = []byte{g.U8(), g.U8(), 0, 0, 0, 0}
				case 0x1206:
					b = []byte{g.U8(), g.U8(), 0}
				}
				serial++
				burst = append(burst, t.Frame(id, serial, b)...)
			}
		default: // fragments 1..n-1 of an n-part 0x0801; the last part is sent after the observation (completes the transfer)
			n := 2 + g.Intn(3)
			fragFull = c06Body(g, 0x0801, v2019, t.Phone)
			for len(fragFull) < 36+n {
				fragFull = append(fragFull, 0x33)
			}
			base := serial + 1
			for k := 1; k <= n; k++ {
				part := fragFull[(k-1)*len(fragFull)/n : k*len(fragFull)/n]
				f := t.SubFrame(0x0801, base+uint16(k-1), uint16(n), uint16(k), part)
				if k < n {
					burst = append(burst, f...)
				} else {
					fragLast = f
				}
			}
			serial += uint16(n)
		}
		if t.Write(burst) != nil {
			bad("reply|connection closed by the server during a valid conversation", fmt.Sprintf("tail-burst conn %d round %d", cid, round))
			return
		}
		check := func(rx svc.Rx, what string) bool {
			if rx.F == nil || exp == nil || rx.F.ID != exp.ID || (!exp.SkipBody && !bytes.Equal(rx.F.Body, exp.Body)) {
				bad("reply|wrong reply body (echoed serial/ID/result/auth code/multimedia ID)|tail-burst", fmt.Sprintf("conn %d round %d (%s): request %04x serial %d answered with %x", cid, round, what, rid, rs, rx.Raw))
				return false
			}
			return true
		}
		rx, ok, to := t.Next(W)
		switch {
		case !ok && !to:
			bad("reply|connection closed by the server during a valid conversation", fmt.Sprintf("tail-burst conn %d round %d", cid, round))
			return
		case to:
			// quiet for W: now the next message goes out; does the owed reply come with it?
			serial++
			ss := serial
			t0 := time.Now()
			t.Write(t.Frame(0x0002, ss, nil))
			r1, ok1, to1 := t.Next(W)
			if to1 || !ok1 {
				return viol, true, done // neither way: slow machine or dead connection, not decided here
			}
			if time.Since(t0) < W/10 && check(r1, "after the next message") {
				withheld++
				if withheld < 3 {
					// a loaded machine can delay one reply by more than W: only a pattern that repeats is a verdict.
					// Drain the sentinel's own reply so that the next round starts in step.
					if _, okd, tod := t.Next(W); tod || !okd {
						return viol, true, done
					}
					continue
				}
				bad("reply|reply withheld until later traffic arrived", fmt.Sprintf("conn %d round %d: request %04x (followed in the same write by %s) got no reply during %v of silence, and was answered %v after the next message was sent", cid, round, rid, []string{"response-type messages", "response-type messages", "fragments 1..n-1 of a sub-packaged upload"}[kind], W, time.Since(t0).Round(time.Millisecond)))
				return
			}
			return viol, true, done
		default:
			if !check(rx, "in time") {
				return
			}
		}
		if fragLast != nil { // complete the transfer: exactly one 0x8800 for it
			t.Write(fragLast)
			rx, ok, to := t.Next(30 * time.Second)
			if to {
				return viol, true, done
			}
			if !ok || rx.F == nil || rx.F.ID != 0x8800 || !bytes.Equal(rx.F.Body, fragFull[:4]) {
				bad("reply|wrong reply type|tail-burst", fmt.Sprintf("conn %d round %d: completed 0x0801 answered with %x", cid, round, rx.Raw))
				return
			}
		}
		done++
	}
	return
}

// c06Reissue: the re-request (0x8003) is a frame the server writes like any other: it takes the next platform serial and the
// frames after it continue the numbering. One connection per suite: packet 1 of 2, 5.3 s of silence, a heartbeat (=> 0x8003 and
// 0x8001), the missing packet (=> 0x8800), a heartbeat (=> 0x8001); serials must be 0,1,2,3.
func c06Reissue(addr string, cid int) (viol [][2]string, incon bool, frames int) {
	bad := func(sig, detail string) { viol = append(viol, [2]string{sig, detail}) }
	t, err := svc.Dial(addr, cid%2 == 1, fmt.Sprintf("%d", 6700000+cid))
	if err != nil {
		return nil, true, 0
	}
	defer t.Close()
	body := make([]byte, 60)
	for i := range body {
		body[i] = byte(0x30 + i%40)
	}
	t.Write(t.SubFrame(0x0801, 10, 2, 1, body[:30]))
	time.Sleep(6000 * time.Millisecond) // the server's idle clock starts when IT has handled the packet: a second of margin for a loaded machine
	t.Write(t.Frame(0x0002, 20, nil))
	var ids []uint16
	next := func() bool {
		rx, ok, to := t.Next(20 * time.Second)
		if to {
			incon = true
			return false
		}
		if !ok || rx.F == nil {
			bad("reply|connection closed by the server during a valid conversation", fmt.Sprintf("re-request scenario conn %d after %d frames", cid, frames))
			return false
		}
		if int(rx.F.Serial) != frames {
			bad("serial|platform serial numbers not consecutive from 0 (mod 65536)", fmt.Sprintf("conn %d: frame #%d written by the server (id %04x, after a re-request) carries serial %d", cid, frames, rx.F.ID, rx.F.Serial))
			return false
		}
		frames++
		ids = append(ids, rx.F.ID)
		return true
	}
	if !next() || !next() {
		return
	}
	t.Write(t.SubFrame(0x0801, 11, 2, 2, body[30:]))
	if !next() {
		return
	}
	t.Write(t.Frame(0x0002, 21, nil))
	if !next() {
		return
	}
	n8003, n8800, n8001 := 0, 0, 0
	for _, id := range ids {
		switch id {
		case 0x8003:
			n8003++
		case 0x8800:
			n8800++
		case 0x8001:
			n8001++
		}
	}
	if n8003 != 1 || n8800 != 1 || n8001 != 2 {
		bad("reply|wrong reply type|re-request scenario", fmt.Sprintf("conn %d: frames %04x", cid, ids))
	}
	// callbacks: the read callbacks saw what the TERMINAL sent that was handled and complete — two heartbeats and the
	// reassembled upload — and nothing the server made up itself (the re-request is the server's own frame); the write callbacks
	// saw the four frames written
	if !svc.RaceMode && len(viol) == 0 {
		t.Close()
		rec := svc.Lookup(t.Phone, 10) // (the connection joined with its first handled message: packet 1, serial 10)
		if rec == nil {
			rec = svc.Lookup(t.Phone, 20)
		}
		if rec != nil && rec.WaitLeave(20*time.Second) {
			reads := 0
			for _, e := range rec.ReaderLog() {
				if e.Kind != "read" {
					continue
				}
				reads++
				if e.ID == 0x8003 {
					bad("callback|read callbacks != one per handled complete message", fmt.Sprintf("conn %d: the server's own re-request (0x8003) was reported to the read callbacks as a message of the terminal", cid))
				}
			}
			if reads != 3 {
				bad("callback|read callbacks != one per handled complete message", fmt.Sprintf("conn %d (re-request scenario): %d read callbacks for 3 handled complete messages", cid, reads))
			}
			if w := len(rec.WriterLog()); w != 4 {
				bad("callback|write callbacks != one per reply", fmt.Sprintf("conn %d (re-request scenario): %d write callbacks for 4 frames written", cid, w))
			}
		}
	}
	return
}

// c06Pipelined: two sub-packaged 0x0801 uploads sent back to back in ONE write (the terminal does not wait for the first 0x8800
// before it starts the second), the second with no more packets than the first; then a heartbeat. Every upload is answered with
// its OWN multimedia ID, in completion order, platform serials consecutive.
func c06Pipelined(addr string, cid int, seed uint64, rounds int) (viol [][2]string, incon bool, done int) {
	bad := func(sig, detail string) { viol = append(viol, [2]string{sig, detail}) }
	g := gen.G{Rand: core.NewRand(seed, "c06pipe", uint64(cid))}
	v2019 := g.Bool()
	t, err := svc.Dial(addr, v2019, fmt.Sprintf("%d", 6800000+cid))
	if err != nil {
		return nil, true, 0
	}
	defer t.Close()
	serial := uint16(g.Intn(30000))
	pserial := 0
	for round := 0; round < rounds; round++ {
		na := 2 + g.Intn(4)
		nb := 1 + g.Intn(na)
		if nb < 2 {
			nb = 2
		}
		mkBody := func(tag byte) []byte {
			b := c06Body(g, 0x0801, v2019, t.Phone)
			for len(b) < 36+8 {
				b = append(b, 0x33)
			}
			b[0], b[1], b[2], b[3] = tag, byte(round), byte(cid), byte(g.Intn(256))
			return b
		}
		ba, bb := mkBody(0xA1), mkBody(0xB2)
		var burst []byte
		for k := 1; k <= na; k++ {
			serial++
			burst = append(burst, t.SubFrame(0x0801, serial, uint16(na), uint16(k), ba[(k-1)*len(ba)/na:k*len(ba)/na])...)
		}
		for k := 1; k <= nb; k++ {
			serial++
			burst = append(burst, t.SubFrame(0x0801, serial, uint16(nb), uint16(k), bb[(k-1)*len(bb)/nb:k*len(bb)/nb])...)
		}
		serial++
		hs := serial
		if g.Bool() {
			burst = append(burst, t.Frame(0x0002, hs, nil)...)
			t.Write(burst)
		} else {
			t.Write(burst)
			t.Write(t.Frame(0x0002, hs, nil))
		}
		var ids [][]byte
		for q := 0; q < 3; q++ {
			rx, ok, to := t.Next(30 * time.Second)
			if to {
				return viol, true, done
			}
			if !ok || rx.F == nil {
				bad("reply|connection closed by the server during a valid conversation", fmt.Sprintf("pipelined uploads conn %d round %d", cid, round))
				return
			}
			if int(rx.F.Serial) != pserial%65536 {
				bad("serial|platform serial numbers not consecutive from 0 (mod 65536)", fmt.Sprintf("pipelined uploads conn %d: frame #%d carries %d", cid, pserial, rx.F.Serial))
				return
			}
			pserial++
			if rx.F.ID == 0x8800 {
				ids = append(ids, rx.F.Body)
			}
		}
		if len(ids) != 2 || !bytes.Equal(ids[0], ba[:4]) || !bytes.Equal(ids[1], bb[:4]) {
			bad("reply|wrong reply body (echoed serial/ID/result/auth code/multimedia ID)|pipelined-uploads", fmt.Sprintf("conn %d round %d: uploads %x (%d parts) and %x (%d parts) sent back to back were answered with %x", cid, round, ba[:4], na, bb[:4], nb, ids))
			return
		}
		done++
	}
	return
}

// c06ModularUpload: a small 0x0801 (multimedia ID A) and then a sub-packaged 0x0801 (ID B) of 66 packets whose packets other
// than the completing one hold exactly 65 536 bytes — the reassembled body's length equals the completing packet's own body
// length modulo 2^16. Each upload is answered once with ITS multimedia ID; platform serials are consecutive.
func c06ModularUpload(addr string, cid int, seed uint64) (viol [][2]string, incon bool, frames int) {
	bad := func(sig, detail string) { viol = append(viol, [2]string{sig, detail}) }
	r := core.NewRand(seed, "c06mod", uint64(cid))
	t, err := svc.Dial(addr, cid%2 == 1, fmt.Sprintf("%d", 6800000+cid))
	if err != nil {
		return nil, true, 0
	}
	defer t.Close()
	next := func(wantID uint16, wantBody []byte, what string) bool {
		rx, ok, to := t.Next(30 * time.Second)
		if to {
			incon = true
			return false
		}
		if !ok || rx.F == nil {
			bad("reply|connection closed by the server during a valid conversation", fmt.Sprintf("modular upload conn %d at %s", cid, what))
			return false
		}
		if int(rx.F.Serial) != frames {
			bad("serial|platform serial numbers not consecutive from 0 (mod 65536)", fmt.Sprintf("conn %d: frame #%d (%s) carries serial %d", cid, frames, what, rx.F.Serial))
			return false
		}
		frames++
		if rx.F.ID != wantID || !bytes.Equal(rx.F.Body, wantBody) {
			bad(fmt.Sprintf("reply|wrong reply body (multimedia ID)|0x0801"), fmt.Sprintf("conn %d %s: got %04x %x want %04x %x", cid, what, rx.F.ID, rx.F.Body, wantID, wantBody))
			return false
		}
		return true
	}
	small := append([]byte{0x33, 0x33, byte(cid), 0x33}, r.Bytes(60)...)
	t.Write(t.Frame(0x0801, 1, small))
	if !next(0x8800, small[:4], "the small upload") {
		return
	}
	var bodies [][]byte
	for k := 0; k < 64; k++ {
		bodies = append(bodies, r.Bytes(1023))
	}
	bodies = append(bodies, r.Bytes(64), r.Bytes(64))
	bodies[0][0], bodies[0][1], bodies[0][2], bodies[0][3] = 0x44, 0x44, byte(cid), 0x44
	order := []int{}
	for k := 1; k <= 64; k++ {
		order = append(order, k)
	}
	if cid%2 == 0 {
		order = append(order, 65, 66)
	} else {
		order = append(order, 66, 65)
	}
	var buf []byte
	for _, k := range order {
		buf = append(buf, t.SubFrame(0x0801, uint16(100+k), 66, uint16(k), bodies[k-1])...)
		if len(buf) > 20000 {
			t.Write(buf)
			buf = nil
		}
	}
	t.Write(buf)
	if !next(0x8800, bodies[0][:4], "the 66-packet upload of 65 536 + 64 bytes") {
		return
	}
	t.Write(t.Frame(0x0002, 500, nil))
	next(0x8001, []byte{0x01, 0xf4, 0x00, 0x02, 0x00}, "the heartbeat after it")
	return
}

// c06QuietSpell: real time without traffic. A terminal connects and waits 10.6 s before its first message (variant: sends a
// heartbeat at once, then is silent for 10.6 s); the request that ends the silence is answered like any other — reply sent,
// platform serial next in line, callbacks as prescribed. Deadlines a server keeps on its socket must not count idle time.
func c06QuietSpell(addr string, cid int, quiet time.Duration) (viol [][2]string, incon bool, frames int) {
	bad := func(sig, detail string) { viol = append(viol, [2]string{sig, detail}) }
	t, err := svc.Dial(addr, cid%2 == 1, fmt.Sprintf("%d", 6900000+cid))
	if err != nil {
		return nil, true, 0
	}
	defer t.Close()
	expect := func(id, serial uint16, body []byte, what string) bool {
		exp := ref.ExpectedReply(id, serial, body, t.V2019, t.Phone)
		rx, ok, to := t.Next(20 * time.Second)
		switch {
		case to:
			// silence: is the server alive for others? then this terminal is owed a reply
			if serverAnswersFreshConnection(addr) {
				bad("reply|an owed reply never came although the server answers fresh connections at once", fmt.Sprintf("conn %d: %s", cid, what))
			} else {
				incon = true
			}
			return false
		case !ok || rx.F == nil:
			bad("reply|connection closed by the server during a valid conversation", fmt.Sprintf("conn %d: %s", cid, what))
			return false
		case int(rx.F.Serial) != frames:
			bad("serial|platform serial numbers not consecutive from 0 (mod 65536)", fmt.Sprintf("conn %d: %s carries serial %d, want %d", cid, what, rx.F.Serial, frames))
			return false
		case exp == nil || rx.F.ID != exp.ID || (!exp.SkipBody && !bytes.Equal(rx.F.Body, exp.Body)):
			bad("reply|wrong reply type|quiet spell", fmt.Sprintf("conn %d: %s: got %04x %x", cid, what, rx.F.ID, rx.F.Body))
			return false
		}
		frames++
		return true
	}
	if cid%2 == 0 {
		t.Write(t.Frame(0x0002, 1, nil))
		if !expect(0x0002, 1, nil, "the heartbeat before the quiet spell") {
			return
		}
	}
	time.Sleep(quiet)
	loc := make([]byte, 28)
	for i := 22; i < 28; i++ {
		loc[i] = 0x11
	}
	t.Write(t.Frame(0x0200, 2, loc))
	if !expect(0x0200, 2, loc, fmt.Sprintf("the location report after %v of silence", quiet)) {
		return
	}
	t.Write(t.Frame(0x0002, 3, nil))
	expect(0x0002, 3, nil, "the heartbeat after it")
	return
}

// c06OversizedCommand: every frame the server writes takes the next platform serial — also a platform command that the application
// sends with a body longer than the 10-bit length field can express (a parameter list that grew too long). Whatever the server
// does with such a command, the frames that DO leave carry consecutive numbers: replies before and after it, an ordinary command
// in between, and the oversized frame itself if it is written (it cannot be decoded; its serial is read at the header offset).
// (seed C06w1: the oversized command is refused after its serial was taken.)
func c06OversizedCommand(srv *svc.Server, cid int) (viol [][2]string, incon bool, frames int) {
	bad := func(sig, detail string) { viol = append(viol, [2]string{sig, detail}) }
	t, err := svc.Dial(srv.Addr, false, fmt.Sprintf("%d", 4300000+cid))
	if err != nil {
		return nil, true, 0
	}
	defer t.Close()
	next := uint16(0)
	expect := func(what string) bool {
		rx, ok, to := t.Next(20 * time.Second)
		if to {
			incon = true
			return false
		}
		if !ok {
			bad("reply|connection closed by the server during a valid conversation", fmt.Sprintf("conn %d: waiting for %s", cid, what))
			return false
		}
		serial := -1
		if rx.F != nil {
			serial = int(rx.F.Serial)
		} else if u, _ := ref.Unescape(rx.Raw); len(u) >= 12 {
			serial = int(u[10])<<8 | int(u[11]) // 2013 header: ID(2), attributes(2), phone(6), serial(2)
		}
		if serial != int(next) {
			bad("serial|platform serial numbers not consecutive from 0 (mod 65536)", fmt.Sprintf("conn %d: frame #%d (%s) carries serial %d", cid, next, what, serial))
			return false
		}
		next++
		frames++
		return true
	}
	tserial := uint16(10)
	hb := func() bool {
		tserial++
		t.Write(t.Frame(0x0002, tserial, nil))
		return expect("heartbeat reply")
	}
	if !hb() || !hb() {
		return
	}
	small := make(chan cmdResult, 1)
	go func() {
		small <- sendCmd(srv.G, t.Phone, consts.P8104QueryTerminalParams, nil, 300*time.Millisecond, 20*time.Second)
	}()
	if !expect("ordinary command") {
		return
	}
	<-small
	if !hb() {
		return
	}
	big := make(chan cmdResult, 1)
	go func() {
		big <- sendCmd(srv.G, t.Phone, consts.P8103SetTerminalParams, bytes.Repeat([]byte{0x11}, 1351), 300*time.Millisecond, 20*time.Second)
	}()
	r := <-big
	// the oversized frame is on the wire (or was refused) by the time its call has returned
	if r.kind == "stranded" {
		incon = true
		return
	}
	tserial++
	t.Write(t.Frame(0x0002, tserial, nil))
	// what comes next is either the oversized frame followed by the reply, or the reply alone
	rx, ok, to := t.Next(20 * time.Second)
	if to || !ok {
		incon = true
		return
	}
	serialOf := func(rx svc.Rx) int {
		if rx.F != nil {
			return int(rx.F.Serial)
		}
		if u, _ := ref.Unescape(rx.Raw); len(u) >= 12 {
			return int(u[10])<<8 | int(u[11])
		}
		return -1
	}
	if s := serialOf(rx); s != int(next) {
		bad("serial|platform serial numbers not consecutive from 0 (mod 65536)", fmt.Sprintf("conn %d: frame #%d (the first frame after a command with a 1351-byte body was sent: id %v) carries serial %d", cid, next, rx.F != nil, s))
		return
	}
	next++
	frames++
	if rx.F == nil || rx.F.ID != 0x8001 {
		// that was the oversized command itself; the heartbeat reply follows
		if !expect("heartbeat reply after the oversized command") {
			return
		}
	}
	hb()
	return
}
