package checks

import (
	"bytes"
	"fmt"
	"sync"
	"time"

	"github.com/cuteLittleDevil/go-jt808/service"

	"verif/harness/internal/core"
	"verif/harness/internal/ref"
	"verif/harness/internal/svc"
)

// C04 monitor 2 (socket): the same list of frames is sent over loopback under different write partitions (all in
// one write, 1023-byte writes, one frame per write, byte by byte, random cuts, with and without pauses); the
// replies on the wire must be exactly the reference replies of the frames, in order, whatever the partition.
// This reaches connection.reader itself (read loop, hand-over to the writer), which the hook variant does not.

func c04SockStream(r *core.Rand, t *svc.Term, n int, short bool) (frames [][]byte, exp []*ref.Reply) {
	for i := 0; i < n; i++ {
		id := core.Pick(r, []uint16{0x0002, 0x0002, 0x0200, 0x0200, 0x0704})
		serial := uint16(100 + i)
		var body []byte
		switch id {
		case 0x0200:
			l := 28
			if !short {
				l = 28 + r.Intn(900)
			}
			body = c04Body(r, r.Intn(4), l)
			if !short && r.Chance(1, 4) {
				body = c04Body(r, 1, 1023-r.Intn(6)) // maximal wire size: every byte doubles (2060+ bytes for one frame)
			}
		case 0x0704:
			body = []byte{0, 1, 0, 0, 28}
			body = append(body, c04Body(r, 2, 28)...)
		}
		if i%5 == 3 {
			frames = append(frames, attrFrame(t.V2019, t.BCD, id, serial, body, core.Pick(r, []byte{0x04, 0x08, 0x10, 0x1c, 0x80})))
		} else {
			frames = append(frames, t.Frame(id, serial, body))
		}
		exp = append(exp, ref.ExpectedReply(id, serial, body, t.V2019, t.Phone))
	}
	return
}

func c04SockRun(srv *svc.Server, cid int, seed uint64, streamNo int, mode string) (viol [][2]string, incon bool, nframes int, wit any) {
	bad := func(sig, detail string) { viol = append(viol, [2]string{sig, detail}) }
	// the stream depends on streamNo only: every partition mode of one stream sends the same frames (per-connection phone aside)
	r := core.NewRand(seed, "c04sock", uint64(streamNo))
	v2019 := r.Bool()
	short := r.Chance(2, 3)
	n := 1 + r.Intn(12)
	if r.Chance(1, 2) {
		n = 12 + r.Intn(240)
	}
	if !short && n > 60 {
		n = 60
	}
	t, err := svc.Dial(srv.Addr, v2019, fmt.Sprintf("%d", 4400000+cid))
	if err != nil {
		return nil, true, 0, nil
	}
	defer t.Close()
	frames, exp := c04SockStream(r, t, n, short)
	stream := bytes.Join(frames, nil)
	pr := core.NewRand(seed, "c04sockpart", uint64(cid))
	var writes [][]byte
	pause := false
	longPause := time.Duration(0)
	switch mode {
	case "single-write":
		writes = [][]byte{stream}
	case "1023-byte-writes":
		for o := 0; o < len(stream); o += 1023 {
			writes = append(writes, stream[o:min(o+1023, len(stream))])
		}
		pause = true
	case "frame-per-write":
		writes = frames
	case "frame-per-write-paused":
		writes = frames
		pause = true
	case "byte-by-byte":
		if len(stream) > 6000 {
			stream2 := stream // long streams: bytes in the first 3000, then the rest at once
			for k := 0; k < 3000; k++ {
				writes = append(writes, stream2[k:k+1])
			}
			writes = append(writes, stream2[3000:])
		} else {
			for k := range stream {
				writes = append(writes, stream[k:k+1])
			}
		}
	case "big-frame-tail-cut":
		// everything up to k bytes before the end of the LARGEST frame, a pause (so that the server reads it), then the rest
		big, bigEnd, off := 0, 0, 0
		for _, f := range frames {
			off += len(f)
			if len(f) > big {
				big, bigEnd = len(f), off
			}
		}
		k := []int{1, 2, 3, 5, 12, 17}[cid%6]
		if cut := bigEnd - k; cut > 0 {
			writes = [][]byte{stream[:cut], stream[cut:]}
		} else {
			writes = [][]byte{stream}
		}
		pause = true
	case "long-pause-inside-a-frame":
		// a frame whose first part and rest arrive 5.6 s apart (a retransmission stall on a mobile link): the bytes of a TCP stream
		// do not expire, however long the pause between two of them
		fi := pr.Intn(len(frames))
		off := 0
		for _, f := range frames[:fi] {
			off += len(f)
		}
		k := []int{1, 5, len(frames[fi]) / 2, len(frames[fi]) - 2, len(frames[fi]) - 1, 13}[cid%6]
		k = max(1, min(k, len(frames[fi])-1))
		writes = [][]byte{stream[:off+k], stream[off+k:]}
		longPause = 5600 * time.Millisecond
	default: // random cuts
		o := 0
		for o < len(stream) {
			l := 1 + pr.Intn(1500)
			if pr.Chance(1, 3) {
				l = 1 + pr.Intn(20)
			}
			e := min(o+l, len(stream))
			writes = append(writes, stream[o:e])
			o = e
		}
		pause = pr.Bool()
	}
	wdone := make(chan struct{})
	go func() {
		defer close(wdone)
		for i, w := range writes {
			if t.Write(w) != nil {
				return
			}
			if longPause > 0 && i == 0 {
				time.Sleep(longPause)
			}
			if pause && i%3 == 0 {
				time.Sleep(time.Duration(200+pr.Intn(1500)) * time.Microsecond)
				if mode == "big-frame-tail-cut" {
					time.Sleep(30 * time.Millisecond)
				}
			}
		}
	}()
	// collect replies until all expected ones are in, or the wire has been silent for a while; then a sentinel, sent alone,
	// closes the observation (replies are written by one goroutine in order, so nothing can follow the sentinel's reply)
	var got []svc.Rx
	for len(got) < len(exp) {
		rx, ok, to := t.Next(1500 * time.Millisecond)
		if to {
			select {
			case <-wdone:
			default:
				continue // the sender is still at work (a long pause inside a frame): nothing may be interleaved with its bytes
			}
			break
		}
		if !ok {
			bad("stream|connection closed during a stream of valid frames", fmt.Sprintf("mode %s after %d replies", mode, len(got)))
			return viol, false, n, map[string]any{"stream": streamNo, "mode": mode, "frames": n}
		}
		got = append(got, rx)
	}
	t.Write(t.Frame(0x0002, 9, nil))
	for {
		rx, ok, to := t.Next(45 * time.Second)
		if to {
			if serverAnswersFreshConnection(srv.Addr) {
				bad("stream|an owed reply never came although the server answers fresh connections at once", fmt.Sprintf("stream %d mode %s", streamNo, mode))
				return viol, false, n, map[string]any{"stream": streamNo, "mode": mode, "frames": n}
			}
			return viol, true, n, nil
		}
		if !ok {
			bad("stream|connection closed during a stream of valid frames", fmt.Sprintf("mode %s", mode))
			break
		}
		if rx.F != nil && rx.F.ID == 0x8001 && len(rx.F.Body) == 5 && rx.F.Body[0] == 0 && rx.F.Body[1] == 9 {
			break
		}
		got = append(got, rx)
	}
	if len(got) != len(exp) {
		bad("stream|number of replies differs from the number of frames in the stream", fmt.Sprintf("stream %d mode %s: %d replies for %d frames (%d writes)", streamNo, mode, len(got), len(exp), len(writes)))
	} else {
		for i := range got {
			if got[i].F == nil || got[i].F.ID != exp[i].ID || !bytes.Equal(got[i].F.Body, exp[i].Body) {
				bad("stream|reply i is not the reference reply of frame i", fmt.Sprintf("stream %d mode %s reply %d", streamNo, mode, i))
				break
			}
		}
	}
	if len(viol) > 0 {
		wit = map[string]any{"stream": streamNo, "mode": mode, "frames": n, "bytes": len(stream), "writes": len(writes), "v2019": v2019, "short_frames": short}
	}
	return viol, false, n, wit
}

var c04SockModes = []string{"single-write", "1023-byte-writes", "frame-per-write", "frame-per-write-paused", "byte-by-byte", "random-cuts", "random-cuts-2", "big-frame-tail-cut"}

func c04Socket(c *core.Collector, x *Ctx) {
	c.Rule = "socket: streams of 1..250 valid unfragmented frames (0x0002/0x0200/0x0704, short or up to 930-byte bodies incl. escape-dense) sent to a live server under 8 write partitions each " +
		"(single write, 1023-byte writes, frame per write with/without pauses, byte by byte, two random cuttings, everything but the last k bytes of the largest frame then the rest); every fourth long-body frame has maximal wire size (1018..1023 special bytes); oracle: replies on the wire == reference replies of the frames, in order, for every partition. " +
		"evaluation = one frame of one partition; distinct = (stream, partition)"
	srv, err := svc.Start(func() service.TerminalEventer { return svc.NewRecorder() })
	if err != nil {
		c.Inconclusive()
		return
	}
	// connections that END WITH A PARSE ERROR (a frame with a wrong check code, as one whole write) come first and keep coming
	// between the streams: whatever the server recycles from such a connection is then used by the valid ones
	poison := func(k int) {
		t, err := svc.Dial(srv.Addr, k%2 == 1, fmt.Sprintf("%d", 4490000+x.Batch*1000+k))
		if err != nil {
			return
		}
		f := t.Frame(0x0200, uint16(k), c04Body(core.NewRand(c.Seed, "c04poison", uint64(k)), 2, 28+k%40))
		if k%2 == 1 {
			// the other way a connection leaves something behind: it goes away in the middle of a frame (whatever per-connection
			// state the server recycles must not reach the next connection with these bytes — or their length — in it)
			t.Write(f[:len(f)/2+k%7])
			time.Sleep(3 * time.Millisecond)
			if k%4 == 1 {
				t.Reset()
			} else {
				t.Close()
			}
			c.Count("connections_ended_in_the_middle_of_a_frame_before_the_streams", 1)
			return
		}
		f[len(f)-2] ^= 0x55 // wrong check code
		if f[len(f)-2] == 0x7e || f[len(f)-2] == 0x7d {
			f[len(f)-2] = 0x11
		}
		t.Write(f)
		t.WaitClosed(2 * time.Second)
		t.Close()
		c.Count("connections_ended_by_a_parse_error_before_the_streams", 1)
	}
	for k := 0; k < 24; k++ {
		poison(k)
	}
	nstreams := c.N(24, 160)
	type job struct{ s, m int }
	var jobs []job
	for s := 0; s < nstreams; s++ {
		for m := range c04SockModes {
			jobs = append(jobs, job{s, m})
		}
	}
	// (a ninth partition for a few streams: 5.6 s of real time between the two parts of one frame; first in the list so that the
	// wait overlaps with everything else)
	const longPauseMode = "long-pause-inside-a-frame"
	nlp := c.N(6, 24)
	lp := make([]job, 0, nlp+len(jobs))
	for s := 0; s < nlp; s++ {
		lp = append(lp, job{s, -1})
	}
	jobs = append(lp, jobs...)
	modeName := func(m int) string {
		if m < 0 {
			return longPauseMode
		}
		return c04SockModes[m]
	}
	var mu sync.Mutex
	perStream := map[int]int{}
	core.ParallelFor(len(jobs), 12, func(i int) {
		j := jobs[i]
		if i%8 == 5 {
			poison(100 + i)
		}
		cid := x.Batch*100000 + i
		viol, incon, n, wit := c04SockRun(srv, cid, c.Seed*131+uint64(x.Batch), j.s, modeName(j.m))
		c.Evals(int64(n))
		c.Count("socket_stream_partitions", 1)
		c.Count("socket_mode_"+modeName(j.m), 1)
		c.NonTrivial(core.HashString(fmt.Sprintf("c04sock/%d/%d/%d/%d", c.Seed, x.Batch, j.s, j.m)))
		if incon {
			c.Inconclusive()
		}
		for _, v := range viol {
			c.Violate(v[0], v[1], wit)
		}
		if len(viol) == 0 && !incon && j.m >= 0 {
			mu.Lock()
			perStream[j.s]++
			mu.Unlock()
		}
		if i%40 == 0 {
			c.Sample(map[string]any{"stream": j.s, "mode": modeName(j.m), "frames": n})
		}
	})
	full := 0
	for _, k := range perStream {
		if k == len(c04SockModes) {
			full++
		}
	}
	c.Count("socket_streams_identical_under_all_partitions", int64(full))
	c.Floor("socket_stream_partitions", 100)
}
