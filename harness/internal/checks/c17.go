package checks

import (
	"bytes"
	"errors"
	"fmt"
	"os"
	"strings"

	"github.com/cuteLittleDevil/go-jt808/protocol/jt1078"

	"verif/harness/internal/core"
	"verif/harness/internal/ref"
)

// C17 — JT1078 RTP decoding against the reference layout, with exhaustive truncation.

func init() {
	register(core.Plan{
		Property: "C17", Level: "exploration",
		Parts: func(tier string) []core.Part {
			return []core.Part{{Name: "rtp", Bin: "plain", Batches: 1, TimeoutS: 1200}}
		},
		Assumptions: []string{
			"internal/ref RTP model transcribes JT/T 1078-2016 table 19; reserved data types 5..15 are laid out like audio (timestamp, no intervals) as the property states",
			"every stream is decoded twice: with a fresh Packet per step, and with ONE Packet object reused for every step of the stream (the way a decoding loop uses it); both must give the reference result at every step",
		},
	}, map[string]Worker{"rtp": c17Worker})
	replayers["c17"] = func(w map[string]any) string {
		s, _ := w["stream"].(string)
		reuse, _ := w["reuse"].(bool)
		same, _ := w["same_buffer"].(bool)
		return c17Stream(core.UnHex(s), nil, reuse, same)
	}
}

func c17Gen(r *core.Rand, dt int, plen int) ref.RTP {
	k := ref.RTP{V: byte(r.Intn(4)), P: byte(r.Intn(2)), X: byte(r.Intn(2)), CC: byte(r.Intn(16)), M: byte(r.Intn(2)), PT: byte(r.Intn(128)),
		Seq: r.U16(), Channel: r.Byte(), DataType: byte(dt), Mark: byte(r.Intn(16)), Timestamp: r.U64(), IInterval: r.U16(), FInterval: r.U16()}
	if r.Chance(1, 2) {
		k.PT = core.Pick(r, []byte{6, 7, 19, 25, 98, 99})
	}
	switch r.Intn(8) {
	case 0: // all zero
	case 1: // only the last digit
		k.Sim[5] = byte(1 + r.Intn(9))
	case 2: // non-decimal nibbles
		copy(k.Sim[:], r.Bytes(6))
	case 3:
		for j := range k.Sim {
			k.Sim[j] = 0xff
		}
	default:
		for j := range k.Sim {
			switch r.Intn(4) {
			case 0:
				k.Sim[j] = 0
			default:
				k.Sim[j] = byte(r.Intn(10))<<4 | byte(r.Intn(10))
			}
		}
	}
	k.Payload = r.Bytes(plen)
	if plen >= 4 && r.Chance(1, 3) { // payload that itself contains the marker
		copy(k.Payload[r.Intn(plen-3):], []byte{0x30, 0x31, 0x63, 0x64})
	}
	if plen >= 4 && r.Chance(1, 4) {
		c17Head(k.Payload, r.Intn(12))
	}
	return k
}

// c17Head overwrites the first bytes of a payload with the heads that media payloads really start with — private audio heads of
// chip vendors whose length byte is consistent with the payload (00 01 LL 00 with LL = half / all of what follows), NAL start
// codes, ADTS sync words, the stream marker itself, an RTP header. The payload is opaque to the packet layout: whatever it starts
// with, it is handed back as it is.
func c17Head(p []byte, which int) {
	n := len(p)
	switch which {
	case 0, 1:
		copy(p, []byte{0x00, 0x01, byte((n - 4) / 2), 0x00})
	case 2:
		copy(p, []byte{0x00, 0x01, byte(n - 4), 0x00})
	case 3:
		copy(p, []byte{0x00, 0x01, byte(n / 2), 0x00})
	case 4:
		copy(p, []byte{0x00, 0x00, 0x00, 0x01})
	case 5:
		copy(p, []byte{0x00, 0x00, 0x01, 0x65})
	case 6:
		copy(p, []byte{0xff, 0xf1, 0x50, 0x80})
	case 7:
		copy(p, []byte{0x30, 0x31, 0x63, 0x64})
	case 8:
		copy(p, []byte{0x80, 0x60, 0x00, 0x01})
	case 9:
		copy(p, []byte{0x00, 0x01, byte((n - 4) / 2), 0x01})
	case 10:
		copy(p, []byte{0x01, 0x00, byte((n - 4) / 2), 0x00})
	default:
		copy(p, []byte{byte(n >> 8), byte(n), byte((n - 4) >> 8), byte(n - 4)})
	}
}

// c17Stream decodes a whole stream step by step and compares every step with the reference classification
// and (when pks is given) with the generating parameters. Returns "" or the oracle that fired.
func c17Stream(stream []byte, pks []ref.RTP, reuse ...bool) string {
	rest := stream
	step := 0
	var shared *jt1078.Packet
	if len(reuse) > 0 && reuse[0] {
		shared = jt1078.NewPacket() // one object for the whole stream, as a decoding loop would use it
	}
	// reuse[1]: read-loop presentation — the remaining data is copied to the START of one scratch buffer before every step, so
	// that consecutive packets occupy the same memory (whatever the Packet remembers by reference sees the next packet's bytes)
	var heldSim *string
	var heldSimCopy string
	var scratch []byte
	if len(reuse) > 1 && reuse[1] {
		scratch = make([]byte, len(stream))
	}
	for len(rest) > 0 {
		kind, total := ref.ClassifyRTP(rest)
		in := make([]byte, len(rest))
		if scratch != nil {
			in = scratch[:len(rest):len(rest)]
		}
		copy(in, rest)
		p := jt1078.NewPacket()
		if shared != nil {
			p = shared
		}
		rem, err := p.Decode(in)
		if shared != nil && heldSim != nil {
			// what the previous step handed out (its SIM string, kept by the caller as a map key, say) is still what it was
			if *heldSim != heldSimCopy {
				return "held|a SIM string handed out by an earlier step changed when the Packet object decoded the next packet"
			}
		}
		if !bytes.Equal(in, rest) {
			return "mutated|Decode modified its input"
		}
		switch kind {
		case "short":
			if err == nil {
				return "short|truncated data decoded as a packet"
			}
			if !errors.Is(err, jt1078.ErrHeaderLength2Short) && !errors.Is(err, jt1078.ErrBodyLength2Short) {
				return "short|truncated data misreported: " + core.NormPanic(err.Error())
			}
			return ""
		case "unqualified":
			if err == nil {
				return "unqualified|markerless data decoded as a packet"
			}
			if !errors.Is(err, jt1078.ErrUnqualifiedData) {
				return "unqualified|markerless data misreported: " + core.NormPanic(err.Error())
			}
			return ""
		}
		if err != nil {
			return "packet|valid packet rejected: " + core.NormPanic(err.Error())
		}
		if !bytes.Equal(rem, rest[total:]) {
			return "remainder|not the untouched suffix after exactly one packet"
		}
		// header fields straight from the bytes (independent reading)
		d := rest
		dt := d[15] >> 4
		off := 16
		var ts uint64
		if dt != 4 {
			for i := 0; i < 8; i++ {
				ts = ts<<8 | uint64(d[16+i])
			}
			off = 24
		}
		var ii, fi uint16
		if dt <= 2 {
			ii = uint16(d[off])<<8 | uint16(d[off+1])
			fi = uint16(d[off+2])<<8 | uint16(d[off+3])
			off += 4
		}
		bl := int(d[off])<<8 | int(d[off+1])
		payload := d[off+2 : off+2+bl]
		bad := ""
		switch {
		case p.ID != "01cd":
			bad = "marker"
		case p.Flag.V != d[4]>>6 || p.Flag.P != d[4]>>5&1 || p.Flag.X != d[4]>>4&1 || p.Flag.CC != d[4]&15:
			bad = "V/P/X/CC"
		case p.Flag.M != d[5]>>7 || byte(p.Flag.PT) != d[5]&0x7f:
			bad = "M/PT"
		case p.Seq != uint16(d[6])<<8|uint16(d[7]):
			bad = "sequence"
		case p.Sim != ref.PhoneString(d[8:14]):
			bad = "sim"
		case p.LogicChannel != d[14]:
			bad = "channel"
		case byte(p.DataType) != dt || byte(p.SubcontractType) != d[15]&15:
			bad = "datatype/mark"
		case dt != 4 && p.Timestamp != ts:
			bad = "timestamp"
		case dt <= 2 && (p.LastIFrameInterval != ii || p.LastFrameInterval != fi):
			bad = "intervals"
		case int(p.DataBodyLen) != bl:
			bad = "body length"
		case !bytes.Equal(p.Body, payload):
			bad = "payload"
		case dt == 4 && p.Timestamp != 0:
			bad = "timestamp reported for transparent data"
		case dt > 2 && (p.LastIFrameInterval != 0 || p.LastFrameInterval != 0):
			bad = "frame intervals reported for a non-video frame"
		}
		if bad != "" && shared != nil {
			if scratch != nil {
				bad += " (Packet object and input buffer reused across steps)"
			} else {
				bad += " (Packet object reused across steps)"
			}
		}
		if bad == "" && pks != nil && step < len(pks) {
			k := pks[step]
			if !bytes.Equal(p.Body, k.Payload) || p.Seq != k.Seq || (k.HasTimestamp() && p.Timestamp != k.Timestamp) ||
				(k.HasIntervals() && (p.LastIFrameInterval != k.IInterval || p.LastFrameInterval != k.FInterval)) {
				bad = "generator parameters"
			}
		}
		if bad != "" {
			return fmt.Sprintf("field|%s|dt=%d", bad, dt)
		}
		guardStr := ""
		func() {
			defer func() {
				if r := recover(); r != nil {
					guardStr = "string|String() panicked: " + core.NormPanic(r)
				}
			}()
			_ = p.String()
		}()
		if guardStr != "" {
			return guardStr
		}
		if shared != nil {
			hs := p.Sim
			heldSim, heldSimCopy = &hs, strings.Clone(p.Sim)
		}
		rest = rest[total:]
		step++
	}
	return ""
}

func c17Worker(c *core.Collector, x *Ctx) {
	devnull, _ := os.OpenFile("/dev/null", os.O_WRONLY, 0)
	os.Stdout = devnull // decodeHead prints the offending bytes on unqualified data
	c.Rule = "streams of 1..6 reference-built packets: all 16 data types x 16 marks x M x payload types x payload lengths {0,1,2,949,950,951,1500,65535,random}; " +
		"every cut length 0..len of single packets and of sampled streams; delta streams (consecutive packets differing in exactly one header byte); random strings >=16 B with/without marker; mutated headers. " +
		"non-trivial = stream with >=2 packets, or a cut inside a packet, or a non-audio layout (dt 0-2 or 4); distinct by hash of the decoded input"
	lens := []int{0, 1, 2, 949, 950, 951, 1500, 65535}
	steps := c.Counter("decode_steps")
	run := func(stream []byte, pks []ref.RTP, nt bool, gen string) {
		c.Eval()
		var bad string
		w := func() any {
			return map[string]any{"kind": "c17", "stream": core.HexCap(stream, 4096), "gen": gen}
		}
		if guard(c, w, func() { bad = c17Stream(stream, pks) }) {
			return
		}
		if bad == "" && (len(pks) >= 2 || gen == "delta") {
			reused := false
			w2 := func() any {
				return map[string]any{"kind": "c17", "stream": core.HexCap(stream, 4096), "gen": gen, "reuse": true}
			}
			if guard(c, w2, func() { bad = c17Stream(stream, pks, true); reused = true }) {
				return
			}
			if reused {
				c.Count("streams_decoded_with_one_reused_packet", 1)
			}
			if bad != "" {
				c.Violate("rtp|"+bad, "jt1078 Decode vs reference layout: "+bad+" ("+gen+")", map[string]any{"kind": "c17", "stream": core.Hex(stream), "gen": gen, "reuse": true})
				return
			}
			if len(stream) <= 20000 || gen == "long-stream" {
				if guard(c, w2, func() { bad = c17Stream(stream, pks, true, true) }) {
					return
				}
				c.Count("streams_decoded_read_loop_style", 1)
				if bad != "" {
					c.Violate("rtp|"+bad, "jt1078 Decode vs reference layout: "+bad+" ("+gen+")", map[string]any{"kind": "c17", "stream": core.Hex(stream), "gen": gen, "reuse": true, "same_buffer": true})
					return
				}
			}
		}
		steps.Add(int64(len(pks)) + 1)
		if nt {
			c.NonTrivial(core.HashBytes(stream))
		}
		if bad != "" {
			c.Violate("rtp|"+bad, "jt1078 Decode vs reference layout: "+bad+" ("+gen+")", map[string]any{"kind": "c17", "stream": core.Hex(stream), "gen": gen})
		}
	}
	// (1) systematic single packets with every cut
	type sj struct{ dt, mark, li int }
	var jobs []sj
	for dt := 0; dt < 16; dt++ {
		for mark := 0; mark < 16; mark++ {
			for li := range lens {
				jobs = append(jobs, sj{dt, mark, li})
			}
		}
	}
	core.ParallelFor(len(jobs), ncpu(), func(i int) {
		j := jobs[i]
		r := core.NewRand(c.Seed, "c17a", uint64(i))
		k := c17Gen(r, j.dt, lens[j.li])
		k.Mark = byte(j.mark)
		b := k.Build()
		run(b, []ref.RTP{k}, j.dt <= 2 || j.dt == 4, "single")
		if i%97 == 0 && c.WantSample() {
			c.Sample(map[string]any{"gen": "single", "data_type": j.dt, "payload_len": lens[j.li], "packet": core.HexCap(b, 48)})
		}
		// every cut (for the 64 KiB payloads: every cut up to 80, then a stride, then the last 4)
		for cut := 0; cut < len(b); cut++ {
			if len(b) > 2000 && cut > 80 && cut < len(b)-4 && cut%997 != 0 {
				continue
			}
			if !c.Thorough() && len(b) > 200 && cut > 80 && cut < len(b)-4 && cut%53 != 0 {
				continue
			}
			run(b[:cut], nil, true, "cut")
		}
	})
	c.Count("single_packet_layouts", int64(len(jobs)))
	// (1b) EVERY payload length 0..Lmax once per layout class (video I, audio, transparent): a single packet, the same packet
	// followed by a second one (the rest handed back must be exactly the second), and the packet cut one byte short
	{
		lmax := c.N(2600, 65535)
		core.ParallelFor(lmax+1, ncpu(), func(l int) {
			r := core.NewRand(c.Seed, "c17len", uint64(l))
			for _, dt := range []int{0, 3, 4, 1 + l%2} {
				k := c17Gen(r, dt, l)
				b := k.Build()
				run(b, []ref.RTP{k}, true, "every-length")
				q := c17Gen(r, r.Intn(16), r.Intn(40))
				run(append(append([]byte{}, b...), q.Build()...), []ref.RTP{k, q}, true, "every-length")
				if len(b) > 0 {
					run(b[:len(b)-1], nil, true, "cut")
				}
				if l >= 4 {
					// the same length with each of the payload heads media streams start with (vendor audio head with a consistent
					// length byte, NAL start code, ADTS, the marker, ...)
					for h := 0; h < 12; h++ {
						if l > 700 && h != l%12 && h > 1 {
							continue // every head for every short length, the vendor audio head for every length, one more beyond
						}
						kh := c17Gen(r, dt, l)
						c17Head(kh.Payload, h)
						run(kh.Build(), []ref.RTP{kh}, true, "every-length-with-payload-head")
					}
				}
			}
		})
		c.Count("payload_lengths_swept", int64(lmax+1))
	}
	// (1d) modular tails: behind the first packet there are EXACTLY k*65536 more bytes (a length comparison carried out in
	// 16 bits takes "body length + k*65536 bytes remain" for "exactly the body remains" and swallows the rest of the buffer),
	// also k*256 and k*65536 +-1
	{
		var tails []int
		for _, k := range []int{1, 2, 3} {
			tails = append(tails, k*65536-1, k*65536, k*65536+1)
		}
		tails = append(tails, 256, 512, 4096, 32768)
		core.ParallelFor(len(tails)*16*3, ncpu(), func(i int) {
			r := core.NewRand(c.Seed, "c17mod", uint64(i))
			tail := tails[i%len(tails)]
			dt := i / len(tails) % 16
			pl := []int{0, 950, 65535}[i/len(tails)/16]
			k := c17Gen(r, dt, pl)
			pks := []ref.RTP{k}
			stream := k.Build()
			// fill the tail with whole packets: the last one sized so that the total is exact
			left := tail
			for left > 0 {
				q := c17Gen(r, r.Intn(16), 0)
				h := len(q.Build())
				if left < h {
					// too small for one more packet header: raw bytes that are not a packet start (classified short/unqualified)
					stream = append(stream, make([]byte, left)...)
					break
				}
				want := left - h
				if want > 65535 {
					want = core.Pick(r, []int{65535, 60000, 950})
				} else if left-h-want != 0 {
					want = left - h
				}
				if rest := left - h - want; rest > 0 && rest < 40 { // leave room for a last whole packet
					want -= 40
					if want < 0 {
						want = 0
					}
				}
				q.Payload = r.Bytes(want)
				pks = append(pks, q)
				stream = append(stream, q.Build()...)
				left -= h + want
			}
			run(stream, pks, true, "modular-tail")
			c.Count("modular_tail_streams", 1)
		})
	}
	// (1c) one long stream: 4000 packets of every type and size class decoded with ONE Packet object (and with fresh ones)
	{
		r := core.NewRand(c.Seed, "c17long", 0)
		var stream []byte
		var pks []ref.RTP
		for q := 0; q < 4000; q++ {
			pl := core.Pick(r, []int{0, 0, 1, 2, 7, 40, 950})
			k := c17Gen(r, q%16, pl)
			pks = append(pks, k)
			stream = append(stream, k.Build()...)
		}
		run(stream, pks, true, "long-stream")
		c.Count("long_stream_packets", int64(len(pks)))
	}
	// (1b) delta streams: consecutive packets that differ in exactly ONE header byte (every header byte except the data-type
	// nibble and the length field, several bit masks), decoded with fresh packets and with one reused Packet object: state that
	// survives between decodes (a cache keyed on part of a field, a field only written when "changed") shows here
	core.ParallelFor(16*4, ncpu(), func(i int) {
		dt := i % 16
		r := core.NewRand(c.Seed, "c17d", uint64(i))
		k := c17Gen(r, dt, core.Pick(r, []int{0, 1, 7, 40}))
		b := k.Build()
		hlen := len(b) - len(k.Payload)
		var stream []byte
		n := 0
		for j := 4; j < hlen-2; j++ {
			for _, mask := range []byte{0x01, 0x10, 0x80, 0xff, 0x0f} {
				if j == 15 {
					mask &= 0x0f // keep the data type: it decides the layout
					if mask == 0 {
						continue
					}
				}
				v := append([]byte{}, b...)
				v[j] ^= mask
				stream = append(stream, b...)
				stream = append(stream, v...)
				n += 2
			}
		}
		stream = append(stream, b...)
		run(stream, nil, true, "delta")
		c.Count("delta_stream_packets", int64(n+1))
		// the same deltas after a FAILED step: a Packet object that just reported "too short" for a cut packet is handed a complete
		// packet that agrees with the cut one in all but one header byte (a connection dropped mid-packet, numbering restarts)
		for j := 4; j < hlen; j++ {
			for _, mask := range []byte{0x01, 0x80, 0xff} {
				if j == 15 {
					mask &= 0x0f
					if mask == 0 {
						continue
					}
				}
				v := append([]byte{}, b...)
				v[j] ^= mask
				// a changed length field changes the packet's extent: give the variant the payload its header announces
				if j >= hlen-2 {
					nl := int(v[hlen-2])<<8 | int(v[hlen-1])
					v = append(v[:hlen], make([]byte, nl)...)
				}
				for _, cut := range []int{len(b) - 1, hlen, 17} {
					if cut <= 0 || cut >= len(b) {
						continue
					}
					c.Eval()
					w := map[string]any{"kind": "c17", "stream": core.HexCap(v, 4096), "gen": "error-then-delta", "cut_first": core.HexCap(b[:cut], 200)}
					var bad string
					if guard(c, func() any { return w }, func() {
						p := jt1078.NewPacket()
						if _, err := p.Decode(append([]byte{}, b[:cut]...)); err == nil {
							return // the cut happens to be a complete shorter packet: not the situation meant here
						}
						rem, err := p.Decode(append([]byte{}, v...))
						q := jt1078.NewPacket()
						rem2, err2 := q.Decode(append([]byte{}, v...))
						switch {
						case (err == nil) != (err2 == nil):
							bad = "a Packet object that had just reported an error classifies the next data differently from a fresh one"
						case err == nil && (p.Timestamp != q.Timestamp || p.DataBodyLen != q.DataBodyLen || p.Seq != q.Seq || p.Sim != q.Sim || p.LastIFrameInterval != q.LastIFrameInterval || p.LastFrameInterval != q.LastFrameInterval || !bytes.Equal(p.Body, q.Body) || !bytes.Equal(rem, rem2) || p.DataType != q.DataType || p.LogicChannel != q.LogicChannel):
							bad = "a Packet object that had just reported an error decodes the next packet differently from a fresh one"
						}
					}) {
						continue
					}
					c.Count("error_then_delta_cases", 1)
					if bad != "" {
						c.Violate("rtp|state|"+bad, bad, w)
						return
					}
				}
			}
		}
	})
	// (2) random streams
	n := c.N(6000, 400000)
	core.ParallelFor(n, ncpu(), func(i int) {
		r := core.NewRand(c.Seed, "c17b", uint64(i))
		np := 1 + r.Intn(6)
		var stream []byte
		var pks []ref.RTP
		for q := 0; q < np; q++ {
			pl := core.Pick(r, []int{0, 1, 2, 949, 950, 951, 1500})
			if r.Bool() {
				pl = r.Intn(64)
			}
			k := c17Gen(r, r.Intn(16), pl)
			if q == 0 {
				k.DataType = byte(i % 16)
			}
			pks = append(pks, k)
			stream = append(stream, k.Build()...)
		}
		run(stream, pks, np >= 2, "stream")
		// cuts of the stream: a few random ones and, for short streams, all
		if len(stream) <= 400 {
			for cut := 0; cut < len(stream); cut++ {
				run(stream[:cut], pks, true, "streamcut")
			}
		} else {
			for q := 0; q < 12; q++ {
				run(stream[:r.Intn(len(stream))], pks, true, "streamcut")
			}
		}
		// garbage
		g := r.Bytes(16 + r.Intn(48))
		if bytes.Equal(g[:4], []byte("01cd")) {
			g[0] = 0
		}
		if r.Bool() { // near-miss markers
			copy(g, []byte{0x30, 0x31, 0x63, 0x64})
			g[r.Intn(4)] ^= 1 << r.Intn(8)
		}
		run(g, nil, false, "garbage")
		// marker followed by random header bytes
		h := append([]byte{0x30, 0x31, 0x63, 0x64}, r.Bytes(12+r.Intn(40))...)
		run(h, nil, false, "markerfuzz")
	})
	c.Floor("decode_steps", 50000)
	c.Floor("streams_decoded_with_one_reused_packet", 1000)
	c.Floor("delta_stream_packets", 5000)
	c.Floor("modular_tail_streams", 100)
}
