package checks

import (
	"bytes"
	"fmt"
	"sort"
	"sync"
	"sync/atomic"
	"time"

	"github.com/cuteLittleDevil/go-jt808/attachment"
	"github.com/cuteLittleDevil/go-jt808/shared/consts"

	"verif/harness/internal/att"
	"verif/harness/internal/core"
	"verif/harness/internal/gen"
	"verif/harness/internal/ref"
)

// C15 — attachment upload: files are reassembled byte-exactly; control frames answered exactly once.

func init() {
	register(core.Plan{
		Property: "C15", Level: "exploration",
		Parts: func(tier string) []core.Part {
			return []core.Part{{Name: "sessions", Bin: "plain", Batches: 1, TimeoutS: 600}}
		},
		Assumptions: []string{
			"hook attachment.VerifServeConn runs the real per-connection loop on one end of a net.Pipe: every client write is exactly one server read, which gives exact control of the read partition; a loopback-TCP variant runs the same sessions through the kernel",
			"'every byte has arrived' is bounded from above by the bytes the client had started to write when the completion event fired (an early completion is therefore certain)",
			"names within what the fixed-width chunk header can carry: 1..50 bytes (255 for the length-prefixed HLJ header), no leading/trailing NUL; one 0x1210 per connection",
		},
	}, map[string]Worker{"sessions": c15Worker})
	replayers["att"] = func(w map[string]any) string {
		var p attPlan
		remarshal(w, &p)
		v, _ := attRun(&p, false, "")
		if len(v) > 0 {
			return v[0][0]
		}
		return ""
	}
}

type attFile struct {
	Name    string   `json:"name_hex"`
	Content string   `json:"-"`
	Size    int      `json:"size"`
	ContSd  uint64   `json:"content_seed"`
	Type    byte     `json:"file_type"`
	Chunks  [][2]int `json:"chunks_in_send_order"` // offset, length (before the first 0x1212)
	Resend  [][2]int `json:"resent_after_first_1212,omitempty"`
	Dense   bool     `json:"dense,omitempty"`                            // a large file whose content is materialised and sent completely (not a sparse giant)
	PostDup bool     `json:"duplicate_chunk_after_completion,omitempty"` // default order only: a duplicate chunk and another 0x1212 after the file was confirmed complete
}

type attPlan struct {
	Kind    string    `json:"kind"`
	Gen     string    `json:"gen"`
	Dialect int       `json:"dialect"`
	V2019   bool      `json:"v2019"`
	Phone   string    `json:"phone_bcd"`
	TermID  string    `json:"terminal_id_hex"`
	AlarmID string    `json:"alarm_id_hex"`
	Serial0 uint16    `json:"first_serial"`
	Files   []attFile `json:"files"`
	Cuts    []int     `json:"cuts"` // stream offsets at which a new write starts (besides 0); empty = one unit per write
	Mode    string    `json:"partition"`
	// Order of the units of several files: "" sequential (1211, chunks, 1212 per file); "announce-first" all 0x1211 up front;
	// "interleaved" chunks of all files round-robin, then the 0x1212s; "late-1212" the 0x1212 of a file after the next file's 0x1211;
	// "crossed-1212" resends of one file followed by another incomplete file's 0x1212 and only then the file's own
	Order string `json:"order,omitempty"`
	// ReAnnounce > 0 (sequential order only): after the first file's 0x1211 and its first ReAnnounce chunks the terminal
	// sends its 0x1210 once more (a retry) and starts the whole upload again from the first file. Every chunk sent before
	// the retry is sent again after it and no 0x1212 precedes it, so the expected answers do not depend on whether a
	// server keeps or forgets what it held before the retry.
	ReAnnounce int `json:"reannounce_after_chunks,omitempty"`
	// BigWrites: writes are not capped at 60 000 bytes (a sender with a large socket buffer): with chunks of 64 KiB and more the
	// server's 100 KiB read buffer is filled to the last byte by single reads
	BigWrites bool `json:"big_writes,omitempty"`
	// InfoType: the information-type byte of the 0x1210 (0x00 alarm files; 0x01 "re-upload" of files announced before)
	InfoType byte `json:"info_type,omitempty"`
}

// files larger than this are "sparse" in the plans: announced with their full size, only a few chunks sent
const attSparseFrom = 1 << 22

func attContent(seed uint64, n int) []byte {
	return core.NewRand(seed, "attfile", 0).Bytes(n)
}

type attBuilt struct {
	units   []att.Unit
	stream  []byte
	ends    []int // end offset of each unit
	files   []att.File
	expect  []*ref.Reply // per control unit in order
	ctrlIdx []int
	// completing unit per file: index of the unit after which every byte of the file has been sent (-1: never)
	completeAt []int
}

func attBuild(p *attPlan) *attBuilt {
	d := consts.ActiveSafetyType(p.Dialect)
	b := &attBuilt{}
	bcd := core.UnHex(p.Phone)
	phone := ref.PhoneString(bcd)
	_ = phone
	for _, f := range p.Files {
		if f.Size > attSparseFrom && !f.Dense {
			// a huge file of which only a few chunks are ever sent: content is defined per chunk offset, never materialised
			b.files = append(b.files, att.File{Name: core.UnHex(f.Name), Size: uint32(f.Size)})
			continue
		}
		b.files = append(b.files, att.File{Name: core.UnHex(f.Name), Size: uint32(f.Size), Content: attContent(f.ContSd, f.Size)})
	}
	serial := p.Serial0
	ctrl := func(id uint16, body []byte, file int) {
		fr := ref.Build(ref.Params{ID: id, V2019: p.V2019, VersionByt: 1, BCD: bcd, Serial: serial, Body: body})
		b.units = append(b.units, att.Unit{Data: fr, Ctrl: true, ID: id, Serial: serial, File: file})
		b.ctrlIdx = append(b.ctrlIdx, len(b.units)-1)
		serial++
	}
	general := func(id, s uint16) *ref.Reply {
		return &ref.Reply{ID: 0x8001, Body: []byte{byte(s >> 8), byte(s), byte(id >> 8), byte(id), 0}}
	}
	b1210 := att.Body1210(d, core.UnHex(p.TermID), core.UnHex(p.AlarmID), b.files)
	att.SetInfoType(b1210, b.files, p.InfoType)
	ctrl(0x1210, b1210, -1)
	b.expect = append(b.expect, general(0x1210, p.Serial0))
	b.completeAt = make([]int, len(p.Files))
	for i := range b.completeAt {
		b.completeAt[i] = -1
	}
	got := make([][]ref.Range, len(p.Files))
	sentBytes := make([]uint64, len(p.Files))
	chunk := func(i int, c [2]int) {
		af := b.files[i]
		var content []byte
		if af.Content == nil && int(af.Size) > attSparseFrom && !p.Files[i].Dense {
			content = attContent(p.Files[i].ContSd+uint64(c[0]), c[1])
		} else {
			content = af.Content[c[0] : c[0]+c[1]]
		}
		data := append(att.ChunkHeader(d, af.Name, uint32(c[0]), uint32(c[1])), content...)
		b.units = append(b.units, att.Unit{Data: data, File: i, Off: uint32(c[0]), Len: uint32(c[1])})
		got[i] = append(got[i], ref.Range{Off: uint32(c[0]), Len: uint32(c[1])})
		// (the complement is only worth computing once enough bytes have been sent to cover the file: with tens of thousands
		// of chunks a recomputation per chunk is quadratic)
		sentBytes[i] += uint64(c[1])
		if b.completeAt[i] < 0 && sentBytes[i] >= uint64(af.Size) && len(ref.MissingRanges(af.Size, got[i])) == 0 {
			b.completeAt[i] = len(b.units) - 1
		}
	}
	c1211 := func(i int) {
		s := serial
		ctrl(0x1211, att.Body1211(b.files[i], p.Files[i].Type), i)
		b.expect = append(b.expect, general(0x1211, s))
	}
	c1212 := func(i int) {
		af := b.files[i]
		miss := ref.MissingRanges(af.Size, got[i])
		body := append([]byte{byte(len(af.Name))}, af.Name...)
		body = append(body, p.Files[i].Type)
		if len(miss) == 0 {
			body = append(body, 0, 0)
		} else {
			body = append(body, 1, byte(len(miss)))
			for _, m := range miss {
				body = append(body, byte(m.Off>>24), byte(m.Off>>16), byte(m.Off>>8), byte(m.Off), byte(m.Len>>24), byte(m.Len>>16), byte(m.Len>>8), byte(m.Len))
			}
		}
		ctrl(0x1212, att.Body1211(af, p.Files[i].Type), i)
		b.expect = append(b.expect, &ref.Reply{ID: 0x9212, Body: body})
	}
	resend := func(i int) {
		if len(p.Files[i].Resend) > 0 {
			for _, c := range p.Files[i].Resend {
				chunk(i, c)
			}
			c1212(i)
		}
	}
	switch p.Order {
	case "announce-first":
		for i := range p.Files {
			c1211(i)
		}
		for i, f := range p.Files {
			for _, c := range f.Chunks {
				chunk(i, c)
			}
			c1212(i)
			resend(i)
		}
	case "interleaved":
		for i := range p.Files {
			c1211(i)
		}
		for k := 0; ; k++ {
			any := false
			for i, f := range p.Files {
				if k < len(f.Chunks) {
					chunk(i, f.Chunks[k])
					any = true
				}
			}
			if !any {
				break
			}
		}
		for i := range p.Files {
			c1212(i)
		}
		for i := range p.Files {
			resend(i)
		}
	case "crossed-1212":
		// every file announced, sent and asked about once; then, file by file, the missing chunks are resent and — right before
		// that file's own second completion request — ANOTHER still-incomplete file is asked about again (no chunk in between)
		for i := range p.Files {
			c1211(i)
		}
		for i, f := range p.Files {
			for _, c := range f.Chunks {
				chunk(i, c)
			}
		}
		for i := range p.Files {
			c1212(i)
		}
		var pending []int
		for i := range p.Files {
			if len(p.Files[i].Resend) > 0 {
				pending = append(pending, i)
			}
		}
		for k, i := range pending {
			for _, c := range p.Files[i].Resend {
				chunk(i, c)
			}
			if k+1 < len(pending) {
				c1212(pending[k+1])
			}
			c1212(i)
		}
	case "late-1212":
		for i, f := range p.Files {
			c1211(i)
			if i > 0 {
				c1212(i - 1) // the previous file's completion arrives after this file was announced
				resend(i - 1)
			}
			for _, c := range f.Chunks {
				chunk(i, c)
			}
		}
		if n := len(p.Files); n > 0 {
			c1212(n - 1)
			resend(n - 1)
		}
	default:
		if m := p.ReAnnounce; m > 0 && len(p.Files) > 0 && m < len(p.Files[0].Chunks) {
			c1211(0)
			for _, c := range p.Files[0].Chunks[:m] {
				chunk(0, c)
			}
			s := serial
			ctrl(0x1210, att.Body1210(d, core.UnHex(p.TermID), core.UnHex(p.AlarmID), b.files), -1)
			b.expect = append(b.expect, general(0x1210, s))
			for i := range got {
				got[i] = nil
				sentBytes[i] = 0
				b.completeAt[i] = -1
			}
			// the chunks sent before the retry come first again, in the same order
		}
		for i, f := range p.Files {
			c1211(i)
			for _, c := range f.Chunks {
				chunk(i, c)
			}
			c1212(i)
			resend(i)
			if f.PostDup && len(f.Chunks) > 0 {
				// after the file was confirmed complete: one of its chunks arrives once more (a late retransmission), then the
				// terminal asks again — the file is still complete and still has its content
				chunk(i, f.Chunks[(i+len(f.Chunks)/2)%len(f.Chunks)])
				c1212(i)
			}
		}
	}
	// sentinel: a last control frame (0x1211 for a name that was not announced). The server answers control frames in
	// order, so once its reply is in, every earlier reply has been produced — "all replies seen" is decided by order.
	{
		s := serial
		ctrl(0x1211, att.Body1211(att.File{Name: []byte("~sentinel~"), Size: 0}, 0), -1)
		b.expect = append(b.expect, general(0x1211, s))
	}
	for _, u := range b.units {
		b.stream = append(b.stream, u.Data...)
		b.ends = append(b.ends, len(b.stream))
	}
	return b
}

func attWrites(p *attPlan, b *attBuilt) [][]byte {
	cuts := append([]int{}, p.Cuts...)
	if p.Mode == "unit-per-write" || (len(cuts) == 0 && p.Mode == "") {
		cuts = append(cuts, b.ends...)
	}
	sort.Ints(cuts)
	var writes [][]byte
	prev := 0
	add := func(to int) {
		for to > prev {
			n := to - prev
			lim := 60000
			if p.BigWrites {
				lim = 1 << 20 // writes far larger than the server's read buffer: its reads come back completely full
			}
			if n > lim {
				n = lim
			}
			writes = append(writes, b.stream[prev:prev+n])
			prev += n
		}
	}
	for _, c := range cuts {
		if c > 0 && c < len(b.stream) {
			add(c)
		}
	}
	add(len(b.stream))
	return writes
}

// attRun executes the plan and applies the C15/C16 oracles. tcpAddr != "" selects the loopback-TCP variant.
func attRun(p *attPlan, tcp bool, tcpAddr string) (viol [][2]string, incon bool) {
	bad := func(sig, detail string) { viol = append(viol, [2]string{sig, detail}) }
	b := attBuild(p)
	writes := attWrites(p, b)
	var res att.Result
	var rec *att.Recorder
	if tcp {
		var started atomic.Int64
		res = att.RunTCP(tcpAddr, writes, &started, len(b.expect))
	} else {
		res = att.RunPipe(consts.ActiveSafetyType(p.Dialect), writes, len(b.expect), func(started *atomic.Int64) attachment.FileEventer {
			rec = &att.Recorder{Started: started}
			return rec
		})
		res.Events = rec.Events()
	}
	if res.TimedOut {
		return nil, true
	}
	tag := fmt.Sprintf("dialect%d", p.Dialect)
	if res.WriteErr {
		bad("abort|session aborted by valid input (server stopped reading)|"+tag, fmt.Sprintf("after %d replies; %s", len(res.Replies), lastErr(res.Events)))
		return
	}
	for _, e := range res.Events {
		if e.Err != "" {
			bad("abort|session ended with an error on valid input|"+tag, trunc(e.Err, 160))
			return
		}
	}
	// ---- replies: one per control frame, in order, consecutive platform serials
	if len(res.Replies) != len(b.expect) {
		bad("reply|control frames answered a wrong number of times", fmt.Sprintf("%d replies for %d control frames (%s)", len(res.Replies), len(b.expect), lastErr(res.Events)))
	} else {
		for i, e := range b.expect {
			f := res.Replies[i]
			u := b.units[b.ctrlIdx[i]]
			switch {
			case f == nil && len(e.Body) > 1023:
				bad("ranges|0x9212 listing more ranges than fit a 1023-byte body is written as a malformed frame", fmt.Sprintf("file %d: the response needs %d body bytes (%d ranges); the frame on the wire is not decodable: %s", u.File, len(e.Body), (len(e.Body)-4)/8, core.HexCap(res.RawReplies[i], 40)))
			case f == nil:
				bad("reply|undecodable reply", fmt.Sprintf("%x", res.RawReplies[i]))
			case f.ID != e.ID:
				bad(fmt.Sprintf("reply|wrong reply type to 0x%04x", u.ID), fmt.Sprintf("got %04x want %04x", f.ID, e.ID))
			case !bytes.Equal(f.Body, e.Body):
				if e.ID == 0x9212 {
					bad("ranges|0x9212 does not list exactly the maximal missing ranges (or wrong completion flag)", fmt.Sprintf("file %d: got %x want %x", u.File, f.Body, e.Body))
				} else {
					bad(fmt.Sprintf("reply|wrong general response to 0x%04x", u.ID), fmt.Sprintf("got %x want %x", f.Body, e.Body))
				}
			case int(f.Serial) != i:
				bad("reply|platform serial of replies not consecutive from 0", fmt.Sprintf("reply %d carries %d", i, f.Serial))
			case !bytes.Equal(f.BCD, core.UnHex(p.Phone)) || f.V2019 != p.V2019:
				bad("reply|reply addressing", "")
			}
			if len(viol) > 0 {
				break
			}
		}
	}
	if tcp {
		return
	}
	// ---- completion events
	completeSeen := map[string][]byte{}
	for _, e := range res.Events {
		if e.Stage != attachment.ProgressStageStreamDataComplete {
			continue
		}
		fi := -1
		for i, f := range b.files {
			if string(f.Name) == e.Cur {
				fi = i
			}
		}
		if fi < 0 {
			bad("complete|completion reported for a file that was not announced", fmt.Sprintf("%x", e.Cur))
			continue
		}
		cu := b.completeAt[fi]
		if cu < 0 || e.StartedUpTo < int64(b.ends[cu]) {
			bad("complete|file reported complete before every byte had been sent", fmt.Sprintf("file %d (size %d): event fired when the client had started %d stream bytes; the chunk that completes the file ends at offset %v", fi, b.files[fi].Size, e.StartedUpTo, endOf(b, cu)))
			continue
		}
		if !bytes.Equal(e.Body, b.files[fi].Content) {
			bad("content|reassembled content differs from the original", fmt.Sprintf("file %d size %d: got %d bytes, first difference at %d", fi, b.files[fi].Size, len(e.Body), firstDiff(e.Body, b.files[fi].Content)))
			continue
		}
		completeSeen[e.Cur] = e.Body
	}
	for i, f := range b.files {
		if b.completeAt[i] >= 0 {
			if _, ok := completeSeen[string(f.Name)]; !ok && len(viol) == 0 {
				bad("complete|file fully sent but never reported complete with the right content", fmt.Sprintf("file %d size %d chunks %v", i, f.Size, p.Files[i].Chunks))
			}
		}
	}
	// final record at quit must hold the same content
	for _, e := range res.Events {
		if e.Record == nil {
			continue
		}
		for i, f := range b.files {
			if b.completeAt[i] >= 0 && len(viol) == 0 {
				if got, ok := e.Record[string(f.Name)]; !ok || !bytes.Equal(got, f.Content) {
					bad("content|final record of a completed file differs from the original", fmt.Sprintf("file %d size %d got %d bytes", i, f.Size, len(got)))
				}
			}
		}
	}
	return
}

func endOf(b *attBuilt, cu int) any {
	if cu < 0 {
		return "never (bytes missing)"
	}
	return b.ends[cu]
}

func firstDiff(a, b []byte) int {
	for i := 0; i < len(a) && i < len(b); i++ {
		if a[i] != b[i] {
			return i
		}
	}
	if len(a) < len(b) {
		return len(a)
	}
	return len(b)
}

func lastErr(evs []att.Event) string {
	for i := len(evs) - 1; i >= 0; i-- {
		if evs[i].Err != "" {
			return "server error: " + trunc(evs[i].Err, 200)
		}
	}
	return "no error event"
}

var attMarker = []byte{0x30, 0x31, 0x63, 0x64}

// attName: arbitrary bytes of length 1..max without leading/trailing NUL; optionally containing the chunk marker.
func attName(g gen.G, max int, marker bool, uniq int) []byte {
	n := 1 + g.Intn(max-2)
	if g.Chance(1, 6) {
		n = max - 2 // with the 2-byte unique suffix: exactly the widest name the field can carry
	}
	b := g.Bytes(n)
	if g.Chance(1, 2) {
		b = []byte(g.Str(n))
	}
	if marker && n >= 4 {
		copy(b[g.Intn(n-3):], attMarker)
	}
	b = append(b, byte(0x41+uniq), byte(0x61+uniq)) // unique suffix so that names within a session differ
	if b[0] == 0 {
		b[0] = 0x4e
	}
	return b
}

// attGenPlan builds a session plan. gaps=true leaves byte ranges unsent before the first 0x1212 and resends them (C16).
func attGenPlan(g gen.G, idx int, gaps bool) *attPlan {
	d := gen.Dialects[idx%5]
	marker := idx%4 == 3
	p := &attPlan{Kind: "att", Dialect: int(d), V2019: g.Bool(), Serial0: g.U16()}
	n := 6
	if p.V2019 {
		n = 10
	}
	bcd := make([]byte, n)
	for i := n / 2; i < n; i++ {
		bcd[i] = byte(g.Intn(10))<<4 | byte(g.Intn(10))
	}
	if marker && g.Bool() {
		copy(bcd[n-4:], attMarker) // marker bytes inside the BCD phone field
	}
	p.Phone = core.Hex(bcd)
	tid := []byte(g.Str(1 + g.Intn(7)))
	aid := []byte(g.Str(1 + g.Intn(28)))
	if marker {
		switch g.Intn(3) {
		case 0:
			tid = append([]byte("T"), attMarker...)
		case 1:
			aid = append(append([]byte("x"), attMarker...), byte(0x30+g.Intn(10)))
		}
	}
	p.TermID, p.AlarmID = core.Hex(tid), core.Hex(aid)
	maxName := 50
	if d == consts.ActiveSafetyHLJ && g.Chance(1, 2) {
		maxName = core.Pick(g.Rand, []int{120, 200, 245, 255}) // length-prefixed header: up to 255 bytes
	}
	nf := 1 + g.Intn(4)
	many := g.Chance(1, 12)
	if many {
		// a long session: 20..40 small files with short names (state kept per connection and per file gets a history)
		nf = 20 + g.Intn(21)
		maxName = 8
	}
	budget := 1023 - 30 - 40 - 32 - 2 - 4*45 // what the 0x1210 body can spend on names beyond four short ones
	if nf > 1 {
		p.Order = core.Pick(g.Rand, []string{"", "", "announce-first", "interleaved", "late-1212", "crossed-1212"})
	}
	escHeavy := !many && g.Chance(1, 10)
	if escHeavy {
		// an announcement whose frame is far longer on the wire than its 1023-byte body: many files with names made of the
		// bytes that need escaping (0x7e 0x7d) — a legal frame of up to ~2 KiB between its delimiters
		nf = 10 + g.Intn(7)
		maxName = 50 // 16 x (49 + 5) + sign and identifiers stays below the 1023-byte body limit in every dialect
	}
	for i := 0; i < nf; i++ {
		if !many && !escHeavy && g.Chance(1, 14) {
			// sparse giant: a file of 16 MiB .. 4 GiB-1 of which a few chunks arrive, at offsets whose high bytes are in use
			// (0x01000000, 0x7fffffff, 0x80000000, 0xffffff00): it never completes, every 0x1212 lists what is missing
			size := core.Pick(g.Rand, []int{1<<24 + 5000, 1 << 25, 1<<31 - 1, 1 << 31, 1<<31 + 4096, 1<<32 - 1, 1<<24 + g.Intn(1<<30)})
			nameBytes := attName(g, 40, false, i)
			budget -= len(nameBytes) + 5
			f := attFile{Name: core.Hex(nameBytes), Size: size, ContSd: g.U64(), Type: byte(g.Intn(5))}
			offs := []int{0, 1<<24 - 100, 1 << 24, 1<<24 + 1000, 1<<31 - 50, 1 << 31, 1<<32 - 256, size - 100, size - 1}
			seen := map[int]bool{}
			for k := 0; k < 1+g.Intn(4); k++ {
				o := offs[g.Intn(len(offs))]
				l := 1 + g.Intn(200)
				if o < 0 || o >= size {
					continue
				}
				if o+l > size {
					l = size - o
				}
				// keep the chunks pairwise disjoint: one chunk per 4 KiB neighbourhood
				if seen[o>>12] || seen[(o+l)>>12] {
					continue
				}
				seen[o>>12], seen[(o+l)>>12] = true, true
				f.Chunks = append(f.Chunks, [2]int{o, l})
			}
			if len(f.Chunks) > 0 {
				p.Files = append(p.Files, f)
				continue
			}
		}
		cs := 1 + g.Intn(4096)
		if g.Chance(1, 3) || many {
			cs = 1 + g.Intn(64)
		} else if !escHeavy && g.Chance(1, 10) {
			// the chunk sizes real terminals use: 64 KiB and its neighbours, 32 KiB, 100 000 bytes (limits sized for "62-byte
			// header + 64 KiB" meet the HLJ dialect's longer headers here)
			cs = core.Pick(g.Rand, []int{65536, 65535, 65537, 32768, 100000, 65536 - 62, 65536 + 62})
		}
		size := 1 + g.Intn(3*cs)
		if g.Chance(1, 8) {
			size = 1
		}
		emptyFile := !many && !escHeavy && g.Chance(1, 25)
		if emptyFile {
			size = 0 // an empty file (a log that holds nothing): announced, opened, one empty chunk, closed
		}
		mn := maxName
		if budget < mn+8 { // the 0x1210 body (10-bit length field) must hold every announced name: keep the sum below 1023 bytes
			mn = 40
		}
		if many {
			mn = 8
		}
		nameBytes := attName(g, mn, marker && g.Bool(), i)
		if escHeavy {
			nameBytes = make([]byte, 30+g.Intn(maxName-30))
			for k := range nameBytes {
				nameBytes[k] = []byte{0x7e, 0x7d, 0x7e, 0x02, 0x01}[g.Intn(5)]
			}
			nameBytes[0] = byte(0x41 + i) // distinct names; no leading/trailing NUL
			nameBytes[len(nameBytes)-1] = 0x7e
		}
		budget -= len(nameBytes) + 5
		f := attFile{Name: core.Hex(nameBytes), Size: size, ContSd: g.U64(), Type: byte(g.Intn(5))}
		if g.Chance(1, 2) {
			f.Type = g.U8() // the file-type byte is opaque on the wire: any value must be echoed by the 0x9212
		}
		var chunks [][2]int
		for off := 0; off < size; off += cs {
			l := cs
			if off+l > size {
				l = size - off
			}
			chunks = append(chunks, [2]int{off, l})
		}
		if emptyFile {
			chunks = [][2]int{{0, 0}}
		}
		// an empty chunk at the end-of-file offset (where no data chunk starts): first thing after the 0x1211, or anywhere between
		// the data chunks. It carries no bytes and must change nothing — in particular not the number of answers.
		emptyChunkAt := -1
		if !emptyFile && g.Chance(1, 12) {
			emptyChunkAt = 0
			if g.Bool() {
				emptyChunkAt = g.Intn(len(chunks) + 1)
			}
		}
		switch g.Intn(3) {
		case 1:
			sort.Slice(chunks, func(a, b int) bool { return chunks[a][0] > chunks[b][0] })
		case 2:
			pm := g.Perm(len(chunks))
			sh := make([][2]int, len(chunks))
			for k, q := range pm {
				sh[k] = chunks[q]
			}
			chunks = sh
		}
		if gaps && len(chunks) > 1 && g.Chance(3, 4) {
			// leave some chunks out before the first 0x1212, resend exactly those afterwards
			var keep, miss [][2]int
			for _, c := range chunks {
				if g.Chance(1, 3) {
					miss = append(miss, c)
				} else {
					keep = append(keep, c)
				}
			}
			if len(miss) > 0 {
				if len(keep) > 1 && g.Chance(1, 3) { // an identical resend among the chunks that do arrive
					k := g.Intn(len(keep) - 1)
					keep = append(keep[:k+1], append([][2]int{keep[k]}, keep[k+1:]...)...)
				}
				if emptyChunkAt >= 0 {
					keep = append([][2]int{{size, 0}}, keep...)
				}
				f.Chunks, f.Resend = keep, miss
				sort.Slice(f.Resend, func(a, b int) bool { return f.Resend[a][0] < f.Resend[b][0] })
				if g.Bool() {
					// resend exactly the maximal ranges the completion response must ask for (adjacent missed chunks merged)
					var got []ref.Range
					for _, k := range keep {
						got = append(got, ref.Range{Off: uint32(k[0]), Len: uint32(k[1])})
					}
					f.Resend = nil
					for _, m := range ref.MissingRanges(uint32(size), got) {
						f.Resend = append(f.Resend, [2]int{int(m.Off), int(m.Len)})
					}
				}
				if g.Chance(1, 4) {
					// re-split resend: the terminal resends in its own blocks — each listed range together with the chunk
					// right before it, as ONE block that starts at that chunk's offset (same offset, greater length) and ends
					// where the range ends. Blocks never reach into a chunk held at another offset.
					var got []ref.Range
					for _, k := range keep {
						got = append(got, ref.Range{Off: uint32(k[0]), Len: uint32(k[1])})
					}
					f.Resend = nil
					for _, m := range ref.MissingRanges(uint32(size), got) {
						blk := [2]int{int(m.Off), int(m.Len)}
						for _, k := range keep {
							if k[0]+k[1] == int(m.Off) {
								blk = [2]int{k[0], k[1] + int(m.Len)}
							}
						}
						f.Resend = append(f.Resend, blk)
					}
				}
				p.Files = append(p.Files, f)
				continue
			}
		}
		if !gaps && g.Chance(1, 2) && len(chunks) > 1 { // identical resend of one chunk (not the last to arrive)
			k := g.Intn(len(chunks) - 1)
			chunks = append(chunks[:k+1], append([][2]int{chunks[k]}, chunks[k+1:]...)...)
		}
		if emptyChunkAt >= 0 {
			k := min(emptyChunkAt, len(chunks))
			chunks = append(chunks[:k:k], append([][2]int{{size, 0}}, chunks[k:]...)...)
		}
		f.Chunks = chunks
		f.PostDup = g.Chance(1, 4) && !emptyFile
		p.Files = append(p.Files, f)
	}
	p.BigWrites = g.Bool()
	hasEmpty := false // (a retry is placed "before the file is complete": counted in data chunks, so plans with an empty chunk in file 0 have none)
	for _, ch := range p.Files[0].Chunks {
		hasEmpty = hasEmpty || ch[1] == 0
	}
	if p.Order == "" && len(p.Files[0].Chunks) > 1 && !hasEmpty && g.Chance(1, 5) {
		p.ReAnnounce = 1 + g.Intn(len(p.Files[0].Chunks)-1)
	}
	return p
}

func attPartition(g gen.G, p *attPlan, mode int) {
	b := attBuild(p)
	defer func() {
		// a control frame longer than 1100 bytes on the wire: make sure some write ends inside it beyond byte 1047 (the size
		// of an unescaped maximal frame), so that the server sees > 1047 buffered bytes without a closing delimiter
		start := 0
		for i, u := range b.units {
			if u.Ctrl && b.ends[i]-start > 1100 && g.Bool() {
				p.Cuts = append(p.Cuts, start+1048+g.Intn(b.ends[i]-start-1050))
				sort.Ints(p.Cuts)
			}
			start = b.ends[i]
		}
	}()
	switch mode {
	case 0:
		p.Mode = "unit-per-write"
	case 1: // neighbouring units coalesced (control frame together with the following chunk, etc.)
		p.Mode = "coalesced-neighbours"
		i := 0
		for i < len(b.ends) {
			j := i + 1 + g.Intn(3)
			if j > len(b.ends) {
				j = len(b.ends)
			}
			p.Cuts = append(p.Cuts, b.ends[j-1])
			i = j
		}
	case 2: // random cuts of the whole stream
		p.Mode = "random-cuts"
		pos := 0
		for pos < len(b.stream) {
			pos += 1 + g.Intn(1500)
			p.Cuts = append(p.Cuts, pos)
		}
	case 3: // cuts inside every chunk header (62 bytes) and right after every frame delimiter
		p.Mode = "inside-headers"
		start := 0
		for i, u := range b.units {
			if !u.Ctrl {
				p.Cuts = append(p.Cuts, start+1+g.Intn(61))
			} else {
				p.Cuts = append(p.Cuts, start+1)
			}
			p.Cuts = append(p.Cuts, b.ends[i])
			start = b.ends[i]
		}
	case 4:
		p.Mode = "single-write"
		p.Cuts = []int{len(b.stream)}
	case 5: // a control frame (or the previous chunk) TOGETHER with the first k bytes of the next chunk header in one write,
		// k rotating over the positions around the header's fields (marker 4, name 50, offset 4, length 4 = 62 bytes)
		p.Mode = "unit-plus-partial-header"
		ks := []int{1, 3, 4, 5, 53, 54, 55, 57, 58, 59, 60, 61, 62, 63}
		rot := g.Intn(len(ks))
		start := 0
		for i, u := range b.units {
			if !u.Ctrl && i > 0 {
				k := ks[(i+rot)%len(ks)]
				if start+k < b.ends[i] {
					p.Cuts = append(p.Cuts, start+k)
				}
			}
			start = b.ends[i]
		}
		p.Cuts = append(p.Cuts, len(b.stream))
	}
}

func c15Worker(c *core.Collector, x *Ctx) {
	c.Rule = "upload sessions: 1-4 files, sizes 1 B..3 chunk sizes (chunk 1..4096), names / alarm IDs / terminal IDs / phone over arbitrary bytes incl. the marker 30 31 63 64, chunk orders in-order/reversed/shuffled with identical resends, all five dialects (HLJ length-prefixed header, names up to 200 B), " +
		"partitions: one unit per write, neighbours coalesced (control frame + chunk), random cuts, cuts inside every chunk header, a unit together with the first k bytes of the next chunk header (k around every header field boundary), single write; ALL 1-cuts of short sessions. evaluation = one session; distinct by hash of (plan, partition)"
	attFullRead(c)
	sessions := c.Counter("sessions")
	tcpSessions := c.Counter("tcp_sessions")
	// five attachment servers in this one process, one per dialect (WithActiveSafetyType), all serving at the same time
	addrs := map[int]string{}
	var terr error
	for _, d := range gen.Dialects {
		a, err := att.StartTCP(attachment.WithFileEventerFunc(func() attachment.FileEventer { return &att.Recorder{} }), attachment.WithActiveSafetyType(d))
		if err != nil {
			terr = err
			break
		}
		addrs[int(d)] = a
	}
	run := func(p *attPlan, tcp bool) {
		addr := addrs[p.Dialect]
		c.Eval()
		var viol [][2]string
		var incon bool
		if guard(c, func() any { return p }, func() {
			if tcp {
				viol, incon = attRun(p, true, addr)
			} else {
				viol, incon = attRun(p, false, "")
			}
		}) {
			return
		}
		if tcp {
			tcpSessions.Add(1)
		} else {
			sessions.Add(1)
		}
		if incon {
			c.Inconclusive()
			return
		}
		c.NonTrivial(core.HashString(fmt.Sprintf("%+v", *p)))
		for _, v := range viol {
			c.Violate(v[0], v[1]+" ["+p.Gen+", partition "+p.Mode+"]", p)
		}
	}
	// the dimensions random sessions do not reach, in the background of the rest: real time, one very long connection, one
	// very large file
	var special sync.WaitGroup
	if x.Batch == 0 {
		special.Add(4)
		go func() {
			defer special.Done()
			c15RudeNeighbour(c, c.Seed, c.N(30, 300))
		}()
		go func() {
			defer special.Done()
			c15SlowSession(c, addrs[int(consts.ActiveSafetyJS)], consts.ActiveSafetyJS, time.Duration(c.N(12, 65))*time.Second)
		}()
		go func() {
			defer special.Done()
			c15LongConnection(c, gen.Dialects[int(c.Seed)%5])
		}()
		go func() {
			defer special.Done()
			c15BigFile(c, gen.Dialects[int(c.Seed+1)%5], 32<<20+1024, c.Seed)
			if c.Thorough() {
				c15BigFile(c, consts.ActiveSafetyHLJ, 80<<20, c.Seed)
			}
		}()
	}
	defer special.Wait()
	n := c.N(1500, 60000)
	core.ParallelFor(n, ncpu(), func(i int) {
		g := gen.G{Rand: core.NewRand(c.Seed, "c15", uint64(i))}
		p := attGenPlan(g, i, false)
		p.Gen = "random-session"
		attPartition(g, p, i%6)
		run(p, false)
		if i%97 == 0 && c.WantSample() {
			c.Sample(map[string]any{"dialect": p.Dialect, "files": p.Files, "partition": p.Mode, "alarm_id": p.AlarmID})
		}
		if i%7 == 0 && terr == nil { // the same session over loopback TCP against the server of its dialect
			run(p, true)
		}
	})
	// all 1-cuts of short sessions
	ns := c.N(12, 200)
	core.ParallelFor(ns, ncpu(), func(i int) {
		g := gen.G{Rand: core.NewRand(c.Seed, "c15s", uint64(i))}
		d := gen.Dialects[i%5]
		p := &attPlan{Kind: "att", Gen: "all-1-cuts", Dialect: int(d), Phone: "013800002222", Serial0: 7, TermID: core.Hex([]byte("T1")), AlarmID: core.Hex(append([]byte("a"), attMarker...))}
		size := 3 + g.Intn(6)
		p.Files = []attFile{{Name: core.Hex(append([]byte("f"), attMarker...)), Size: size, ContSd: g.U64(), Chunks: [][2]int{{2, size - 2}, {0, 2}}}}
		b := attBuild(p)
		for cut := 1; cut < len(b.stream); cut++ {
			q := *p
			q.Mode = "1-cut"
			q.Cuts = []int{cut}
			run(&q, false)
		}
		c.Count("sessions_with_all_1_cuts", 1)
	})
	c.Exh = true
	c.Floor("sessions", 500)
}

// attFullRead: sessions whose bytes up to and including a control frame the terminal waits on fill the server's read buffer
// EXACTLY (k x 100 KiB in one write over net.Pipe, i.e. one or more completely full reads and nothing behind them). The replies
// must arrive without further input; decided on relative timing (quiet for 1.5 s, then prompt after the next write = withheld).
func attFullRead(c *core.Collector) {
	const bufSize = 100 * 1024
	for _, total := range []int{bufSize} {
		for variant := 0; variant < 3; variant++ {
			p := &attPlan{Kind: "att", Dialect: int(consts.ActiveSafetyJS), Phone: "000013800001", TermID: core.Hex([]byte("T1")), AlarmID: core.Hex([]byte("alarm")), Serial0: 1, Gen: "full-read"}
			name := []byte(fmt.Sprintf("full%d.bin", variant))
			cs := []int{4000, 16000, 60000}[variant]
			size := total - 800 // first guess; corrected below until the stream prefix has the wanted length
			var b *attBuilt
			cut := -1
			for iter := 0; iter < 8; iter++ {
				var chunks [][2]int
				for off := 0; off < size; off += cs {
					chunks = append(chunks, [2]int{off, min(cs, size-off)})
				}
				p.Files = []attFile{{Name: core.Hex(name), Size: size, ContSd: 7, Chunks: chunks}}
				b = attBuild(p)
				// end of the file's 0x1212 = last control unit before the sentinel
				cut = b.ends[len(b.ends)-2]
				if cut == total {
					break
				}
				size += total - cut
			}
			if cut != total || b == nil {
				c.Count("full_read_sessions_not_constructible", 1)
				continue
			}
			want := len(b.expect) - 1 // every reply but the sentinel's
			var before, tot int
			var delay time.Duration
			var to bool
			for attempt := 0; attempt < 3; attempt++ { // only a pattern that repeats three times in a row is a verdict (loaded machines)
				before, tot, delay, to = att.RunPipeStaged(consts.ActiveSafetyJS, b.stream[:cut], b.stream[cut:], want, 1500*time.Millisecond)
				if to || before >= want || !(tot >= want+1 && delay < 150*time.Millisecond) {
					break
				}
			}
			c.Eval()
			switch {
			case to:
				c.Inconclusive()
			case before >= want:
				c.Count("full_read_sessions_answered_without_further_input", 1)
			case tot >= want+1 && delay < 150*time.Millisecond:
				c.Violate("reply|replies withheld until further input after a read that filled the server's buffer exactly", fmt.Sprintf("%d bytes in one write ending with the file's 0x1212: %d of %d replies during 1.5 s of silence, the rest %v after the next frame was sent", cut, before, want, delay.Round(time.Millisecond)), map[string]any{"burst_bytes": cut, "file_size": size, "chunk": cs})
			default:
				c.Inconclusive()
			}
		}
	}
	c.Floor("full_read_sessions_answered_without_further_input", 2)
}
