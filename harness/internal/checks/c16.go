package checks

import (
	"fmt"
	"verif/harness/internal/att"

	"github.com/cuteLittleDevil/go-jt808/attachment"
	"github.com/cuteLittleDevil/go-jt808/protocol/model"

	"verif/harness/internal/core"
	"verif/harness/internal/gen"
	"verif/harness/internal/ref"
)

// C16 — attachment completion report lists exactly the missing byte ranges.
// Part "ranges": the pure range computation (exported Package type) against the reference interval complement,
// exhaustive for small files. Part "sessions": the same situations driven through the real connection loop
// (gaps before the first 0x1212, exactly the reported ranges resent, second 0x1212 must say complete).

func init() {
	register(core.Plan{
		Property: "C16", Level: "exploration",
		Parts: func(tier string) []core.Part {
			return []core.Part{{Name: "ranges", Bin: "plain", Batches: 1, TimeoutS: 600}, {Name: "sessions", Bin: "plain", Batches: 1, TimeoutS: 600}}
		},
		Assumptions: []string{
			"reference interval complement internal/ref/ranges.go; received chunks are pairwise disjoint (identical resends aside)",
			"the pure part builds attachment.Package values the way the connection loop does (OffsetRecord per chunk, CurrentSize = sum of lengths); the session part exercises the real accumulation",
		},
	}, map[string]Worker{"ranges": c16Ranges, "sessions": c16Sessions})
	replayers["c16"] = func(w map[string]any) string {
		var cs c16Case
		remarshal(w, &cs)
		return c16Check(cs)
	}
}

type c16Case struct {
	Kind   string      `json:"kind"`
	Size   uint32      `json:"size"`
	Chunks []ref.Range `json:"chunks_in_arrival_order"`
}

func c16Check(cs c16Case) string {
	p := &attachment.Package{FileSize: cs.Size, OffsetRecord: map[int]int{}, OffsetDataRecord: map[int][]byte{}}
	var cur uint32
	for _, c := range cs.Chunks {
		if old, ok := p.OffsetRecord[int(c.Off)]; ok {
			cur -= uint32(old)
		}
		p.OffsetRecord[int(c.Off)] = int(c.Len)
		cur += c.Len
	}
	p.CurrentSize = cur
	got := p.StatisticalMissSegments()
	want := ref.MissingRanges(cs.Size, cs.Chunks)
	if len(got) != len(want) {
		return "ranges|number of missing ranges differs from the maximal ascending complement"
	}
	for i := range got {
		if got[i].DataOffset != want[i].Off || got[i].DataLength != want[i].Len {
			return "ranges|a missing range differs from the maximal ascending complement"
		}
	}
	// the response body built from these ranges must survive its own codec
	if len(got) > 0 && len(got) <= 255 {
		x := model.P0x9212{FileNameLen: 1, FileName: "f", FileType: 0, UploadResult: 1, RetransmitPacketNumber: byte(len(got)), P0x9212RetransmitPacketList: got}
		var y model.P0x9212
		if err := y.Parse(c07Msg(x.Encode(), gen.V13)); err != nil || len(y.P0x9212RetransmitPacketList) != len(got) {
			return "codec|0x9212 with these ranges does not parse back"
		}
		for i := range got {
			if y.P0x9212RetransmitPacketList[i] != got[i] {
				return "codec|0x9212 range list changed in Parse(Encode(x))"
			}
		}
	}
	return ""
}

func c16Ranges(c *core.Collector, x *Ctx) {
	c.Rule = "pure range computation: EXHAUSTIVE for file sizes 1..Smax — every subset of received bytes, as maximal chunks, as single-byte chunks and as one random split, in ascending, descending and random arrival order; random files up to 2^20 bytes with up to 255+ gaps (gaps at start / middle / end, adjacent chunks, single-byte gaps), chunks received twice, and the same structures moved to offsets / sizes around 2^31 and 2^32-1. distinct by hash of (size, chunks)"
	run := func(cs c16Case, nt bool) {
		c.Eval()
		var bad string
		if guard(c, func() any { return cs }, func() { bad = c16Check(cs) }) {
			return
		}
		if nt {
			h := uint64(cs.Size)
			for _, k := range cs.Chunks {
				h = h*1099511628211 ^ uint64(k.Off)<<32 ^ uint64(k.Len)
			}
			c.NonTrivial(h)
		}
		if bad != "" {
			c.Violate(bad, fmt.Sprintf("size %d chunks %v", cs.Size, cs.Chunks), cs)
		}
	}
	Smax := c.N(12, 16)
	for size := 1; size <= Smax; size++ {
		size := size
		core.ParallelFor(1<<size, ncpu(), func(mask int) {
			r := core.NewRand(c.Seed, "c16", uint64(size)<<32|uint64(mask))
			var chunks []ref.Range
			i := 0
			for i < size {
				if mask>>i&1 == 0 {
					i++
					continue
				}
				j := i
				for j < size && mask>>j&1 == 1 {
					j++
				}
				chunks = append(chunks, ref.Range{Off: uint32(i), Len: uint32(j - i)})
				i = j
			}
			var fine, split []ref.Range
			for _, k := range chunks {
				for q := k.Off; q < k.Off+k.Len; q++ {
					fine = append(fine, ref.Range{Off: q, Len: 1})
				}
				a := k
				for a.Len > 1 && r.Bool() {
					cut := 1 + uint32(r.Intn(int(a.Len-1)))
					split = append(split, ref.Range{Off: a.Off, Len: cut})
					a = ref.Range{Off: a.Off + cut, Len: a.Len - cut}
				}
				split = append(split, a)
			}
			for _, cks := range [][]ref.Range{chunks, fine, split} {
				run(c16Case{"c16", uint32(size), cks}, mask != 0)
				rev := make([]ref.Range, len(cks))
				for q := range cks {
					rev[len(cks)-1-q] = cks[q]
				}
				run(c16Case{"c16", uint32(size), rev}, mask != 0)
				sh := make([]ref.Range, len(cks))
				for q, w := range r.Perm(len(cks)) {
					sh[q] = cks[w]
				}
				run(c16Case{"c16", uint32(size), sh}, mask != 0)
			}
		})
	}
	c.Count("exhaustive_max_size", int64(Smax))
	c.Exh = true
	n := c.N(20000, 1000000)
	core.ParallelFor(n, ncpu(), func(it int) {
		r := core.NewRand(c.Seed, "c16r", uint64(it))
		size := 1 + r.Intn(1<<20)
		if r.Chance(1, 4) {
			size = 1 + r.Intn(2000)
		}
		nch := r.Intn(400)
		var chunks []ref.Range
		pos := 0
		for k := 0; k < nch && pos < size; k++ {
			gap := r.Intn(1 + (size-pos)/(nch-k+1))
			switch r.Intn(4) {
			case 0:
				gap = 0 // adjacent chunks
			case 1:
				gap = 1 // single-byte gap
			}
			if k == 0 && r.Bool() {
				gap = 0
			}
			pos += gap
			if pos >= size {
				break
			}
			ln := 1 + r.Intn(1+(size-pos)/(nch-k+1))
			if k == nch-1 && r.Bool() {
				ln = size - pos // no gap at the end
			}
			chunks = append(chunks, ref.Range{Off: uint32(pos), Len: uint32(ln)})
			pos += ln
		}
		sh := make([]ref.Range, len(chunks))
		for q, w := range r.Perm(len(chunks)) {
			sh[q] = chunks[w]
		}
		run(c16Case{"c16", uint32(size), sh}, true)
		if len(sh) > 0 && it%6 == 0 { // a chunk received twice (same offset, same length), at a random later position
			d := sh[r.Intn(len(sh))]
			at := r.Intn(len(sh) + 1)
			dup := append(append(append([]ref.Range{}, sh[:at]...), d), sh[at:]...)
			run(c16Case{"c16", uint32(size), dup}, true)
			c.Count("cases_with_a_chunk_received_twice", 1)
		}
		if it%8 == 0 && size <= 4096 {
			// the same structure moved to the top of the 32-bit range: one big received block [0,B) (in 1..3 pieces, in any
			// order relative to the rest) followed by the small pattern at B.. — offsets and lengths around 2^31 and 2^32
			B := core.Pick(r, []uint32{1<<31 - 8, 1<<31 - 1, 1 << 31, 1<<31 + 5, 3 << 30, 0xffffffff - uint32(size)})
			var big []ref.Range
			switch r.Intn(4) {
			case 0: // [0,B) entirely missing
			case 1:
				big = []ref.Range{{Off: 0, Len: B}}
			case 2:
				h := B / 2
				big = []ref.Range{{Off: h, Len: B - h}, {Off: 0, Len: h}}
			default: // a hole in the middle of the big block
				h := B / 3
				big = []ref.Range{{Off: 0, Len: h}, {Off: 2 * h, Len: B - 2*h}}
			}
			moved := append([]ref.Range{}, big...)
			for _, k := range sh {
				moved = append(moved, ref.Range{Off: k.Off + B, Len: k.Len})
			}
			if r.Bool() {
				for q, w := range r.Perm(len(moved)) {
					if q < w {
						moved[q], moved[w] = moved[w], moved[q]
					}
				}
			}
			run(c16Case{"c16", B + uint32(size), moved}, true)
			c.Count("cases_with_offsets_beyond_2^31", 1)
		}
		if it%5000 == 0 && c.WantSample() && len(sh) < 12 {
			c.Sample(map[string]any{"size": size, "chunks": sh, "missing": ref.MissingRanges(uint32(size), sh)})
		}
	})
	// regular structures: EVERY chunk count 1..K of equally sized, equally spaced chunks (chunk sizes 1 B..64 KiB, gaps of 1 byte,
	// 3 bytes, one chunk), with and without a gap in front and behind, arriving in ascending and in descending order: every
	// number of missing ranges from 0 to K+1 occurs, not only the ones random cases happen to produce
	{
		K := c.N(700, 3000)
		core.ParallelFor(K, ncpu(), func(ki int) {
			k := ki + 1
			for _, cs := range []uint32{1, 2, 7, 1000, 65536} {
				for _, gap := range []uint32{1, 3, cs} {
					for lead := uint32(0); lead < 2; lead++ {
						for trail := uint32(0); trail < 2; trail++ {
							var chunks []ref.Range
							pos := lead * gap
							for q := 0; q < k; q++ {
								chunks = append(chunks, ref.Range{Off: pos, Len: cs})
								pos += cs + gap
							}
							size := pos - gap + trail*gap
							if (k+int(cs)+int(gap))%2 == 1 {
								for a, b := 0, len(chunks)-1; a < b; a, b = a+1, b-1 {
									chunks[a], chunks[b] = chunks[b], chunks[a]
								}
							}
							run(c16Case{"c16", size, chunks}, true)
						}
					}
				}
			}
		})
		c.Count("chunk_counts_swept_with_regular_structures", int64(K))
		// every file size 1..5000 with nothing received, everything received in one chunk, and one chunk in the middle
		core.ParallelFor(5000, ncpu(), func(si int) {
			size := uint32(si + 1)
			run(c16Case{"c16", size, nil}, false)
			run(c16Case{"c16", size, []ref.Range{{Off: 0, Len: size}}}, false)
			if size >= 3 {
				run(c16Case{"c16", size, []ref.Range{{Off: size / 3, Len: size / 3}}}, true)
			}
		})
	}
	c.Sample(map[string]any{"size": 10, "chunks": []ref.Range{{Off: 2, Len: 3}, {Off: 6, Len: 1}}, "missing": ref.MissingRanges(10, []ref.Range{{Off: 2, Len: 3}, {Off: 6, Len: 1}})})
	c.Floor("exhaustive_max_size", 10)
	c.Floor("cases_with_offsets_beyond_2^31", 100)
	c.Floor("cases_with_a_chunk_received_twice", 100)
}

func c16Sessions(c *core.Collector, x *Ctx) {
	c.Rule = "sessions through the real connection loop (net.Pipe): files with chunks left out before the first 0x1212 (gaps at start / middle / end, single chunks, all but one), the 0x9212 must list exactly the maximal missing ranges; exactly those chunks are then resent and the next 0x9212 must say complete; all five dialects and all partition modes. distinct by hash of (plan, partition)"
	n := c.N(1500, 60000)
	sessions := c.Counter("sessions_with_gaps")
	// one attachment server per dialect over loopback TCP as well (every seventh session is also played there)
	addrs := map[int]string{}
	for _, d := range gen.Dialects {
		if a, err := att.StartTCP(attachment.WithFileEventerFunc(func() attachment.FileEventer { return &att.Recorder{} }), attachment.WithActiveSafetyType(d)); err == nil {
			addrs[int(d)] = a
		}
	}
	tcpSessions := c.Counter("tcp_sessions_with_gaps")
	core.ParallelFor(n, ncpu(), func(i int) {
		g := gen.G{Rand: core.NewRand(c.Seed, "c16s", uint64(i))}
		p := attGenPlan(g, i, true)
		p.Gen = "gaps-then-resend"
		attPartition(g, p, i%6)
		hasGap := false
		for _, f := range p.Files {
			if len(f.Resend) > 0 {
				hasGap = true
			}
		}
		c.Eval()
		var viol [][2]string
		var incon bool
		if guard(c, func() any { return p }, func() { viol, incon = attRun(p, false, "") }) {
			return
		}
		if incon {
			c.Inconclusive()
			return
		}
		if hasGap {
			sessions.Add(1)
			c.NonTrivial(core.HashString(fmt.Sprintf("%+v", *p)))
		}
		for _, v := range viol {
			c.Violate(v[0], v[1]+" ["+p.Gen+", partition "+p.Mode+"]", p)
		}
		if a, ok := addrs[p.Dialect]; ok && i%7 == 3 && len(viol) == 0 {
			var v2 [][2]string
			var inc2 bool
			if !guard(c, func() any { return p }, func() { v2, inc2 = attRun(p, true, a) }) && !inc2 {
				c.Eval()
				if hasGap {
					tcpSessions.Add(1)
				}
				for _, v := range v2 {
					c.Violate(v[0], v[1]+" ["+p.Gen+", partition "+p.Mode+", loopback TCP]", p)
				}
			}
		}
		if hasGap && i%211 == 0 && c.WantSample() {
			c.Sample(map[string]any{"dialect": p.Dialect, "files": p.Files, "partition": p.Mode})
		}
	})
	// up to 255 gaps in one file, through the real connection loop
	for _, gaps := range []int{100, 126, 127, 128, 200, 255} {
		for d := 0; d < 5; d++ {
			g := gen.G{Rand: core.NewRand(c.Seed, "c16big", uint64(gaps*8+d))}
			size := 2*gaps + 1
			p := &attPlan{Kind: "att", Gen: fmt.Sprintf("%d single-byte gaps", gaps), Dialect: int(gen.Dialects[d]), Phone: "013800003333", Serial0: g.U16(),
				TermID: core.Hex([]byte("T2")), AlarmID: core.Hex([]byte("many-gaps"))}
			f := attFile{Name: core.Hex([]byte("gaps.bin")), Size: size, ContSd: g.U64(), Type: byte(d)}
			var recv, miss [][2]int
			for off := 0; off < size; off++ {
				if off%2 == 0 {
					recv = append(recv, [2]int{off, 1})
				} else {
					miss = append(miss, [2]int{off, 1})
				}
			}
			pm := g.Perm(len(recv))
			for _, q := range pm {
				f.Chunks = append(f.Chunks, recv[q])
			}
			f.Resend = miss
			p.Files = []attFile{f}
			attPartition(g, p, d%3)
			c.Eval()
			var viol [][2]string
			var incon bool
			if guard(c, func() any { return p }, func() { viol, incon = attRun(p, false, "") }) {
				continue
			}
			if incon {
				c.Inconclusive()
				continue
			}
			c.Count("sessions_with_many_gaps", 1)
			c.NonTrivial(core.HashString(fmt.Sprintf("manygaps/%d/%d", gaps, d)))
			for _, v := range viol {
				c.Violate(v[0], v[1]+" ["+p.Gen+"]", map[string]any{"gen": p.Gen, "dialect": p.Dialect, "size": size})
			}
		}
	}
	// more than 65 536 chunks for one file (a per-file table with a 16-bit index, a cap on records): 70 000 one-byte chunks of a
	// 70 010-byte file in shuffled order, three gaps left, then resent
	{
		g := gen.G{Rand: core.NewRand(c.Seed, "c16many", 0)}
		size := 70010
		p := &attPlan{Kind: "att", Gen: "70 000 one-byte chunks", Dialect: int(gen.Dialects[int(c.Seed)%5]), Phone: "013800004444", Serial0: g.U16(),
			TermID: core.Hex([]byte("T4")), AlarmID: core.Hex([]byte("many-chunks")), Mode: "single-write", BigWrites: true}
		f := attFile{Name: core.Hex([]byte("m.bin")), Size: size, ContSd: g.U64(), Type: 1}
		gaps := map[int]bool{0: true, 1: true, 2: true, 40000: true}
		for off := 65990; off < 66000; off++ {
			gaps[off] = true
		}
		for off := 70000; off < size; off++ {
			gaps[off] = true
		}
		for _, off := range g.Perm(size) {
			if !gaps[off] {
				f.Chunks = append(f.Chunks, [2]int{off, 1})
			}
		}
		f.Resend = [][2]int{{0, 3}, {40000, 1}, {65990, 10}, {70000, 10}}
		p.Files = []attFile{f}
		p.Cuts = []int{1 << 30}
		c.Eval()
		var viol [][2]string
		var incon bool
		if !guard(c, func() any { return map[string]any{"gen": p.Gen} }, func() { viol, incon = attRun(p, false, "") }) {
			if incon {
				c.Inconclusive()
			} else {
				c.Count("sessions_with_more_than_65536_chunks", 1)
				c.NonTrivial(core.HashString("c16many"))
				for _, v := range viol {
					c.Violate(v[0], v[1]+" ["+p.Gen+"]", map[string]any{"gen": p.Gen, "dialect": p.Dialect, "size": size})
				}
			}
		}
	}
	c.Floor("sessions_with_gaps", 300)
	c.Floor("sessions_with_many_gaps", 10)
}
