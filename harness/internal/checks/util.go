package checks

import (
	"fmt"
	"time"
)

func sprint(v any) string { return fmt.Sprint(v) }
func trunc(s string, n int) string {
	if len(s) > n {
		return s[:n] + "…"
	}
	return s
}

func sleepMs(n int) { time.Sleep(time.Duration(n) * time.Millisecond) }
