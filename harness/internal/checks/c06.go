package checks

import (
	"bytes"
	"fmt"
	"strings"
	"sync"
	"sync/atomic"
	"time"

	"github.com/cuteLittleDevil/go-jt808/service"

	"verif/harness/internal/core"
	"verif/harness/internal/gen"
	"verif/harness/internal/ref"
	"verif/harness/internal/svc"
)

// C06 — automatic replies: one per request, correctly correlated, ordered and numbered.
// Offline history checker over the recorded client/callback event logs, R-reply as oracle.

func init() {
	register(core.Plan{
		Property: "C06", Level: "exploration",
		Parts: func(tier string) []core.Part {
			return []core.Part{{Name: "conversations", Bin: "plain", Batches: c06Batches(tier), Parallel: 2, TimeoutS: 900},
				{Name: "stalled-then-resumed", Bin: "plain", Batches: 1, Parallel: 1, TimeoutS: 180}}
		},
		Assumptions: []string{
			"R-reply (DESIGN Appendix C / internal/ref/reply.go) is the expected automatic reply per request; default server configuration",
			"a missing reply is decided by FIFO order against a sentinel heartbeat (once the sentinel's reply is seen every earlier reply must have been seen); only the sentinel wait has a wall-clock watchdog, whose firing is inconclusive",
			"a sub-packaged request counts once, when complete; its reply may echo the serial of any packet of the transfer; the client waits for that reply before continuing so the order is fully determined",
			"terminal-sent platform-originated IDs (0x8xxx/0x9xxx) are outside the property's quantifier and not generated here",
		},
	}, map[string]Worker{"conversations": c06Worker, "stalled-then-resumed": c06Stalled})
}

func c06Batches(tier string) int {
	if tier == "thorough" {
		return 16
	}
	return 2
}

type c06Req struct {
	ID      uint16
	Serial  uint16
	Body    []byte
	Packets int // >1: sent as sub-packages (packet 1 first, others shuffled), client waits for the reply
	serials []uint16
}

// c06Body returns a well-formed body for a terminal-originated message id.
func c06Body(g gen.G, id uint16, v2019 bool, phone string) []byte {
	bcd6 := func() []byte {
		b := make([]byte, 6)
		for i := range b {
			b[i] = byte(g.Intn(10))<<4 | byte(g.Intn(10))
		}
		return b
	}
	z := g.Bytes
	switch id {
	case 0x0002:
		return nil
	case 0x0100:
		if v2019 {
			return z(76 + g.Intn(10))
		}
		return z(37 + g.Intn(10))
	case 0x0102:
		auth := phone
		if strings.ToUpper(phone) != phone && g.Chance(1, 3) {
			// a phone with hex letters: the same letters in upper or mixed case are a WRONG code
			b := []byte(strings.ToUpper(phone))
			if g.Bool() {
				for i := range b {
					if g.Bool() {
						b[i] = phone[i]
					}
				}
				if string(b) == phone {
					b = []byte(strings.ToUpper(phone))
				}
			}
			auth = string(b)
		} else {
			auth = c06Auth(g, phone)
		}
		if v2019 {
			b := append([]byte{byte(len(auth))}, auth...)
			if g.Chance(1, 8) {
				return append(b, z(g.Intn(35))...) // too short for its fixed fields: by design not answered
			}
			return append(b, z(35)...)
		}
		return []byte(auth)
	case 0x0200:
		return g.LocBody(3)
	case 0x0704:
		return g.Batch0704(3)
	case 0x0800:
		return z(8)
	case 0x0801:
		b := append(z(8), g.LocBlock()...)
		return append(b, z(g.Intn(200))...)
	case 0x1003:
		return z(10)
	case 0x1005:
		return append(append(bcd6(), bcd6()...), z(4)...)
	case 0x1210:
		b := z(7 + 16 + 32)
		return append(b, 0, 0)
	case 0x1211, 0x1212:
		n := 1 + g.Intn(20)
		b := append([]byte{byte(n)}, z(n)...)
		return append(b, z(5)...)
	case 0x0001:
		return z(5)
	case 0x0104:
		return []byte{g.U8(), g.U8(), 0}
	case 0x0805:
		return []byte{g.U8(), g.U8(), 0, 0, 0}
	case 0x1205:
		return []byte{g.U8(), g.U8(), 0, 0, 0, 0}
	case 0x1206:
		return z(3)
	}
	return z(g.Intn(20))
}

// c06Auth: an authentication code for this phone: the right one (the phone string) or a wrong one, near misses included.
func c06Auth(g gen.G, phone string) string {
	auth := phone
	switch g.Intn(6) {
	case 0:
		auth = phone + "x"
	case 1:
		auth = "0" + phone
	case 2:
		// near misses of the right code: padded, trimmed, re-cased, one digit off (all of them are WRONG codes: result 1)
		pads := []string{"\x00", "\x00\x00", " ", "\n", "\t", "\xff", "0"}
		switch g.Intn(6) {
		case 0:
			auth = phone + pads[g.Intn(len(pads))]
		case 1:
			auth = pads[g.Intn(len(pads))] + phone
		case 2:
			if len(phone) > 1 {
				auth = phone[:len(phone)-1]
			}
		case 3:
			if len(phone) > 1 {
				auth = phone[1:]
			}
		case 4:
			b := []byte(phone)
			i := g.Intn(len(b))
			b[i] ^= []byte{0x01, 0x10, 0x20, 0x80}[g.Intn(4)]
			auth = string(b)
			if up := strings.ToUpper(phone); up != phone && g.Bool() {
				auth = up // the same letters in upper case
			}
		default:
			auth = ""
		}
	}
	return auth
}

var c06IDs = []uint16{0x0002, 0x0100, 0x0102, 0x0200, 0x0704, 0x0800, 0x0801, 0x1003, 0x1005, 0x1210, 0x1211, 0x1212,
	0x0001, 0x0104, 0x0805, 0x1205, 0x1206, 0x0900, 0x0301, 0x0F00, 0x0003, 0x0702}

type c06Result struct {
	hashes   []uint64
	viol     [][2]string // signature, detail
	replies  int
	incon    bool
	witness  any
	requests int
	phone    string
	first    uint16 // serial of the first handled message (identifies the connection's recorder)
}

// c06Conversation runs one connection's conversation and checks it. mode: 0 one frame per write, 1 pipelined segments, 2 mixed.
func c06Conversation(addr string, cid int, seed uint64, nreq int, mode int, wrap bool, withFrag bool) (res c06Result) {
	g := gen.G{Rand: core.NewRand(seed, "c06conv", uint64(cid))}
	v2019 := cid%2 == 1
	digits := fmt.Sprintf("%d", 100000+cid)
	if cid%5 == 0 {
		digits = fmt.Sprintf("%d", 7+cid) // short phone: many leading zeros in the BCD field
	}
	t, err := svc.Dial(addr, v2019, digits)
	if err != nil {
		res.incon = true
		return
	}
	defer t.Close()
	if cid%7 == 3 {
		// a phone field with non-decimal nibbles (a..f): the server renders it in lower-case hex; that string is the right auth code,
		// the same letters in another case are not
		// (the low three bytes keep the digits that make this connection's phone unique)
		for i := len(t.BCD) - 5; i < len(t.BCD)-3; i++ {
			t.BCD[i] = []byte{0x1a, 0x2b, 0x3c, 0xd4, 0xe5, 0xf6, 0xab, 0xcd}[(cid+i)%8]
		}
		t.Phone = ref.PhoneString(t.BCD)
	}
	if v2019 && cid%3 != 0 {
		// the protocol-version-number byte of the 2019 header is the terminal's business: 0, 2, 0x7d (escaped on the wire), 0xff ...
		t.VerByte = 1 + int([]byte{0, 2, 0x7d, 0x7e, 0xff, 3}[cid/3%6])
	}
	var incon atomic.Bool
	defer func() { res.incon = res.incon || incon.Load() }()
	var vmu sync.Mutex
	bad := func(sig, detail string) {
		vmu.Lock()
		res.viol = append(res.viol, [2]string{sig, detail})
		vmu.Unlock()
	}
	var reqs []c06Req
	for i := 0; i < nreq; i++ {
		var r c06Req
		if wrap {
			// every platform serial 0..65535 (and beyond the wrap) and every request serial once, over a mix of replying message
			// types (a reply that goes wrong only for one serial value of one message type is reached here)
			id := []uint16{0x0002, 0x0200, 0x0002, 0x0100, 0x0704, 0x0002, 0x0102, 0x0200}[(i+i/8)%8]
			r = c06Req{ID: id, Serial: uint16(i)}
			if id != 0x0002 {
				r.Body = c06Body(g, id, v2019, t.Phone)
				if ref.ExpectedReply(id, r.Serial, r.Body, v2019, t.Phone) == nil {
					r = c06Req{ID: 0x0002, Serial: uint16(i)} // by design unanswered body: keep one reply per request on this connection
				}
			}
		} else {
			id := core.Pick(g.Rand, c06IDs)
			if g.Chance(1, 30) {
				id = uint16(0x0F00 + g.Intn(0x100)) // random unsupported terminal-range ID
			}
			r = c06Req{ID: id, Serial: g.U16(), Body: c06Body(g, id, v2019, t.Phone)}
			switch i {
			case 0:
				r.Serial = 0
			case 1:
				r.Serial = 65535
			}
			if withFrag && g.Chance(1, 12) && len(r.Body) >= 4 && ref.ExpectedReply(id, 0, r.Body, v2019, t.Phone) != nil {
				r.Packets = 2 + g.Intn(3)
				if r.Packets > len(r.Body) {
					r.Packets = len(r.Body)
				}
			}
		}
		reqs = append(reqs, r)
	}
	sentinel := c06Req{ID: 0x0002, Serial: 0x5e17}
	reqs = append(reqs, sentinel)
	res.requests = len(reqs)
	firstSerial := reqs[0].Serial
	if reqs[0].Packets > 1 {
		reqs[0].Packets = 0
	}

	type sent struct {
		stamp int64
		req   int
	}
	var wire []byte // everything the server wrote, concatenated (for the write-callback comparison)
	var gotFrames []svc.Rx
	platformSerial := 0
	checkReply := func(ri int, rx svc.Rx, serials []uint16) bool {
		r := reqs[ri]
		var exp *ref.Reply
		matched := false
		for _, s := range serials {
			exp = ref.ExpectedReply(r.ID, s, r.Body, v2019, t.Phone)
			if exp == nil {
				break
			}
			if rx.F != nil && rx.F.ID == exp.ID && (exp.SkipBody || bytes.Equal(rx.F.Body, exp.Body)) {
				matched = true
				break
			}
		}
		idc := fmt.Sprintf("0x%04x", r.ID)
		switch {
		case rx.F == nil:
			bad("reply|undecodable frame from the server|"+idc, fmt.Sprintf("conn %d: server wrote bytes that are not a valid frame: %x", cid, rx.Raw))
		case exp == nil:
			bad("reply|reply to a message that must not be answered|"+idc, fmt.Sprintf("conn %d: got %04x for request %04x serial %d", cid, rx.F.ID, r.ID, r.Serial))
		case rx.F.ID != exp.ID:
			bad("reply|wrong reply type|"+idc, fmt.Sprintf("conn %d: request %04x serial %d answered with %04x body %x, expected %04x", cid, r.ID, r.Serial, rx.F.ID, rx.F.Body, exp.ID))
		case !matched:
			bad("reply|wrong reply body (echoed serial/ID/result/auth code/multimedia ID)|"+idc, fmt.Sprintf("conn %d: request %04x serial %d body %s answered with body %x, expected %x", cid, r.ID, r.Serial, core.HexCap(r.Body, 40), rx.F.Body, exp.Body))
		case !bytes.Equal(rx.F.BCD, t.BCD) || rx.F.V2019 != v2019:
			bad("reply|wrong addressing (phone / version layout)|"+idc, fmt.Sprintf("conn %d: reply addressed %x v2019=%v", cid, rx.F.BCD, rx.F.V2019))
		case rx.F.Fragmented || rx.F.BodyLen != len(rx.F.Body):
			bad("reply|malformed reply header|"+idc, "")
		default:
			if int(rx.F.Serial) != platformSerial%65536 {
				bad("serial|platform serial numbers not consecutive from 0 (mod 65536)", fmt.Sprintf("conn %d: frame #%d written by the server carries serial %d", cid, platformSerial, rx.F.Serial))
			}
			platformSerial++
			return true
		}
		platformSerial++
		return false
	}

	// expected replies in order (request index list)
	var expIdx []int
	for i, r := range reqs {
		if ref.ExpectedReply(r.ID, r.Serial, r.Body, v2019, t.Phone) != nil {
			expIdx = append(expIdx, i)
		}
	}
	recvDone := make(chan struct{})
	fragReply := make(chan struct{}, 1024)
	var mu sync.Mutex
	nextExp := 0
	go func() { // receiver + checker
		defer close(recvDone)
		for nextExp < len(expIdx) {
			rx, ok, timedOut := t.Next(45 * time.Second)
			if timedOut {
				if serverAnswersFreshConnection(addr) {
					bad("reply|an owed reply never came although the server answers fresh connections at once", fmt.Sprintf("conn %d: silent for 45 s after %d of %d expected replies", cid, nextExp, len(expIdx)))
				} else {
					incon.Store(true)
				}
				return
			}
			if !ok {
				bad("reply|connection closed by the server during a valid conversation", fmt.Sprintf("conn %d: closed after %d of %d expected replies", cid, nextExp, len(expIdx)))
				return
			}
			mu.Lock()
			gotFrames = append(gotFrames, rx)
			wire = append(wire, rx.Raw...)
			ri := expIdx[nextExp]
			serials := []uint16{reqs[ri].Serial}
			if reqs[ri].Packets > 1 {
				serials = reqs[ri].serials
			}
			okr := checkReply(ri, rx, serials)
			res.hashes = append(res.hashes, core.HashBytes([]byte{byte(cid), byte(cid >> 8), byte(reqs[ri].ID >> 8), byte(reqs[ri].ID), byte(reqs[ri].Serial >> 8), byte(reqs[ri].Serial)}, reqs[ri].Body))
			nextExp++
			mu.Unlock()
			if reqs[ri].Packets > 1 {
				fragReply <- struct{}{}
			}
			if !okr && len(res.viol) > 3 {
				return
			}
		}
	}()

	// sender
	var pending []byte
	flush := func() bool {
		for len(pending) > 0 {
			k := len(pending)
			if mode != 0 && !wrap {
				k = 1 + g.Intn(2000)
				if k > len(pending) {
					k = len(pending)
				}
			}
			if wrap && k > 8192 {
				k = 8192
			}
			if err := t.Write(pending[:k]); err != nil {
				return false
			}
			pending = pending[k:]
		}
		return true
	}
	for i := range reqs {
		r := &reqs[i]
		if r.Packets > 1 {
			if !flush() {
				break
			}
			// split the body into r.Packets non-empty parts; packet 1 first, the others shuffled
			n := r.Packets
			cut := make([]int, 0, n+1)
			cut = append(cut, 0)
			for k := 1; k < n; k++ {
				cut = append(cut, k*len(r.Body)/n)
			}
			cut = append(cut, len(r.Body))
			order := []int{1}
			for _, q := range g.Perm(n - 1) {
				order = append(order, q+2)
			}
			mu.Lock()
			r.serials = nil
			for k := 1; k <= n; k++ {
				r.serials = append(r.serials, r.Serial+uint16(k-1))
			}
			mu.Unlock()
			for _, k := range order {
				f := t.SubFrame(r.ID, r.Serial+uint16(k-1), uint16(n), uint16(k), r.Body[cut[k-1]:cut[k]])
				if err := t.Write(f); err != nil {
					break
				}
			}
			select {
			case <-fragReply:
			case <-recvDone:
			case <-time.After(60 * time.Second):
				incon.Store(true)
			}
			continue
		}
		f := t.Frame(r.ID, r.Serial, r.Body)
		switch {
		case wrap:
			pending = append(pending, f...)
			if len(pending) > 32768 && !flush() {
				break
			}
		case mode == 0 || (mode == 2 && g.Chance(1, 2)):
			if !flush() || t.Write(f) != nil {
				break
			}
			if g.Chance(1, 3) {
				time.Sleep(time.Duration(20+g.Intn(300)) * time.Microsecond)
			}
		default:
			pending = append(pending, f...)
			if g.Chance(1, 5) {
				flush()
			}
		}
	}
	flush()
	<-recvDone
	mu.Lock()
	res.replies = nextExp
	mu.Unlock()
	if incon.Load() || len(res.viol) > 0 {
		res.witness = c06Witness(cid, v2019, t.Phone, reqs, gotFrames)
		return
	}
	// nothing may follow the sentinel's reply (an extra or duplicated reply would still be in flight): short grace read
	if rx, ok, timedOut := t.Next(40 * time.Millisecond); !timedOut && ok {
		bad("reply|extra frame after the last expected reply", fmt.Sprintf("conn %d: %x", cid, rx.Raw))
	}
	// ---- callbacks
	if svc.RaceMode {
		return
	}
	res.phone, res.first = t.Phone, firstSerial
	rec := svc.Lookup(t.Phone, firstSerial)
	if rec == nil {
		bad("callback|no callbacks recorded for the connection", fmt.Sprintf("conn %d phone %s", cid, t.Phone))
		return
	}
	// the write callback of the last reply runs after the bytes left: give the writer a moment (bounded, not a verdict on time)
	wantWrites := len(expIdx)
	for w := 0; w < 400 && len(rec.WriterLog()) < wantWrites; w++ {
		time.Sleep(time.Millisecond)
	}
	rl, wl := rec.ReaderLog(), rec.WriterLog()
	wantReads, wantNS := 0, 0
	for _, rq := range reqs {
		if ref.Supported(rq.ID) {
			wantReads++
		} else {
			wantNS++
		}
	}
	reads, ns := 0, 0
	var readStamps []int64
	for _, e := range rl {
		switch e.Kind {
		case "read":
			reads++
			readStamps = append(readStamps, e.Stamp)
		case "notsupp":
			ns++
		}
	}
	if reads != wantReads {
		bad("callback|read callbacks != one per handled complete message", fmt.Sprintf("conn %d: %d read callbacks for %d handled messages", cid, reads, wantReads))
	}
	if ns != wantNS {
		bad("callback|not-supported callbacks != one per unsupported message", fmt.Sprintf("conn %d: %d for %d", cid, ns, wantNS))
	}
	if len(wl) != wantWrites {
		bad("callback|write callbacks != one per reply", fmt.Sprintf("conn %d: %d write callbacks for %d replies", cid, len(wl), wantWrites))
	} else {
		for i, e := range wl {
			if i < len(gotFrames) && !bytes.Equal(e.Data, gotFrames[i].Raw) {
				bad("callback|write callback bytes differ from the bytes on the wire", fmt.Sprintf("conn %d reply %d: callback %x wire %x", cid, i, e.Data, gotFrames[i].Raw))
				break
			}
		}
	}
	// read callback of a request precedes the arrival of its reply at the client (same logical clock)
	if reads == wantReads {
		ri := 0 // index over supported requests
		ei := 0
		for i, rq := range reqs {
			if !ref.Supported(rq.ID) {
				continue
			}
			if ei < len(expIdx) && expIdx[ei] == i {
				if ei < len(gotFrames) && ri < len(readStamps) && readStamps[ri] > gotFrames[ei].Stamp {
					bad("callback|read callback after the reply was already on the wire", fmt.Sprintf("conn %d request #%d (%04x)", cid, i, rq.ID))
					break
				}
				ei++
			}
			ri++
		}
	}
	if len(res.viol) > 0 {
		res.witness = c06Witness(cid, v2019, t.Phone, reqs, gotFrames)
	}
	return
}

func c06Witness(cid int, v2019 bool, phone string, reqs []c06Req, got []svc.Rx) any {
	w := map[string]any{"conn": cid, "v2019": v2019, "phone": phone}
	var rq []string
	for i, r := range reqs {
		if i >= 40 {
			rq = append(rq, fmt.Sprintf("... %d more", len(reqs)-i))
			break
		}
		rq = append(rq, fmt.Sprintf("%04x serial=%d packets=%d body=%s", r.ID, r.Serial, r.Packets, core.HexCap(r.Body, 24)))
	}
	var rp []string
	for i, g := range got {
		if i >= 40 {
			break
		}
		rp = append(rp, core.HexCap(g.Raw, 48))
	}
	w["requests"] = rq
	w["frames_from_server"] = rp
	return w
}

// c06Suite runs many conversations in parallel against one live server; reused by C18 in RaceMode.
func c06Suite(c *core.Collector, seed uint64, batch int, conns, nreq int, wraps int) {
	srv, err := svc.Start(func() service.TerminalEventer { return svc.NewRecorder() })
	if err != nil {
		c.Inconclusive()
		return
	}
	var wg sync.WaitGroup
	run := func(cid, n, mode int, wrap, frag bool) {
		defer wg.Done()
		r := c06Conversation(srv.Addr, cid, seed, n, mode, wrap, frag)
		c.Evals(int64(r.requests))
		c.Count("replies_checked", int64(r.replies))
		c.Count("connections", 1)
		if wrap {
			c.Count("wrap_connections", 1)
		}
		if r.incon {
			c.Inconclusive()
		}
		for _, v := range r.viol {
			c.Violate(v[0], v[1], r.witness)
		}
		for _, h := range r.hashes {
			c.NonTrivial(h)
		}
		if cid%5 == 2 && !wrap && len(r.viol) == 0 && !r.incon && !svc.RaceMode && r.phone != "" {
			// (the first connection has been closed by now; wait until the server has seen that: its leave callback)
			if rec := svc.Lookup(r.phone, r.first); rec == nil || !rec.WaitLeave(30*time.Second) {
				c.Inconclusive()
				return
			}
			// the terminal comes back: a new connection with the SAME phone number after the first one has gone — it is a new
			// conversation (platform serials from 0 again, nothing remembered from the old connection)
			r2 := c06Conversation(srv.Addr, cid, seed+7777, n/2, (mode+1)%3, false, !frag)
			c.Evals(int64(r2.requests))
			c.Count("replies_checked", int64(r2.replies))
			c.Count("reconnections_under_the_same_phone", 1)
			if r2.incon {
				c.Inconclusive()
			}
			for _, v := range r2.viol {
				c.Violate(v[0], v[1]+" [second connection of this phone]", r2.witness)
			}
			for _, h := range r2.hashes {
				c.NonTrivial(h)
			}
		}
		if cid%4 == 1 && !wrap && len(r.viol) == 0 {
			c.Sample(map[string]any{"conn": cid, "mode": []string{"one-frame-per-write", "pipelined-segments", "mixed"}[mode], "requests": r.requests, "replies_checked": r.replies, "sub_packaged_requests": frag})
		}
	}
	for i := 0; i < conns; i++ {
		wg.Add(1)
		cid := batch*1000 + i + 1
		go run(cid, nreq, i%3, false, i%2 == 0)
	}
	for i := 0; i < wraps; i++ {
		wg.Add(1)
		go run(batch*1000+900+i, 66000, 1, true, false)
	}
	// the re-request path takes part in the numbering (5.3 s of real idle time, concurrent with everything else)
	if !svc.RaceMode {
		wg.Add(1)
		go func() {
			defer wg.Done()
			viol, incon, n := c06Reissue(srv.Addr, batch*1000+850)
			c.Evals(int64(n))
			c.Count("frames_numbered_across_a_re_request", int64(n))
			if incon {
				c.Inconclusive()
			}
			for _, v := range viol {
				c.Violate(v[0], v[1], nil)
			}
		}()
	}
	// two uploads pipelined in one write
	for i := 0; i < 2; i++ {
		wg.Add(1)
		go func(i int) {
			defer wg.Done()
			viol, incon, n := c06Pipelined(srv.Addr, batch*1000+870+i, seed, 10)
			c.Evals(int64(2 * n))
			c.Count("pipelined_upload_pairs_answered_with_their_own_ids", int64(n))
			if incon {
				c.Inconclusive()
			}
			for _, v := range viol {
				c.Violate(v[0], v[1], nil)
			}
		}(i)
	}
	// quiet spells in real time (batch 0): 10.6 s of silence before the first message / in the middle of a conversation
	if batch == 0 && !svc.RaceMode {
		for i := 0; i < 2; i++ {
			wg.Add(1)
			go func(i int) {
				defer wg.Done()
				viol, incon, n := c06QuietSpell(srv.Addr, batch*1000+890+i, 10600*time.Millisecond)
				c.Evals(int64(n))
				c.Count("requests_answered_after_a_quiet_spell", 1)
				if incon {
					c.Inconclusive()
				}
				for _, v := range viol {
					c.Violate(v[0], v[1], nil)
				}
			}(i)
		}
	}
	// an upload whose reassembled length is congruent to its completing packet's length modulo 2^16
	for i := 0; i < 2; i++ {
		wg.Add(1)
		go func(i int) {
			defer wg.Done()
			viol, incon, n := c06ModularUpload(srv.Addr, batch*1000+880+i, seed)
			c.Evals(int64(n))
			c.Count("uploads_of_65536_plus_64_bytes_answered_with_their_own_id", 1)
			if incon {
				c.Inconclusive()
			}
			for _, v := range viol {
				c.Violate(v[0], v[1], nil)
			}
		}(i)
	}
	// a platform command whose body does not fit the length field, between replies and an ordinary command
	for i := 0; i < 2; i++ {
		wg.Add(1)
		go func(i int) {
			defer wg.Done()
			viol, incon, n := c06OversizedCommand(srv, batch*1000+890+i)
			c.Evals(int64(n))
			c.Count("frames_numbered_around_an_oversized_command", int64(n))
			if incon {
				c.Inconclusive()
			}
			for _, v := range viol {
				c.Violate(v[0], v[1], nil)
			}
		}(i)
	}
	// tail bursts: request + non-replying messages in one write; the reply must not wait for later traffic
	for i := 0; i < 2+conns/6; i++ {
		wg.Add(1)
		go func(i int) {
			defer wg.Done()
			viol, incon, n := c06TailBurst(srv.Addr, batch*1000+800+i, seed, 12)
			c.Evals(int64(n))
			c.Count("tail_bursts_answered_without_further_traffic", int64(n))
			if incon {
				c.Inconclusive()
			}
			for _, v := range viol {
				c.Violate(v[0], v[1], nil)
			}
		}(i)
	}
	wg.Wait()
}

func c06Worker(c *core.Collector, x *Ctx) {
	c.Rule = "per connection a PRNG-determined sequence of terminal messages over every default-registered 0x0xxx/0x1xxx ID, response types and unsupported IDs, both header versions, request serials incl. 0 and 65535, phones with leading zeros, " +
		"0x0102 with matching / non-matching / too-short bodies, sub-packaged requests (packet 1 first, rest shuffled); pacing: one frame per write, pipelined random segments, mixed; one connection with 66000 pipelined requests of mixed replying types, request serial = index (every platform serial and every request serial value, wrap included); tail bursts (a request followed in the same write by response-type messages or by fragments 1..n-1 of an upload: its reply must arrive without further traffic). " +
		"evaluation = one request; non-trivial = request that owes a reply and whose reply was checked; distinct by hash of (connection, id, serial, body)"
	conns := c.N(16, 64)
	nreq := c.N(300, 3000)
	wraps := 0
	if x.Batch == 0 {
		wraps = c.N(1, 2)
	}
	c06Suite(c, c.Seed, x.Batch, conns, nreq, wraps)
	c.Floor("replies_checked", 1000)
	c.Floor("tail_bursts_answered_without_further_traffic", 20)
	c.Floor("frames_numbered_across_a_re_request", 4)
	c.Floor("pipelined_upload_pairs_answered_with_their_own_ids", 10)
}
