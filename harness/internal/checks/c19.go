package checks

import (
	"bytes"
	"crypto/sha256"
	"fmt"
	"io/fs"
	"os"
	"path/filepath"
	"strings"
	"sync"
	"sync/atomic"

	"github.com/cuteLittleDevil/go-jt808/shared/consts"

	"verif/harness/internal/att"
	"verif/harness/internal/core"
	"verif/harness/internal/gen"
	"verif/harness/internal/ref"
)

// C19 — stored attachments stay inside the terminal's directory (default file handler).
// File-system snapshot monitor: the child runs in a sandbox <cwd>/root/work with canary files around it; a recursive
// snapshot (path, size, SHA-256) before and after the sessions plus unique payload tokens decide.

func init() {
	register(core.Plan{
		Property: "C19", Level: "exploration",
		Parts: func(tier string) []core.Part {
			n := 2
			if tier == "thorough" {
				n = 16
			}
			return []core.Part{{Name: "names", Bin: "plain", Batches: n, Parallel: 4, TimeoutS: 900}}
		},
		Assumptions: []string{
			"the sandbox directory tree of the child is the observable universe: anything created or modified outside <cwd>/<phone>/ (other than the handler's own append-only file.log in <cwd>) is a violation",
			"file.log may grow but must keep its prefix and must never contain a payload token",
			"absolute paths outside the sandbox cannot be reached by the handler's './<phone>/<name>' construction except through '..' components, which the tree snapshot sees up to the sandbox root; deeper escapes are caught by the canary at the sandbox root's parent",
		},
	}, map[string]Worker{"names": c19Worker})
}

type snapEntry struct {
	Size int64
	Sum  [32]byte
	Dir  bool
}

func snapshot(root string) map[string]snapEntry {
	out := map[string]snapEntry{}
	filepath.WalkDir(root, func(p string, d fs.DirEntry, err error) error {
		if err != nil {
			return nil
		}
		rel, _ := filepath.Rel(root, p)
		if d.IsDir() {
			out[rel] = snapEntry{Dir: true}
			return nil
		}
		b, err := os.ReadFile(p)
		if err != nil {
			return nil
		}
		out[rel] = snapEntry{Size: int64(len(b)), Sum: sha256.Sum256(b)}
		return nil
	})
	return out
}

var c19Names = []string{"..", "../x", "../../x", "../../../x", "a/../../x", "/abs", "//x", "./x", "x/", "../victim.txt", "../../canary.txt", "../file.log", "../passwd",
	"../../../../../../../../tmp/verif_c19_escape", "sub/../../y", "....//x", "..\\x", ".", "", "a/b/c", "../work/../z", "~/x", "\x00", "a\x00../x", "../\x00x",
	"/", "./", "../", "a/..", "./.", "../newdir/", "..\\..\\victim.txt", "..\\..\\planted\\n.bin", "x/../../../y/", "../x/", "..//..//x",
	// drive-letter and UNC forms (recorders running Windows CE announce such paths): whatever converts them must not re-open the tree
	"D:\\..\\..\\escaped.bin", "E:\\..\\..\\victim.txt", "C:\\a\\..\\..\\..\\z.bin", "d:\\..\\x", "D:/../../y.bin", "D:..\\..\\w", "\\\\host\\share\\..\\..\\u", "x/D:\\..\\..\\v.bin", "1:\\..\\..\\t"}

// names built as  <climbing prefix> + <odd last component> + <odd suffix>: sanitisers that clean, trim, decode or cut in some
// order are sensitive to components made of dots, blanks, backslashes, percent escapes and control bytes
func init() {
	prefixes := []string{"../", "../../", "../../../", "/", "a/../../", "./../", "..//", "..\\", ""}
	lasts := []string{".", "..", "...", "....", " ", "  ", ". .", " .", ". ", " ..", ".. ", "\t", "x.", "x ", "x..", ".x", "..x", "~", "%2e%2e", "..%2f..%2fx", "\\", ".\\..", "*", "?", "x\x00", "\x00", "..\x00", "x\n", "\r", "CON", "x:y", "-", "--", ".hidden", "..hidden"}
	suffixes := []string{"", "/", " ", ".", "/.", "/..", "\x00", "//"}
	// the alarm-attachment naming convention  <type>_<channel>_<alarmtype>_<seq>_<alarmno>.<ext>  with one hostile field
	for fi := 0; fi < 5; fi++ {
		for _, h := range []string{"..", ".", "/", "\\", "../..", "a/b", ""} {
			f := []string{"00", "64", "6401", "0", "abc123"}
			f[fi] = h
			base := strings.Join(f, "_")
			c19Names = append(c19Names, base+".jpg", base, base+".", "../"+base+".jpg")
		}
	}
	for _, p := range prefixes {
		for _, l := range lasts {
			for si, sfx := range suffixes {
				if si > 0 && (len(p)+len(l))%3 != si%3 { // thin out the suffixed forms
					continue
				}
				c19Names = append(c19Names, p+l+sfx)
			}
		}
	}
}

func c19Worker(c *core.Collector, x *Ctx) {
	c.Rule = "upload sessions against the DEFAULT file handler in a sandbox cwd: announced names from a list of traversal / absolute / separator forms, names equal to existing files outside the terminal directory, 50-byte and 255-byte names made of '../', NUL-containing, empty and random byte names, several files per session, " +
		"with and without uploaded content (unique payload token per file); oracle = recursive before/after snapshot of the sandbox tree. evaluation = one announced file; distinct by hash of (phone, name)"
	cwd, _ := os.Getwd()
	root := filepath.Join(cwd, "root")
	work := filepath.Join(root, "work")
	os.MkdirAll(work, 0o755)
	canaries := map[string]string{
		filepath.Join(cwd, "canary.txt"):      "outer canary\n",
		filepath.Join(root, "canary.txt"):     "canary\n",
		filepath.Join(root, "victim.txt"):     "victim\n",
		filepath.Join(root, "x"):              "x\n",
		filepath.Join(root, "passwd"):         "root:x:0:0\n",
		filepath.Join(work, "victim.txt"):     "victim in work\n",
		filepath.Join(work, "x"):              "x in work\n",
		filepath.Join(work, "passwd"):         "passwd in work\n",
		filepath.Join(work, "z"):              "z\n",
		filepath.Join(root, "sub", "keep.me"): "keep\n",
		// directories of other terminals (no session of this run uses these phones)
		filepath.Join(work, "99999", "evidence.jpg"):       "evidence of 99999\n",
		filepath.Join(work, "13800138000", "evidence.jpg"): "evidence of 13800138000\n",
		filepath.Join(work, "1", "evidence.jpg"):           "evidence of 1\n",
	}
	for p, s := range canaries {
		os.MkdirAll(filepath.Dir(p), 0o755)
		os.WriteFile(p, []byte(s), 0o644)
	}
	if err := os.Chdir(work); err != nil {
		c.Note("error", err.Error())
		return
	}
	before := snapshot(cwd)
	addr, err := att.StartTCP() // default handler, default (JS) dialect
	if err != nil {
		c.Inconclusive()
		return
	}
	logBefore, _ := os.ReadFile(filepath.Join(work, "file.log"))
	n := c.N(300, 3000)
	type sess = c19Sess
	var all []sess
	var mu sync.Mutex
	core.ParallelFor(n, 16, func(i int) {
		g := gen.G{Rand: core.NewRand(c.Seed, "c19", uint64(x.Batch*100000+i))}
		bcd := make([]byte, 6)
		for k := 2; k < 6; k++ {
			bcd[k] = byte(g.Intn(10))<<4 | byte(g.Intn(10))
		}
		if g.Chance(1, 10) {
			bcd = g.Bytes(6) // hex digits a-f in the phone
		}
		zeroPhone := g.Chance(1, 8)
		if zeroPhone {
			bcd = make([]byte, 6) // a device without a SIM number: the directory is <cwd>/000000000000, whatever else the terminal says about itself
			c.Count("sessions_with_the_all_zero_phone", 1)
		}
		phone := ref.PhoneString(bcd)
		nf := 1 + g.Intn(3)
		sweep := -1
		if x.Batch == 0 && i < (len(c19Names)+5)/6 {
			sweep, nf = i*6, 6 // the first sessions of batch 0 go through the whole name list, six names each
		}
		var files []att.File
		s := sess{phone: phone}
		// a third of the sessions are ordinary uploads (plain unique names, every file sent): they are stored, so whatever goes
		// wrong with WHERE things are stored while many terminals upload at once shows on them
		plain := sweep < 0 && g.Chance(1, 3)
		for k := 0; k < nf; k++ {
			var name []byte
			pick := g.Intn(8)
			if sweep >= 0 {
				pick = 100
			}
			if plain {
				pick = 200
			}
			switch pick {
			case 200:
				name = []byte(fmt.Sprintf("f%d_%d_%d.bin", x.Batch, i, k))
			case 100:
				name = []byte(c19Names[(sweep+k)%len(c19Names)])
				c.Count("names_from_the_list_swept", 1)
			case 6: // names built from the terminal's own phone: sibling directories that merely START with the phone
				name = []byte(core.Pick(g.Rand, []string{"../" + phone + "1/f", "../" + phone + "x", "../" + phone + ".bak/f", "../" + phone + "/../" + phone + "0/g", "../" + phone + "_"}))
			case 7: // another terminal's directory
				name = []byte("../" + core.Pick(g.Rand, []string{"99999", "13800138000", "1"}) + "/" + g.Str(3))
			case 0, 1, 2:
				name = []byte(c19Names[g.Intn(len(c19Names))])
			case 3: // long names made of ../ (50-byte chunk-header form and 255-byte announced form)
				l := core.Pick(g.Rand, []int{48, 50, 51, 120, 255})
				name = bytes.Repeat([]byte("../"), 90)[:l-1]
				name = append(name, 'q')
			case 4:
				name = g.Bytes(1 + g.Intn(40))
			default:
				name = []byte(strings.Repeat("../", 1+g.Intn(4)) + g.Str(1+g.Intn(6)))
			}
			if k > 0 && sweep < 0 && g.Chance(1, 5) {
				// a twin: another path to the SAME last element as an earlier name of this session (collision handling in the saver)
				prev := string(s.names[g.Intn(len(s.names))])
				base := prev
				if j := strings.LastIndexAny(prev, "/\\"); j >= 0 {
					base = prev[j+1:]
				}
				if base != "" && len(base) < 30 {
					name = []byte(core.Pick(g.Rand, []string{"../", "../../", "#/", "a/../../", "./", "/"}) + base)
				}
			}
			token := append([]byte(fmt.Sprintf("TOKEN-%d-%d-%d-", x.Batch, i, k)), g.Bytes(24)...)
			files = append(files, att.File{Name: name, Size: uint32(len(token)), Content: token})
			s.names = append(s.names, name)
			s.tokens = append(s.tokens, token)
			c.Eval()
			c.NonTrivial(core.HashBytes([]byte(phone), name))
		}
		// distinct names only (the server keys its record by name)
		seen := map[string]bool{}
		var uf []att.File
		for _, f := range files {
			if !seen[string(f.Name)] {
				seen[string(f.Name)] = true
				uf = append(uf, f)
			}
		}
		var writes [][]byte
		serial := uint16(1)
		ctrl := func(id uint16, body []byte) {
			writes = append(writes, ref.Build(ref.Params{ID: id, BCD: bcd, Serial: serial, Body: body}))
			serial++
		}
		// the other client-controlled text fields of the announcement may be hostile too
		tid, aid := []byte("T1"), []byte("alarm")
		if g.Chance(1, 3) || (zeroPhone && g.Chance(2, 3)) {
			tid = []byte(core.Pick(g.Rand, []string{"../t", "..", "/t", "a/../..", "../../x", "../../t", "../root", "../w/../x", "..\\..\\x", "../..", "./../x", "sub/../"}))
			aid = []byte(core.Pick(g.Rand, []string{"../../alarm", "../x", "/etc/x", "..", "a/b/../../.."}))
		}
		ctrl(0x1210, att.Body1210(consts.ActiveSafetyJS, tid, aid, uf))
		if g.Chance(2, 3) || plain {
			for _, f := range uf {
				if len(f.Name) == 0 || len(f.Name) > 50 || f.Name[0] == 0 || f.Name[len(f.Name)-1] == 0 {
					continue // cannot be carried by the 50-byte chunk header: announced only
				}
				ctrl(0x1211, att.Body1211(f, 0))
				writes = append(writes, append(att.ChunkHeader(consts.ActiveSafetyJS, f.Name, 0, f.Size), f.Content...))
				ctrl(0x1212, att.Body1211(f, 0))
			}
		}
		var started atomic.Int64
		want := 0
		if plain {
			want = int(serial) - 1 // an ordinary terminal waits for the answer to its last control frame before it hangs up
		}
		res := att.RunTCP(addr, writes, &started, want)
		if res.TimedOut {
			c.Inconclusive()
		}
		c.Count("sessions", 1)
		mu.Lock()
		all = append(all, s)
		mu.Unlock()
		if i%60 == 0 {
			nm := []string{}
			for _, q := range s.names {
				nm = append(nm, fmt.Sprintf("%q", trunc(string(q), 40)))
			}
			c.Sample(map[string]any{"phone": phone, "announced_names": nm})
		}
	})
	// large files with hostile names (batch 0): a handler that treats big files specially (saves them early, streams them to
	// disk) has a second place where a path is built. 32 MiB + 4 KiB and 48 MiB, 64 KiB chunks, uploaded completely.
	if x.Batch == 0 {
		for bi, bn := range []string{"../big_escape.bin", "a/../../big_escape2.bin"} {
			size := []int{32<<20 + 4096, 48 << 20}[bi]
			bcd := []byte{0x01, 0x39, 0x90, 0x00, 0x00, byte(0x10 + bi)}
			phone := ref.PhoneString(bcd)
			token := append([]byte(fmt.Sprintf("TOKEN-BIG-%d-%d-xxxxxx", x.Batch, bi)), make([]byte, size-24)...)
			token = token[:size]
			f := att.File{Name: []byte(bn), Size: uint32(size), Content: token}
			var writes [][]byte
			serial := uint16(1)
			ctrl := func(id uint16, body []byte) {
				writes = append(writes, ref.Build(ref.Params{ID: id, BCD: bcd, Serial: serial, Body: body}))
				serial++
			}
			ctrl(0x1210, att.Body1210(consts.ActiveSafetyJS, []byte("T1"), []byte("alarm"), []att.File{f}))
			ctrl(0x1211, att.Body1211(f, 0))
			for off := 0; off < size; off += 65536 {
				l := min(65536, size-off)
				writes = append(writes, append(att.ChunkHeader(consts.ActiveSafetyJS, f.Name, uint32(off), uint32(l)), token[off:off+l]...))
			}
			ctrl(0x1212, att.Body1211(f, 0))
			var started atomic.Int64
			res := att.RunTCP(addr, writes, &started, 3)
			if res.TimedOut {
				c.Inconclusive()
			}
			c.Eval()
			c.Count("sessions", 1)
			c.Count("files_larger_than_32_MiB_with_hostile_names", 1)
			mu.Lock()
			all = append(all, sess{phone: phone, names: [][]byte{[]byte(bn)}, tokens: [][]byte{token[:40]}})
			mu.Unlock()
		}
	}
	// the save happens when the server notices the close, in the connection's own goroutine: wait until no goroutine of the
	// attachment server's per-connection loop is left (decided by state, not by a time budget; 120 s watchdog => inconclusive),
	// then until two snapshots in a row agree
	quiesced := false
	for i := 0; i < 4800; i++ {
		if !goroutineRunning("attachment.(*connection).run") {
			quiesced = true
			break
		}
		sleepMs(25)
	}
	if !quiesced {
		c.Inconclusive()
	}
	var after map[string]snapEntry
	prev := -1
	for i := 0; i < 200; i++ {
		after = snapshot(cwd)
		if len(after) == prev {
			break
		}
		prev = len(after)
		sleepMs(25)
	}
	// ---- oracle
	phones := map[string]bool{}
	for _, s := range all {
		phones[s.phone] = true
	}
	owners := map[string]string{} // payload token prefix -> phone of the uploading session
	for _, s := range all {
		for _, tk := range s.tokens {
			owners[string(tk[:20])] = s.phone
		}
	}
	created, inOwn := 0, 0
	for p, e := range after {
		rel := p
		old, existed := before[p]
		if existed && (e.Dir || (old.Size == e.Size && old.Sum == e.Sum)) {
			continue
		}
		created++
		parts := strings.Split(rel, string(filepath.Separator))
		// allowed: root/work/<phone>/...   and root/work/file.log (append-only, checked below)
		if len(parts) >= 3 && parts[0] == "root" && parts[1] == "work" && phones[parts[2]] {
			// inside a terminal directory of this run: it must be the directory of the terminal that uploaded it
			if !e.Dir {
				if b, err := os.ReadFile(filepath.Join(cwd, p)); err == nil && len(b) >= 20 {
					if owner, ok := owners[string(b[:20])]; ok {
						inOwn++
						if owner != parts[2] {
							c.Violate("escape|a file was stored in the directory of another terminal", fmt.Sprintf("payload of terminal %s stored as %s", owner, rel), map[string]any{"path": rel, "uploader": owner})
						}
					}
				}
			}
			continue
		}
		if rel == filepath.Join("root", "work", "file.log") {
			continue
		}
		kind := "created"
		if existed {
			kind = "modified"
		}
		c.Violate("escape|a path outside <cwd>/<phone>/ was "+kind, fmt.Sprintf("%s %s (size %d)", kind, rel, e.Size), map[string]any{"path": rel, "kind": kind, "culprit": c19Culprit(filepath.Join(cwd, p), all)})
	}
	for p := range before {
		if _, ok := after[p]; !ok {
			c.Violate("escape|a path outside <cwd>/<phone>/ was removed", p, map[string]any{"path": p})
		}
	}
	logAfter, _ := os.ReadFile(filepath.Join(work, "file.log"))
	if !bytes.HasPrefix(logAfter, logBefore) {
		c.Violate("escape|the handler's file.log was truncated or rewritten", "prefix changed", nil)
	}
	for _, s := range all {
		for _, tk := range s.tokens {
			if bytes.Contains(logAfter, tk[:20]) {
				c.Violate("escape|payload written into file.log", "", nil)
			}
		}
	}
	c.Count("paths_created_or_modified", int64(created))
	c.Count("stored_payloads_attributed_to_their_uploader", int64(inOwn))
	c.Floor("stored_payloads_attributed_to_their_uploader", 40)
	c.Floor("sessions", 100)
	c.Floor("paths_created_or_modified", 10)
}

type c19Sess struct {
	phone  string
	names  [][]byte
	tokens [][]byte
}

func c19Culprit(path string, all []c19Sess) string {
	b, err := os.ReadFile(path)
	if err != nil {
		return "?"
	}
	for _, s := range all {
		for k, tk := range s.tokens {
			if bytes.Equal(b, tk) {
				return fmt.Sprintf("phone %s announced name %q", s.phone, s.names[k])
			}
		}
	}
	return fmt.Sprintf("content %q (no payload token: an empty / announced-only file)", trunc(string(b), 40))
}
