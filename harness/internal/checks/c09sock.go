package checks

import (
	"bytes"
	"fmt"
	"sync"
	"sync/atomic"
	"time"

	"github.com/cuteLittleDevil/go-jt808/service"
	"github.com/cuteLittleDevil/go-jt808/shared/consts"

	"verif/harness/internal/core"
	"verif/harness/internal/ref"
	"verif/harness/internal/svc"
)

// C09 monitor 2 (socket): equal-length frames with unique tokens, one per write, against a live server whose
// writer is slowed by delay injection; the recorder keeps the *Message it was handed and a snapshot taken at
// callback time. Oracles: snapshot == state after later traffic and after the connection closed; every reply
// is computed from its own request; a later platform command is addressed with the terminal's own phone.

var c09Splits atomic.Int64

type c09Req struct {
	id     uint16
	serial uint16
	body   []byte
}

var c09FragFirst, c09EventMsgs, c09QuietAfterFragment atomic.Int64

func c09Conn(srv *svc.Server, cid int, seed uint64, nframes int) (viol [][2]string, incon bool, checked int, wit any) {
	bad := func(sig, detail string) { viol = append(viol, [2]string{sig, detail}) }
	r := core.NewRand(seed, "c09c", uint64(cid))
	v2019 := r.Bool()
	t, err := svc.Dial(srv.Addr, v2019, fmt.Sprintf("%d", 4000000+cid))
	if err != nil {
		return nil, true, 0, nil
	}
	defer t.Close()
	// all frames of this connection have the same length and are escape-free (zero-copy path in the parser)
	l := 36 + r.Intn(30)
	mk := func(i int) c09Req {
		id := core.Pick(r, []uint16{0x0200, 0x0801, 0x0102, 0x0200, 0x0704})
		b := make([]byte, l)
		for j := range b {
			b[j] = byte(0x10 + (i*7+j*3)%0x60)
		}
		// unique token at the front (multimedia ID for 0x0801)
		b[0], b[1], b[2], b[3] = 0x21, byte(0x22+cid%50), byte(0x23+i/90), byte(0x24+i%90)
		switch id {
		case 0x0102:
			if v2019 {
				b[0] = byte(l - 36) // auth code length so that the fixed fields fit exactly
			}
			if i%3 == 0 && !v2019 { // matching auth code: phone digits padded? no — keep non-matching but distinct
			}
		case 0x0704:
			b[0], b[1], b[2], b[3], b[4] = 0, 1, 0, byte((l-5)>>8), byte(l-5)
			for j := 27; j < 33 && j < l; j++ {
				b[j] = 0x11
			}
		case 0x0200, 0x0801:
			for j := l - 6; j < l; j++ {
				_ = j
			}
		}
		return c09Req{id, uint16(0x100 + 3*i), b}
	}
	var reqs []c09Req
	for i := 0; i < nframes; i++ {
		reqs = append(reqs, mk(i))
	}
	first := reqs[0].serial
	// every fourth connection starts with a lone sub-package fragment (a terminal resuming an upload after a reconnect): the
	// connection joins with it, so the join callback holds a message that the read callbacks never see
	fragFirst := cid%4 == 1
	firstWasUpload := false
	if fragFirst {
		first = 0x00f0
		fb := make([]byte, l)
		for j := range fb {
			fb[j] = byte(0x40 + j%0x30)
		}
		if cid%8 == 5 {
			// ... or with packet 1 of an upload whose other packets are tiny and follow at once: the join callback holds packet
			// 1's message while the reassembled body is put together from (a copy of) its bytes
			fb[0], fb[1], fb[2], fb[3] = 0x31, 0x32, 0x33, 0x34
			for len(fb) < 36 {
				fb = append(fb, 0x35)
			}
			if t.Write(t.SubFrame(0x0801, first, 3, 1, fb)) != nil || t.Write(t.SubFrame(0x0801, first+1, 3, 2, []byte{0x61})) != nil || t.Write(t.SubFrame(0x0801, first+2, 3, 3, []byte{0x62})) != nil {
				return nil, true, 0, nil
			}
			rx, ok, to := t.Next(30 * time.Second)
			if to {
				return nil, true, 0, nil
			}
			if !ok || rx.F == nil || rx.F.ID != 0x8800 || !bytes.Equal(rx.F.Body, fb[:4]) {
				bad("reply|reply computed from bytes of another message (echoed serial / ID / multimedia ID / auth result differ)", fmt.Sprintf("conn %d: the upload that opened the connection", cid))
			}
			fragFirst = false // (complete: no re-request will come)
			firstWasUpload = true
		} else if t.Write(t.SubFrame(0x0801, first, 3, 2, fb)) != nil {
			return nil, true, 0, nil
		} else if cid%16 == 1 {
			// ... and on some of these connections nothing follows for 5.5 s of real time: the first message after the pause makes the
			// server compose a re-request from what it remembers of that packet — which the join callback still holds
			time.Sleep(5500 * time.Millisecond)
			c09QuietAfterFragment.Add(1)
		}
		c09FragFirst.Add(1)
	}
	// writer: one frame per write, small gaps; every other 0x0801 goes as 3 sub-packages (default configuration: the
	// parts are filtered, the reassembled message is delivered once, built on the LAST-arrived part), in order 1,2,3 or
	// 1,3,2, one write or three; the writer then waits for that transfer's reply (it may trail later messages of a shared read)
	split := func(i int) bool { return i > 0 && reqs[i].id == 0x0801 && i%2 == 0 }
	acked := make(chan int, len(reqs))
	wr := core.NewRand(seed, "c09w", uint64(cid))
	go func() {
		for i, q := range reqs {
			if split(i) {
				a, b2 := l/3, 2*l/3
				parts := [][]byte{q.body[:a], q.body[a:b2], q.body[b2:]}
				order := []int{1, 2, 3}
				if wr.Bool() {
					order = []int{1, 3, 2}
				}
				var fs [][]byte
				for _, k := range order {
					fs = append(fs, t.SubFrame(q.id, q.serial+uint16(k-1), 3, uint16(k), parts[k-1]))
				}
				if wr.Bool() {
					fs = [][]byte{bytes.Join(fs, nil)}
				}
				for _, f := range fs {
					if t.Write(f) != nil {
						return
					}
				}
				for j := range acked {
					if j == i {
						break
					}
				}
				continue
			}
			if t.Write(t.Frame(q.id, q.serial, q.body)) != nil {
				return
			}
			if i%4 != 0 {
				time.Sleep(time.Duration(wr.Intn(250)) * time.Microsecond)
			}
		}
	}()
	defer close(acked)
	for i, q := range reqs {
		rx, ok, to := t.Next(45 * time.Second)
		for fragFirst && !to && ok && rx.F != nil && rx.F.ID == 0x8003 {
			rx, ok, to = t.Next(45 * time.Second) // the lone fragment's transfer is re-requested once it has been idle for 5 s: legitimate
		}
		if to {
			if serverAnswersFreshConnection(srv.Addr) {
				bad("reply|an owed reply never came although the server answers fresh connections at once", fmt.Sprintf("conn %d after %d replies", cid, i))
				return viol, false, checked, nil
			}
			return viol, true, checked, nil
		}
		if !ok {
			bad("reply|connection closed during a valid conversation", fmt.Sprintf("conn %d after %d replies", cid, i))
			return
		}
		exp := ref.ExpectedReply(q.id, q.serial, q.body, v2019, t.Phone)
		checked++
		if split(i) {
			c09Splits.Add(1)
			acked <- i
		}
		switch {
		case rx.F == nil || exp == nil:
			bad("reply|undecodable or unexpected reply", fmt.Sprintf("conn %d req %d", cid, i))
		case rx.F.ID != exp.ID || (!exp.SkipBody && !bytes.Equal(rx.F.Body, exp.Body)):
			bad("reply|reply computed from bytes of another message (echoed serial / ID / multimedia ID / auth result differ)", fmt.Sprintf("conn %d req %d (%04x serial %d): got %04x %x want %04x %x", cid, i, q.id, q.serial, rx.F.ID, rx.F.Body, exp.ID, exp.Body))
		case !bytes.Equal(rx.F.BCD, t.BCD):
			bad("reply|reply addressed with another phone number", fmt.Sprintf("conn %d req %d: %x", cid, i, rx.F.BCD))
		}
		if len(viol) > 2 {
			return
		}
	}
	// one more heartbeat, split across two reads ([3 bytes][rest]): the receive buffer now holds other bytes at the offsets
	// where the previous frames had their phone number
	{
		hb := t.Frame(0x0002, 0xfff0, nil)
		t.Write(hb[:3])
		time.Sleep(2 * time.Millisecond)
		t.Write(hb[3:])
		rx, ok, to := t.Next(30 * time.Second)
		exp := ref.ExpectedReply(0x0002, 0xfff0, nil, v2019, t.Phone)
		switch {
		case to:
			return viol, true, checked, nil
		case !ok || rx.F == nil || rx.F.ID != exp.ID || !bytes.Equal(rx.F.Body, exp.Body):
			bad("reply|reply computed from bytes of another message (echoed serial / ID / multimedia ID / auth result differ)", fmt.Sprintf("conn %d split heartbeat", cid))
		case !bytes.Equal(rx.F.BCD, t.BCD):
			bad("reply|reply addressed with another phone number", fmt.Sprintf("conn %d split heartbeat: %x", cid, rx.F.BCD))
		}
		checked++
	}
	// a platform command must be addressed with this terminal's phone (the session keeps the first message's header)
	res := make(chan cmdResult, 1)
	go func() {
		res <- sendCmd(srv.G, t.Phone, consts.P8104QueryTerminalParams, nil, 50*time.Millisecond, 50*time.Millisecond+slackFor(50*time.Millisecond))
	}()
	rx, ok, to := t.Next(30 * time.Second)
	switch {
	case to:
		incon = true
	case !ok || rx.F == nil:
		bad("command|platform command not delivered to an online terminal", fmt.Sprintf("conn %d", cid))
	case rx.F.ID != 0x8104 || !bytes.Equal(rx.F.BCD, t.BCD) || rx.F.V2019 != v2019:
		bad("command|platform command addressed with bytes that are not the terminal's phone / version", fmt.Sprintf("conn %d: got id %04x phone %x v2019=%v, terminal %x", cid, rx.F.ID, rx.F.BCD, rx.F.V2019, t.BCD))
	}
	<-res
	t.Close()
	rec := svc.Lookup(t.Phone, first)
	if rec == nil {
		return viol, true, checked, nil
	}
	if !rec.WaitLeave(40 * time.Second) {
		return viol, true, checked, nil
	}
	// stability: every message handed to the read callback still equals its snapshot
	k := 0
	for _, e := range rec.ReaderLog() {
		if (e.Kind == "join" || e.Kind == "notsupp") && e.Msg != nil && e.Msg.JTMessage != nil && e.Msg.JTMessage.Header != nil {
			// the message the join / not-supported callback was handed: same law
			m := e.Msg
			if !bytes.Equal(m.JTMessage.Body, e.Data) || !bytes.Equal(m.ExtensionFields.TerminalData, e.Raw) || m.JTMessage.Header.ID != e.ID || m.JTMessage.Header.SerialNumber != e.Serial ||
				m.JTMessage.Header.TerminalPhoneNo != e.Phone || m.JTMessage.Header.SubPackageSum != e.Sum || m.JTMessage.Header.SubPackageNo != e.No || svc.DumpBytesAndStrings(m.JTMessage.Header) != e.HdrDump {
				bad("stable|a message handed to the "+e.Kind+" callback changed afterwards", fmt.Sprintf("conn %d: at the callback id %04x serial %d package %d/%d body %s; after the connection closed id %04x serial %d package %d/%d body %s",
					cid, e.ID, e.Serial, e.No, e.Sum, core.HexCap(e.Data, 12), m.JTMessage.Header.ID, m.JTMessage.Header.SerialNumber, m.JTMessage.Header.SubPackageNo, m.JTMessage.Header.SubPackageSum, core.HexCap(m.JTMessage.Body, 12)))
			}
			c09EventMsgs.Add(1)
			continue
		}
		if e.Kind != "read" || e.Msg == nil {
			continue
		}
		m := e.Msg
		k++
		switch {
		case !bytes.Equal(m.JTMessage.Body, e.Data):
			bad("stable|body of a message handed to the read callback changed afterwards", fmt.Sprintf("conn %d msg serial %d: was %s now %s", cid, e.Serial, core.HexCap(e.Data, 16), core.HexCap(m.JTMessage.Body, 16)))
		case !bytes.Equal(m.ExtensionFields.TerminalData, e.Raw):
			bad("stable|raw frame bytes of a message handed to the read callback changed afterwards", fmt.Sprintf("conn %d msg serial %d", cid, e.Serial))
		case m.JTMessage.Header.ID != e.ID || m.JTMessage.Header.SerialNumber != e.Serial || m.JTMessage.Header.TerminalPhoneNo != e.Phone:
			bad("stable|ID / serial / phone of a message handed to the read callback changed afterwards", fmt.Sprintf("conn %d msg serial %d", cid, e.Serial))
		case e.HdrDump != "" && svc.DumpBytesAndStrings(m.JTMessage.Header) != e.HdrDump:
			bad("stable|header bytes (phone number field) of a message handed to the read callback changed afterwards", fmt.Sprintf("conn %d msg serial %d: at the callback %s, after the connection closed %s", cid, e.Serial, e.HdrDump, svc.DumpBytesAndStrings(m.JTMessage.Header)))
		}
		if len(viol) > 2 {
			break
		}
	}
	// ... and every message handed to the WRITE callback still carries the bytes it carried then (the frame that was sent)
	for _, e := range rec.WriterLog() {
		if e.Raw == nil {
			continue
		}
		c09WriteMsgs.Add(1)
		if !bytes.Equal(e.Raw, e.Data) {
			bad("stable|frame bytes of a message handed to the write callback changed afterwards", fmt.Sprintf("conn %d platform serial %d: at the callback %s, after the connection closed %s", cid, e.PSeq, core.HexCap(e.Data, 24), core.HexCap(e.Raw, 24)))
			break
		}
	}
	checked += k
	if firstWasUpload {
		k-- // the upload that opened the connection is one more complete message
	}
	if k != len(reqs)+1 { // + the split heartbeat
		bad("callback|read callbacks != one per message", fmt.Sprintf("conn %d: %d callbacks for %d messages", cid, k, len(reqs)+1))
	}
	if len(viol) > 0 {
		wit = map[string]any{"conn": cid, "frames": nframes, "frame_body_len": l, "v2019": v2019}
	}
	return
}

// c09MixedHeaders: ONE connection that carries frames with different fixed headers: several phone numbers behind one link (a
// gateway / forwarding platform), the 2013 and the 2019 header alternating, version bytes other than 1. Every reply must be
// addressed and laid out like the message it answers, whatever was answered before on this connection.
// (seed C09s1: replies encoded from a header remembered from the first answered message.)
func c09MixedHeaders(srv *svc.Server, cid int, seed uint64) (viol [][2]string, incon bool, checked int) {
	bad := func(sig, detail string) { viol = append(viol, [2]string{sig, detail}) }
	r := core.NewRand(seed, "c09mixed", uint64(cid))
	t, err := svc.Dial(srv.Addr, r.Bool(), fmt.Sprintf("%d", 4700000+cid))
	if err != nil {
		return nil, true, 0
	}
	defer t.Close()
	type ident struct {
		v2019 bool
		ver   byte
		bcd   []byte
	}
	ids := []ident{{t.V2019, 1, t.BCD}}
	for k := 0; k < 3; k++ {
		v := r.Bool()
		n := 6
		if v {
			n = 10
		}
		ids = append(ids, ident{v, byte(1 + r.Intn(3)), svc.PhoneBCD(fmt.Sprintf("%d", 4710000+cid*10+k), n)})
	}
	for i := 0; i < 24; i++ {
		id := ids[0]
		if i > 0 {
			id = ids[r.Intn(len(ids))]
		}
		mid := core.Pick(r, []uint16{0x0002, 0x0200, 0x0102, 0x0704, 0x0801})
		var body []byte
		switch mid {
		case 0x0200:
			body = c04Body(r, 2, 28)
		case 0x0102:
			body = []byte("auth")
			if id.v2019 {
				body = append([]byte{4}, append([]byte("auth"), make([]byte, 35)...)...)
			}
		case 0x0704:
			body = append([]byte{0, 1, 0, 0, 28}, c04Body(r, 2, 28)...)
		case 0x0801:
			body = append([]byte{0x21, 0x22, byte(cid), byte(i)}, make([]byte, 32+r.Intn(8))...)
		}
		serial := uint16(0x200 + 5*i)
		f := ref.Build(ref.Params{ID: mid, V2019: id.v2019, VersionByt: id.ver, BCD: id.bcd, Serial: serial, Body: body})
		t.Conn.SetWriteDeadline(time.Now().Add(20 * time.Second))
		if t.Write(f) != nil {
			return viol, true, checked
		}
		rx, ok, to := t.Next(30 * time.Second)
		if to {
			return viol, true, checked
		}
		if !ok {
			bad("reply|connection closed during a valid conversation", fmt.Sprintf("conn %d (several fixed headers on one connection) after %d replies", cid, i))
			return
		}
		exp := ref.ExpectedReply(mid, serial, body, id.v2019, ref.PhoneString(id.bcd))
		checked++
		switch {
		case rx.F == nil || exp == nil:
			bad("reply|undecodable or unexpected reply", fmt.Sprintf("conn %d (several fixed headers) req %d", cid, i))
		case rx.F.ID != exp.ID || (!exp.SkipBody && !bytes.Equal(rx.F.Body, exp.Body)):
			bad("reply|reply computed from bytes of another message (echoed serial / ID / multimedia ID / auth result differ)", fmt.Sprintf("conn %d (several fixed headers) req %d (%04x serial %d): got %04x %x want %04x %x", cid, i, mid, serial, rx.F.ID, rx.F.Body, exp.ID, exp.Body))
		case !bytes.Equal(rx.F.BCD, id.bcd) || rx.F.V2019 != id.v2019: // (the version byte is not compared: the server always writes 1)
			bad("reply|reply addressed with another phone number", fmt.Sprintf("conn %d req %d: the message had phone %x 2019=%v version byte %d, its reply has phone %x 2019=%v version byte %d (several fixed headers on one connection)", cid, i, id.bcd, id.v2019, id.ver, rx.F.BCD, rx.F.V2019, rx.F.VersionByt))
		}
		if len(viol) > 2 {
			return
		}
	}
	return
}

// c09Abrupt: the connection ends while messages are still queued for the writer (the write callback is slowed down for this
// terminal): everything the read callback was handed must be unchanged after the teardown.
func c09Abrupt(srv *svc.Server, cid int, seed uint64) (viol [][2]string, incon bool, checked int) {
	bad := func(sig, detail string) { viol = append(viol, [2]string{sig, detail}) }
	r := core.NewRand(seed, "c09abrupt", uint64(cid))
	t, err := svc.Dial(srv.Addr, r.Bool(), fmt.Sprintf("%d", 4700000+cid))
	if err != nil {
		return nil, true, 0
	}
	defer t.Close()
	svc.SlowWrite.Store(t.Phone, 3*time.Millisecond)
	defer svc.SlowWrite.Delete(t.Phone)
	first := uint16(0x300)
	var burst []byte
	n := 6 + r.Intn(8)
	for i := 0; i < n; i++ {
		b := make([]byte, 28+r.Intn(12))
		for j := range b {
			b[j] = byte(0x10 + r.Intn(0x60))
		}
		id := core.Pick(r, []uint16{0x0200, 0x0002, 0x0200})
		if id == 0x0002 {
			b = nil
		}
		burst = append(burst, t.Frame(id, first+uint16(i), b)...)
	}
	if r.Bool() {
		t.Write(burst)
	} else { // one frame per write (the zero-copy path of the parser)
		for len(burst) > 0 {
			e := bytes.IndexByte(burst[1:], 0x7e) + 2
			t.Write(burst[:e])
			burst = burst[e:]
		}
	}
	time.Sleep(time.Duration(500+r.Intn(4000)) * time.Microsecond)
	if r.Bool() {
		t.Reset()
	} else {
		t.Close()
	}
	rec := svc.Lookup(t.Phone, first)
	if rec == nil {
		return nil, false, 0 // closed before the server read anything
	}
	if !rec.WaitLeave(40 * time.Second) {
		return nil, true, 0
	}
	time.Sleep(20 * time.Millisecond) // the writer's own teardown runs after the leave callback
	for _, e := range rec.ReaderLog() {
		if e.Kind != "read" || e.Msg == nil {
			continue
		}
		m := e.Msg
		checked++
		switch {
		case !bytes.Equal(m.JTMessage.Body, e.Data):
			bad("stable|body of a message handed to the read callback changed afterwards", fmt.Sprintf("abrupt end, conn %d msg serial %d: was %s now %s", cid, e.Serial, core.HexCap(e.Data, 16), core.HexCap(m.JTMessage.Body, 16)))
		case !bytes.Equal(m.ExtensionFields.TerminalData, e.Raw):
			bad("stable|raw frame bytes of a message handed to the read callback changed afterwards", fmt.Sprintf("abrupt end, conn %d msg serial %d", cid, e.Serial))
		case e.HdrDump != "" && svc.DumpBytesAndStrings(m.JTMessage.Header) != e.HdrDump:
			bad("stable|header bytes (phone number field) of a message handed to the read callback changed afterwards", fmt.Sprintf("abrupt end, conn %d msg serial %d", cid, e.Serial))
		}
		if len(viol) > 2 {
			break
		}
	}
	return
}

func c09Suite(c *core.Collector, seed uint64, batch int, conns, nframes int) {
	srv, err := svc.Start(func() service.TerminalEventer {
		r := svc.NewRecorder()
		r.KeepMsg = true
		return r
	})
	if err != nil {
		c.Inconclusive()
		return
	}
	var wg sync.WaitGroup
	for i := 0; i < conns; i++ {
		wg.Add(1)
		go func(i int) {
			defer wg.Done()
			cid := batch*1000 + i
			viol, incon, n, wit := c09Conn(srv, cid, seed, nframes)
			c.Evals(int64(n))
			c.Count("connections", 1)
			c.Count("messages_rechecked_after_close", int64(n))
			c.NonTrivial(core.HashString(fmt.Sprintf("c09/%d/%d/%d", seed, cid, nframes)))
			if incon {
				c.Inconclusive()
			}
			for _, v := range viol {
				c.Violate(v[0], v[1], wit)
			}
			if i == 0 {
				c.Sample(map[string]any{"conn": cid, "equal_length_frames": nframes, "checks": n})
			}
		}(i)
	}
	if batch == 0 {
		// one connection that carries far more data than any per-connection block or ring a server may keep (1 MB of frames):
		// the messages of its first seconds are still what they were when the last ones have arrived
		wg.Add(1)
		go func() {
			defer wg.Done()
			viol, incon, n, wit := c09Conn(srv, 990, seed, 12000)
			c.Evals(int64(n))
			c.Count("messages_rechecked_after_close", int64(n))
			c.Count("messages_on_one_long_connection", int64(n))
			if incon {
				c.Inconclusive()
			}
			for _, v := range viol {
				c.Violate(v[0], v[1], wit)
			}
		}()
	}
	for i := 0; i < conns; i++ {
		wg.Add(1)
		go func(i int) {
			defer wg.Done()
			viol, incon, n := c09MixedHeaders(srv, batch*1000+700+i, seed)
			c.Evals(int64(n))
			c.Count("replies_on_connections_with_several_fixed_headers", int64(n))
			if incon {
				c.Inconclusive()
			}
			for _, v := range viol {
				c.Violate(v[0], v[1], nil)
			}
		}(i)
	}
	for i := 0; i < 4*conns; i++ {
		wg.Add(1)
		go func(i int) {
			defer wg.Done()
			viol, incon, n := c09Abrupt(srv, batch*1000+500+i, seed)
			c.Evals(int64(n))
			c.Count("messages_rechecked_after_an_abrupt_end", int64(n))
			if incon {
				c.Inconclusive()
			}
			for _, v := range viol {
				c.Violate(v[0], v[1], nil)
			}
		}(i)
	}
	wg.Wait()
	c09UnfinishedSuite(c, srv, seed, batch, conns)
}

func c09Socket(c *core.Collector, x *Ctx) {
	c.Rule = "socket: per connection 'nframes' escape-free frames of identical length and different content (unique tokens; 0x0200/0x0704/0x0801/0x0102), one per write with sub-millisecond gaps, every other 0x0801 as a 3-part sub-packaged transfer completed by part 2 or 3, writer slowed by seeded delay injection; " +
		"every reply checked against its own request, a later platform command checked for the terminal's phone, every *Message kept by the read callback compared with its snapshot after the connection closed. " +
		"evaluation = one reply or one re-checked message; distinct = connection histories"
	seed := c.Seed*1000 + uint64(x.Batch) + 300000
	svc.YieldFromEnv(seed)
	c09Suite(c, c.Seed, x.Batch, c.N(8, 24), c.N(300, 2500))
	c.Count("socket_reassembled_transfers_completed_by_a_later_packet", c09Splits.Load())
	c.Count("socket_connections_starting_with_a_lone_fragment", c09FragFirst.Load())
	c.Count("socket_connections_quiet_for_5_5_s_after_their_lone_fragment", c09QuietAfterFragment.Load())
	c.Count("socket_join_and_notsupported_messages_rechecked", c09EventMsgs.Load())
	c.Count("socket_messages_of_unfinished_transfers_rechecked_after_close", c09UnfinishedMsgs.Load())
	c.Count("socket_write_callback_messages_rechecked_after_close", c09WriteMsgs.Load())
	c.Floor("socket_reassembled_transfers_completed_by_a_later_packet", 50)
	c.Floor("socket_messages_of_unfinished_transfers_rechecked_after_close", 20)
	d, tot := svc.SitesHit()
	c.Count("yield_sites_hit", int64(d))
	c.Count("yield_calls", int64(tot))
	c.Floor("messages_rechecked_after_close", 500)
}

var c09UnfinishedMsgs, c09WriteMsgs atomic.Int64

// c09Unfinished: the connection ends while sub-packaged transfers are still incomplete, and their packets had been handed to the
// application: packet 1 as the message the connection joined with, packets of an ID without handler through the not-supported
// callback, and — on a server configured with WithHasSubcontract(false) — every packet through the read callback. Whatever the
// parser does with its records when the connection goes away, the messages the callbacks hold stay what they were.
// (seed C09u1: the parser's clean-up at close zeroes the packet bodies of unfinished transfers, which ARE the delivered bodies.)
func c09Unfinished(srv *svc.Server, cid int, seed uint64) (viol [][2]string, incon bool, checked int) {
	bad := func(sig, detail string) { viol = append(viol, [2]string{sig, detail}) }
	r := core.NewRand(seed, "c09unfinished", uint64(cid))
	t, err := svc.Dial(srv.Addr, r.Bool(), fmt.Sprintf("%d", 4900000+cid))
	if err != nil {
		return nil, true, 0
	}
	defer t.Close()
	first := uint16(0x500)
	body := func(tag byte, n int, esc bool) []byte {
		b := make([]byte, n)
		for j := range b {
			b[j] = byte(0x10 + (int(tag)+j*5)%0x60)
		}
		b[0] = tag
		if esc {
			b[n/2] = 0x7e // a frame that is unescaped into a buffer of its own
		}
		return b
	}
	var ws [][]byte
	serial := first
	add := func(f []byte) { ws = append(ws, f); serial++ }
	// the connection joins with packet 1 of an upload that will never be finished
	add(t.SubFrame(0x0801, serial, 4, 1, body(0xA1, 40+r.Intn(40), r.Bool())))
	if r.Bool() {
		add(t.SubFrame(0x0801, serial, 4, 3, body(0xA3, 40+r.Intn(40), r.Bool())))
	}
	add(t.Frame(0x0002, serial, nil))
	// an ID nobody handles, sub-packaged, unfinished
	add(t.SubFrame(0x0f10, serial, 3, 1, body(0xB1, 30+r.Intn(50), r.Bool())))
	add(t.SubFrame(0x0f10, serial, 3, 2, body(0xB2, 30+r.Intn(50), r.Bool())))
	// a location batch, sub-packaged, unfinished (a handled ID other than the one the connection joined with)
	add(t.SubFrame(0x0704, serial, 3, 1, body(0xC1, 50+r.Intn(30), r.Bool())))
	add(t.SubFrame(0x0704, serial, 3, 3, body(0xC3, 50+r.Intn(30), r.Bool())))
	add(t.Frame(0x0002, serial, nil))
	if r.Bool() {
		var all []byte
		for _, w := range ws {
			all = append(all, w...)
		}
		t.Write(all)
	} else {
		for _, w := range ws {
			t.Write(w)
			time.Sleep(time.Duration(200+r.Intn(1500)) * time.Microsecond)
		}
	}
	// both heartbeats answered: everything before them has been through the callbacks
	last := serial - 1
	for {
		rx, ok, to := t.Next(30 * time.Second)
		if to || !ok {
			return nil, true, 0
		}
		if rx.F != nil && rx.F.ID == 0x8001 && len(rx.F.Body) >= 2 && uint16(rx.F.Body[0])<<8|uint16(rx.F.Body[1]) == last {
			break // the answer to the last heartbeat: everything before it has been through the callbacks
		}
	}
	if r.Bool() {
		t.Reset()
	} else {
		t.Close()
	}
	rec := svc.Lookup(t.Phone, first)
	if rec == nil || !rec.WaitLeave(40*time.Second) {
		return nil, true, 0
	}
	time.Sleep(20 * time.Millisecond) // the reader's deferred clean-up runs around the leave callback
	for _, e := range rec.ReaderLog() {
		if e.Msg == nil || e.Msg.JTMessage == nil || e.Msg.JTMessage.Header == nil || (e.Kind != "join" && e.Kind != "notsupp" && e.Kind != "read") {
			continue
		}
		m := e.Msg
		checked++
		c09UnfinishedMsgs.Add(1)
		h := m.JTMessage.Header
		switch {
		case !bytes.Equal(m.JTMessage.Body, e.Data):
			bad("stable|body of a message handed to the "+e.Kind+" callback changed when the connection ended with its transfer unfinished", fmt.Sprintf("conn %d id %04x serial %d package %d/%d: was %s now %s", cid, e.ID, e.Serial, e.No, e.Sum, core.HexCap(e.Data, 16), core.HexCap(m.JTMessage.Body, 16)))
		case !bytes.Equal(m.ExtensionFields.TerminalData, e.Raw):
			bad("stable|raw frame bytes of a message handed to the "+e.Kind+" callback changed when the connection ended with its transfer unfinished", fmt.Sprintf("conn %d id %04x serial %d package %d/%d", cid, e.ID, e.Serial, e.No, e.Sum))
		case h.ID != e.ID || h.SerialNumber != e.Serial || h.TerminalPhoneNo != e.Phone || (e.HdrDump != "" && svc.DumpBytesAndStrings(h) != e.HdrDump):
			bad("stable|header of a message handed to the "+e.Kind+" callback changed when the connection ended with its transfer unfinished", fmt.Sprintf("conn %d id %04x serial %d", cid, e.ID, e.Serial))
		}
		if len(viol) > 2 {
			break
		}
	}
	return
}

// c09UnfinishedSuite runs c09Unfinished against the suite's server (default: packets filtered from the read callbacks) and
// against a second server that hands every packet to the read callbacks (WithHasSubcontract(false)).
func c09UnfinishedSuite(c *core.Collector, srv *svc.Server, seed uint64, batch, conns int) {
	raw, err := svc.Start(func() service.TerminalEventer {
		r := svc.NewRecorder()
		r.KeepMsg = true
		return r
	}, service.WithHasSubcontract(false))
	if err != nil {
		c.Inconclusive()
		return
	}
	var wg sync.WaitGroup
	for i := 0; i < 2*conns; i++ {
		wg.Add(1)
		go func(i int) {
			defer wg.Done()
			s := srv
			if i%2 == 1 {
				s = raw
			}
			viol, incon, n := c09Unfinished(s, batch*1000+800+i, seed)
			c.Evals(int64(n))
			if incon {
				c.Inconclusive()
			}
			for _, v := range viol {
				c.Violate(v[0], v[1], nil)
			}
		}(i)
	}
	wg.Wait()
}
