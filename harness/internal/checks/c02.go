package checks

import (
	"bytes"
	"fmt"
	"math/big"

	"github.com/cuteLittleDevil/go-jt808/protocol/jt808"

	"verif/harness/internal/core"
	"verif/harness/internal/ref"
	"verif/harness/internal/svc"
)

// C02 — exactly the well-formed frames are accepted; accepted frames decode to the standard's fields.
// Differential monitor: jt808.JTMessage.Decode vs ref.Validate on strings without interior 0x7e.

func init() {
	register(core.Plan{
		Property: "C02", Level: "exploration",
		Parts: func(tier string) []core.Part {
			return []core.Part{{Name: "differential", Bin: "plain", Batches: 1, TimeoutS: 1200}}
		},
		Assumptions: []string{
			"ref.Validate encodes the acceptance set of the property statement, including the tolerated bare 0x7d as last payload byte",
			"only the single-bit encryption flag (bit 10) is compared; bits 11, 12 and 15 are documented as unused by the library",
			"strings with an interior 0x7e are outside the property (the stream splitter never produces them) and are skipped",
		},
	}, map[string]Worker{"differential": c02Worker})
	replayers["c02"] = func(w map[string]any) string {
		s, _ := w["input"].(string)
		bad, _, _ := c02Check(core.UnHex(s))
		return bad
	}
}

func interior7e(b []byte) bool {
	if len(b) < 3 {
		return false
	}
	return bytes.IndexByte(b[1:len(b)-1], 0x7e) >= 0
}

// c02Check returns (violation text, accepted by both, skipped)
func c02Check(b []byte) (bad string, accepted bool, skipped bool) {
	if interior7e(b) {
		return "", false, true
	}
	in := make([]byte, len(b)) // exact capacity copy
	copy(in, b)
	m := jt808.NewJTMessage()
	err := m.Decode(in)
	if !bytes.Equal(in, b) {
		return "mutated|Decode modified its input", false, false
	}
	f, ok := ref.Validate(b)
	if ok != (err == nil) {
		if ok {
			return "accept|well-formed frame rejected: " + err.Error(), false, false
		}
		return "accept|malformed frame accepted", false, false
	}
	if !ok {
		return "", false, false
	}
	return c02Compare(m, f), true, false
}

// c02Reuse: one JTMessage object and one input buffer used for a whole sequence of frames, the way a read loop would.
type c02Reuse struct {
	m   *jt808.JTMessage
	buf []byte
}

// c02Held keeps the most recent successfully decoded messages of a worker together with the reference reading of their frames;
// after every further decode the oldest one is compared again: a decoded message must stay what it was.
type c02Held struct {
	ms []*jt808.JTMessage
	fs []*ref.Frame
}

func (h *c02Held) push(m *jt808.JTMessage, f *ref.Frame) string {
	h.ms, h.fs = append(h.ms, m), append(h.fs, f)
	if len(h.ms) <= 6 {
		return ""
	}
	m0, f0 := h.ms[0], h.fs[0]
	h.ms, h.fs = h.ms[1:], h.fs[1:]
	if bad := c02Compare(m0, f0); bad != "" {
		return bad + " (message decoded correctly at first, changed after later Decode calls)"
	}
	return ""
}

// c02CheckReused decodes b from the start of the reused buffer into the reused object; the outcome must be the one the bytes
// prescribe, whatever was decoded before.
func c02CheckReused(b []byte, st *c02Reuse) string {
	if interior7e(b) || len(b) > len(st.buf) {
		return ""
	}
	n := copy(st.buf, b)
	err := st.m.Decode(st.buf[:n:n])
	f, ok := ref.Validate(b)
	if ok != (err == nil) {
		if ok {
			return "accept|well-formed frame rejected: " + err.Error()
		}
		return "accept|malformed frame accepted"
	}
	if !ok {
		return ""
	}
	return c02Compare(st.m, f)
}

func c02Compare(m *jt808.JTMessage, f *ref.Frame) (bad string) {
	h := m.Header
	b2i := func(b bool) uint8 {
		if b {
			return 1
		}
		return 0
	}
	pv := 2
	if f.V2019 {
		pv = 3
	}
	switch {
	case h.ID != f.ID:
		bad = "field|ID"
	case int(h.Property.BodyDayaLen) != f.BodyLen:
		bad = "field|body length"
	case h.Property.EncryptMethod != b2i(f.Encrypt):
		bad = "field|encrypt bit"
	case h.Property.PacketFragmented != b2i(f.Fragmented):
		bad = "field|fragment bit"
	case h.Property.Version != b2i(f.V2019):
		bad = "field|version bit"
	case int(h.ProtocolVersion) != pv:
		bad = "field|protocol version"
	case h.TerminalPhoneNo != f.Phone:
		bad = "field|phone"
	case h.SerialNumber != f.Serial:
		bad = "field|serial"
	case f.Fragmented && (h.SubPackageSum != f.Sum || h.SubPackageNo != f.No):
		bad = "field|package total/number"
	case !f.Fragmented && (h.SubPackageSum != 0 || h.SubPackageNo != 0):
		bad = "field|package fields non-zero for unfragmented frame"
	case !bytes.Equal(m.Body, f.Body):
		bad = "field|body"
	case m.VerifyCode != f.Check:
		bad = "field|checksum byte"
	}
	return bad
}

func c02Fix(p []byte) []byte {
	q := append([]byte{}, p...)
	var x byte
	for _, c := range q[:len(q)-1] {
		x ^= c
	}
	q[len(q)-1] = x
	return q
}

func c02Worker(c *core.Collector, x *Ctx) {
	c.Rule = "(a) exhaustive strings up to length L over {7e,7d,01,02,00,20,40,ff} (L=6 quick, 7 thorough); (b) skeleton frames (2013/2019 x plain/fragmented x body 0..2): " +
		"every single-byte substitution x256 in payload (raw and re-checksummed) and in the escaped frame, every truncation, every insertion of 1-2 alphabet symbols, every position pair x alphabet^2 re-checksummed; " +
		"(c) random valid frames (hex-nibble phones, bodies 0..1023 dense in specials) with all single-bit flips, length field +-1/+-2 re-checksummed, escape-structure mistakes, bare-7d checksum; (d) random strings. " +
		"non-trivial = accepted by the library or by the model, or within 2 edits of an accepted frame (everything in b, c); distinct by hash of the string"
	alpha := []byte{0x7e, 0x7d, 0x01, 0x02, 0x00, 0x20, 0x40, 0xff}
	acc := c.Counter("accepted_by_both")
	skip := c.Counter("skipped_interior_7e")
	check := func(b []byte, why string, near bool) {
		var bad string
		var ok, sk bool
		if guard(c, func() any { return map[string]any{"kind": "c02", "input": core.Hex(b), "gen": why} }, func() { bad, ok, sk = c02Check(b) }) {
			c.Eval()
			return
		}
		if sk {
			skip.Add(1)
			return
		}
		c.Eval()
		if ok {
			acc.Add(1)
		}
		if ok || near {
			c.NonTrivial(core.HashBytes(b))
		}
		if bad != "" {
			c.Violate("differential|"+bad+"|"+why, "Decode vs reference validator: "+bad+" (generator "+why+")",
				map[string]any{"kind": "c02", "input": core.Hex(b), "gen": why})
		}
	}
	// ---- (a) exhaustive
	L := c.N(6, 7)
	core.ParallelFor(len(alpha)*len(alpha), ncpu(), func(i int) {
		var rec func(cur []byte, n int)
		rec = func(cur []byte, n int) {
			check(cur, "exhaustive", false)
			if n == 0 {
				return
			}
			for _, a := range alpha {
				rec(append(cur, a), n-1)
			}
		}
		rec([]byte{alpha[i/len(alpha)], alpha[i%len(alpha)]}, L-2)
	})
	check(nil, "exhaustive", false)
	for _, a := range alpha {
		check([]byte{a}, "exhaustive", false)
	}
	c.Exh = true
	c.Count("exhaustive_max_len", int64(L))
	if c.WantSample() {
		c.Sample(map[string]any{"gen": "exhaustive", "example": "7e7d027d017e", "note": "all strings of length <= L over the 8-symbol alphabet"})
	}

	// ---- (b) skeletons
	var skels [][]byte
	for _, v := range []bool{false, true} {
		for _, fr := range []bool{false, true} {
			for _, bl := range []int{0, 1, 2} {
				bcd := []byte{0x01, 0x38, 0, 0, 0x11, 0x11}
				if v {
					bcd = []byte{0, 0, 0, 0, 0x01, 0x38, 0, 0, 0x11, 0x11}
				}
				skels = append(skels, ref.Payload(ref.Params{ID: 0x0200, V2019: v, VersionByt: 1, Fragmented: fr, Sum: 3, No: 2, BCD: bcd, Serial: 0x1234, Body: bytes.Repeat([]byte{0x55}, bl)}))
			}
		}
	}
	type sj struct{ sk, mode int }
	var sjobs []sj
	for i := range skels {
		for m := 0; m < 4; m++ {
			sjobs = append(sjobs, sj{i, m})
		}
	}
	core.ParallelFor(len(sjobs), ncpu(), func(ji int) {
		p := skels[sjobs[ji].sk]
		e := ref.Escape(p)
		switch sjobs[ji].mode {
		case 0:
			check(e, "skeleton", true)
			for i := range p {
				for v := 0; v < 256; v++ {
					q := append([]byte{}, p...)
					q[i] = byte(v)
					check(ref.Escape(q), "sub1", true)
					check(ref.Escape(c02Fix(q)), "sub1fix", true)
				}
			}
		case 1:
			for i := range e {
				for v := 0; v < 256; v++ {
					q := append([]byte{}, e...)
					q[i] = byte(v)
					check(q, "rawsub", true)
				}
			}
		case 2:
			for i := 0; i <= len(e); i++ {
				check(e[:i], "trunc", true)
				for _, a := range alpha {
					q := append(append(append([]byte{}, e[:i]...), a), e[i:]...)
					check(q, "ins1", true)
					for _, a2 := range alpha {
						q2 := append(append(append([]byte{}, e[:i]...), a, a2), e[i:]...)
						check(q2, "ins2", true)
					}
				}
			}
		case 3:
			for i := range p {
				for j := i + 1; j < len(p); j++ {
					for _, a := range alpha {
						for _, a2 := range alpha {
							q := append([]byte{}, p...)
							q[i], q[j] = a, a2
							check(ref.Escape(c02Fix(q)), "sub2fix", true)
						}
					}
				}
			}
		}
	})

	// ---- (c) random valid frames and their corruptions
	nrand := c.N(20000, 600000)
	chunk := 500
	core.ParallelFor(nrand/chunk, ncpu(), func(ci int) {
		r := core.NewRand(c.Seed, "c02r", uint64(ci))
		st := &c02Reuse{m: jt808.NewJTMessage(), buf: make([]byte, 4200)}
		held := &c02Held{}
		var prevE []byte
		for k := 0; k < chunk; k++ {
			v := r.Bool()
			n := 6
			if v {
				n = 10
			}
			bcd := make([]byte, n)
			for j := range bcd {
				switch r.Intn(4) {
				case 0:
					bcd[j] = 0
				case 1:
					bcd[j] = r.Byte() // non-decimal nibbles too
				default:
					bcd[j] = byte(r.Intn(10))<<4 | byte(r.Intn(10))
				}
			}
			bl := r.Intn(30)
			if r.Chance(1, 10) {
				bl = r.Intn(1024)
			}
			body := make([]byte, bl)
			for j := range body {
				if r.Chance(1, 3) {
					body[j] = []byte{0x7e, 0x7d, 1, 2}[r.Intn(4)]
				} else {
					body[j] = r.Byte()
				}
			}
			fr := r.Chance(1, 3)
			p := ref.Payload(ref.Params{ID: r.U16(), V2019: v, VersionByt: r.Byte(), Encrypt: r.Chance(1, 4), Fragmented: fr, Sum: r.U16(), No: r.U16(), BCD: bcd, Serial: r.U16(), Body: body})
			if r.Chance(1, 8) { // unused property bits 11,12,15
				p[2] |= []byte{0x08, 0x10, 0x80, 0x98}[r.Intn(4)]
				p = c02Fix(p)
			}
			e := ref.Escape(p)
			check(e, "valid", true)
			// the same frames through ONE JTMessage object and ONE input buffer, each frame preceded by a near copy of itself with
			// another phone (same layout, same length: the previous input's bytes sit exactly where the new ones go)
			{
				p2 := append([]byte{}, p...)
				phoneOff := 4
				if v {
					phoneOff = 5
				}
				p2[phoneOff+r.Intn(n)] ^= []byte{0x01, 0x10, 0x80}[r.Intn(3)]
				prevE = ref.Escape(c02Fix(p2))
			}
			// and with fresh objects and fresh buffers whose results are HELD: six decodes later each must still read the same
			for _, fr2 := range [][]byte{e, prevE} {
				if fh, okh := ref.Validate(fr2); okh && !interior7e(fr2) {
					mh := jt808.NewJTMessage()
					if mh.Decode(append([]byte{}, fr2...)) == nil {
						if badh := held.push(mh, fh); badh != "" {
							c.Violate("differential|"+badh+"|held", "a decoded message re-checked after later decodes vs reference validator: "+badh, map[string]any{"kind": "c02", "input": core.Hex(fr2), "gen": "held"})
						}
						c.Count("decoded_messages_rechecked_after_later_decodes", 1)
					}
				}
			}
			for _, fr2 := range [][]byte{prevE, e} {
				var badr string
				if guard(c, func() any {
					return map[string]any{"kind": "c02", "input": core.Hex(fr2), "gen": "reused-object-and-buffer"}
				}, func() { badr = c02CheckReused(fr2, st) }) {
					continue
				}
				c.Count("frames_decoded_into_a_reused_object_from_a_reused_buffer", 1)
				if badr != "" {
					c.Violate("differential|"+badr+"|reused-object-and-buffer", "Decode into a reused JTMessage from a reused buffer vs reference validator: "+badr,
						map[string]any{"kind": "c02", "input": core.Hex(fr2), "previous_input": core.Hex(prevE), "gen": "reused-object-and-buffer"})
				}
			}
			if k == 0 && c.WantSample() {
				c.Sample(map[string]any{"gen": "valid", "input": core.HexCap(e, 80)})
			}
			if len(e) < 200 {
				for bit := 0; bit < len(e)*8; bit++ {
					q := append([]byte{}, e...)
					q[bit/8] ^= 1 << (bit % 8)
					check(q, "bitflip", true)
				}
			}
			// declared length off by +-1, +-2 with checksum re-fixed
			for _, d := range []int{-2, -1, 1, 2} {
				nl := bl + d
				if nl < 0 || nl > 1023 {
					continue
				}
				q := append([]byte{}, p...)
				q[2] = q[2]&0xfc | byte(nl>>8)
				q[3] = byte(nl)
				check(ref.Escape(c02Fix(q)), "lenfield", true)
			}
			// body one byte longer / shorter with checksum re-fixed but header unchanged
			if bl > 0 {
				q := append(append([]byte{}, p[:len(p)-2]...), 0)
				check(ref.Escape(c02Fix(q)), "bodyshort", true)
			}
			q := append(append([]byte{}, p[:len(p)-1]...), r.Byte(), 0)
			check(ref.Escape(c02Fix(q)), "bodylong", true)
			// body longer than declared by exactly 1024 / 2048 / 1023 / 1025 bytes (the length field has 10 bits: comparisons done
			// modulo 2^10, or on a masked value, accept some of these)
			if k%8 == 0 {
				extras := []int{1023, 1024, 1025, 2048, 3072}
				if k%64 == 0 {
					// ... and by 2^16 / 2^17 (+-1): lengths computed in 16 bits wrap there (frames of 64 KiB and more cannot come
					// out of the stream parser, but Decode is a public function of its own)
					extras = append(extras, 65535, 65536, 65537, 131072, 65536+1024)
				}
				for _, extra := range extras {
					q := append([]byte{}, p[:len(p)-1]...)
					fill := r.Bytes(extra)
					for j := range fill {
						if fill[j] == 0x7e {
							fill[j] = 0x7f // (an interior delimiter would make it two frames)
						}
					}
					q = append(q, fill...)
					q = append(q, 0)
					check(ref.Escape(c02Fix(q)), "bodylong-by-a-multiple-of-1024", true)
				}
			}
			// toggling the fragment bit / version bit with checksum re-fixed (header completeness rules)
			for _, bit := range []byte{0x20, 0x40} {
				q := append([]byte{}, p...)
				q[2] ^= bit
				check(ref.Escape(c02Fix(q)), "flagtoggle", true)
			}
			// escape-structure mistakes
			if len(e) > 6 {
				pos := 1 + r.Intn(len(e)-2)
				for _, ins := range [][]byte{{0x7d, 0x00}, {0x7d, 0x03}, {0x7d}, {0x7d, 0x7d, 0x01}, {0x7d, 0x7d}, {0x7d, 0x01}, {0x7d, 0x02}} {
					q := append(append(append([]byte{}, e[:pos]...), ins...), e[pos:]...)
					check(q, "escapefuzz", true)
				}
				// 7d right before the last delimiter (not a checksum)
				q := append(append([]byte{}, e[:len(e)-1]...), 0x7d, 0x7e)
				check(q, "trailing7d", true)
			}
			// tolerated deviation: checksum 0x7d left unescaped
			if len(body) > 0 {
				pp := append([]byte{}, p...)
				pp[len(pp)-2] ^= pp[len(pp)-1] ^ 0x7d
				pp = c02Fix(pp)
				if pp[len(pp)-1] == 0x7d {
					e2 := ref.Escape(pp[:len(pp)-1])
					e2 = append(e2[:len(e2)-1], 0x7d, 0x7e)
					check(e2, "bare7d-checksum", true)
					c.Count("bare7d_cases", 1)
					if fh, okh := ref.Validate(e2); okh {
						mh := jt808.NewJTMessage()
						if mh.Decode(append([]byte{}, e2...)) == nil {
							if badh := held.push(mh, fh); badh != "" {
								c.Violate("differential|"+badh+"|held", "a decoded message (raw 0x7D check code) re-checked after later decodes vs reference validator: "+badh, map[string]any{"kind": "c02", "input": core.Hex(e2), "gen": "held"})
							}
						}
					}
				}
			}
			// unescaped 0x7D bytes: a payload whose last one, two or three body bytes and whose checksum are all 0x7D, with every
			// subset of those bytes left raw on the wire (only "checksum alone raw" is the tolerated deviation; everything else
			// is malformed or means something else, and the reference decides)
			if len(body) >= 4 {
				for run := 1; run <= 3; run++ {
					pp := append([]byte{}, p...)
					n := len(pp)
					for q := 0; q < run; q++ {
						pp[n-2-q] = 0x7d
					}
					pp = c02Fix(pp)
					pp[n-2-run] ^= pp[n-1] ^ 0x7d // steer the checksum to 0x7D through a body byte in front of the run
					pp = c02Fix(pp)
					if pp[n-1] != 0x7d {
						continue
					}
					for mask := 1; mask < 1<<(run+1); mask++ {
						// bit 0: checksum raw, bit q+1: body byte n-2-q raw
						var e3 []byte
						e3 = append(e3, 0x7e)
						for i, b := range pp {
							raw := false
							if i == n-1 {
								raw = mask&1 != 0
							} else if i >= n-1-run {
								raw = mask>>(n-1-i)&1 != 0
							}
							switch {
							case b == 0x7d && raw:
								e3 = append(e3, 0x7d)
							case b == 0x7d:
								e3 = append(e3, 0x7d, 0x01)
							case b == 0x7e:
								e3 = append(e3, 0x7d, 0x02)
							default:
								e3 = append(e3, b)
							}
						}
						e3 = append(e3, 0x7e)
						check(e3, "raw7d-tail", true)
						c.Count("raw7d_tail_cases", 1)
					}
				}
			}
		}
	})
	// ---- (c1a) pseudo-escapes: a payload byte v is replaced on the wire by the pair 7D x with x chosen so that a "restore =
	// 0x7C + x" formula (correct for x = 1, 2) yields v again: the frame then has a matching check code and length for every x,
	// but only 7D 01 and 7D 02 are escape pairs — every other pair makes the string malformed. All 254 other x, at a header
	// position, in the body and as the check code.
	{
		core.ParallelFor(256*2*3, ncpu(), func(i int) {
			x := byte(i % 256)
			if x == 1 || x == 2 {
				return
			}
			v2019 := i/256%2 == 1
			where := i / 512 // 0 header (message ID high byte), 1 body, 2 check code
			r := core.NewRand(c.Seed, "c02pe", uint64(i))
			v := byte(0x7c + int(x)) // (wraps for x >= 0x84)
			n := 6
			if v2019 {
				n = 10
			}
			bcd := make([]byte, n)
			for k := range bcd {
				bcd[k] = byte(r.Intn(10))<<4 | byte(r.Intn(10))
			}
			body := r.Bytes(3 + r.Intn(20))
			for k := range body {
				if body[k] == 0x7d || body[k] == 0x7e {
					body[k] = 0x11
				}
			}
			q := ref.Params{ID: 0x0200, V2019: v2019, VersionByt: 1, BCD: bcd, Serial: uint16(0x100 + r.Intn(0x7000)&0x7c7c), Body: body}
			pos := 0
			switch where {
			case 0:
				q.ID = uint16(v)<<8 | 0x05
			case 1:
				q.Body[1] = v
			}
			pp := ref.Payload(q)
			switch where {
			case 0:
				pos = 0
			case 1:
				pos = len(pp) - 1 - len(q.Body) + 1
			case 2:
				// steer the check code to v through the last body byte
				pp[len(pp)-2] ^= pp[len(pp)-1] ^ v
				pp = c02Fix(pp)
				pos = len(pp) - 1
			}
			if pp[pos] != v {
				return
			}
			wire := []byte{0x7e}
			for k, b := range pp {
				switch {
				case k == pos:
					wire = append(wire, 0x7d, x)
				case b == 0x7d:
					wire = append(wire, 0x7d, 0x01)
				case b == 0x7e:
					wire = append(wire, 0x7d, 0x02)
				default:
					wire = append(wire, b)
				}
			}
			wire = append(wire, 0x7e)
			check(wire, "pseudo-escape", true)
			c.Count("pseudo_escape_cases", 1)
		})
	}
	// ---- (c1b) special-count sweep (as in C01, here for the decoder): valid frames whose payload holds exactly k bytes that travel
	// escaped, k = 0..140 and around 256/512/1023, checksum steered to 7e / 7d / other: the unescaper's output sizing depends on k
	{
		var ks []int
		for k := 0; k <= 140; k++ {
			ks = append(ks, k)
		}
		ks = append(ks, 250, 251, 252, 253, 254, 255, 256, 257, 258, 505, 506, 507, 508, 509, 510, 511, 512, 513, 514, 1015, 1016, 1017, 1018, 1019, 1020, 1021, 1022, 1023)
		core.ParallelFor(len(ks)*3*4, ncpu(), func(i int) {
			r := core.NewRand(c.Seed, "c02k", uint64(i))
			k := ks[i%len(ks)]
			target := []byte{0, 0x7e, 0x7d}[i/len(ks)%3]
			v2019 := i/len(ks)/3%2 == 1
			frag := i/len(ks)/6%2 == 1
			n := 6
			if v2019 {
				n = 10
			}
			bcd := make([]byte, n)
			for j := range bcd {
				bcd[j] = byte(r.Intn(10))<<4 | byte(r.Intn(10))
			}
			l := min(1023, k+2+r.Intn(20))
			body := make([]byte, l)
			for j := range body {
				body[j] = byte(0x10 + r.Intn(0x60))
			}
			for _, p := range r.Perm(l)[:k] {
				body[p] = []byte{0x7e, 0x7d}[r.Intn(2)]
			}
			q := ref.Params{ID: 0x0200, V2019: v2019, VersionByt: 1, Fragmented: frag, Sum: 3, No: 2, BCD: bcd, Serial: uint16(0x1000 + r.Intn(0x6000)), Body: body}
			if target != 0 && l-k >= 2 {
				var fill []int
				for j := range body {
					if body[j] != 0x7e && body[j] != 0x7d {
						fill = append(fill, j)
					}
				}
				a, b := fill[0], fill[len(fill)-1]
				for try := 0; try < 64; try++ {
					p := ref.Payload(q)
					body[b] ^= p[len(p)-1] ^ target
					if body[b] != 0x7e && body[b] != 0x7d {
						break
					}
					body[a] = byte(0x10 + r.Intn(0x60))
				}
			}
			check(ref.Build(q), "special-count", true)
			c.Count("special_count_sweep_frames", 1)
		})
	}
	// ---- (c1c) header fields that travel escaped x EVERY body length (both layouts, fragmented or not)
	{
		ids := []uint16{0x807e, 0x807d, 0x7e02, 0x7d03, 0x7e7e, 0x7d7d, 0x0200}
		sers := []uint16{0x1234, 0x7e00, 0x007d}
		core.ParallelFor(len(ids)*len(sers)*4, ncpu(), func(i int) {
			id := ids[i%len(ids)]
			ser := sers[i/len(ids)%len(sers)]
			v2019 := i/len(ids)/len(sers)%2 == 1
			frag := i/len(ids)/len(sers)/2%2 == 1
			if id == 0x0200 && ser == 0x1234 {
				return
			}
			r := core.NewRand(c.Seed, "c02hdr", uint64(i))
			n := 6
			if v2019 {
				n = 10
			}
			bcd := make([]byte, n)
			for q := range bcd {
				bcd[q] = byte(r.Intn(10))<<4 | byte(r.Intn(10))
			}
			for l := 0; l <= 1023; l++ {
				body := make([]byte, l)
				for q := range body {
					body[q] = byte(0x10 + r.Intn(0x60))
				}
				if l%4 == 3 {
					for _, pos := range r.Perm(l)[:min(12, l)] {
						body[pos] = []byte{0x7e, 0x7d}[r.Intn(2)]
					}
				}
				check(ref.Build(ref.Params{ID: id, V2019: v2019, VersionByt: 1, Fragmented: frag, Sum: 0x7e7d, No: 0x007e, BCD: bcd, Serial: ser, Body: body}), "escaped-header-fields", true)
				c.Count("escaped_header_field_frames", 1)
			}
		})
	}
	// ---- (c2) phone rendering: every position of a single non-zero nibble, pairs of nibbles, all-zero, all-f
	{
		var phones [][]byte
		for _, n := range []int{6, 10} {
			phones = append(phones, make([]byte, n), bytes.Repeat([]byte{0xff}, n), bytes.Repeat([]byte{0x99}, n))
			for pos := 0; pos < 2*n; pos++ {
				for _, d := range []byte{1, 5, 9, 0xa, 0xf} {
					b := make([]byte, n)
					if pos%2 == 0 {
						b[pos/2] = d << 4
					} else {
						b[pos/2] = d
					}
					phones = append(phones, b)
					for pos2 := pos + 1; pos2 < 2*n; pos2 += 3 {
						b2 := append([]byte{}, b...)
						if pos2%2 == 0 {
							b2[pos2/2] |= 0x30
						} else {
							b2[pos2/2] |= 0x07
						}
						phones = append(phones, b2)
					}
				}
			}
		}
		// decimal phones around the limits of 32- and 64-bit integers (a renderer that goes through an integer wraps there)
		for _, base := range []string{"2147483647", "2147483648", "4294967295", "4294967296", "9223372036854775807", "9223372036854775808", "18446744073709551615", "18446744073709551616", "99999999999999999999", "10000000000000000000"} {
			for d := -3; d <= 90; d++ {
				if d > 3 && d%17 != 0 && d != 83 && d != 84 {
					continue
				}
				n, _ := new(big.Int).SetString(base, 10)
				n.Add(n, big.NewInt(int64(d)))
				ds := n.String()
				for _, w := range []int{6, 10} {
					if len(ds) > 2*w || n.Sign() < 0 {
						continue
					}
					phones = append(phones, svc.PhoneBCD(ds, w))
				}
			}
		}
		for _, bcd := range phones {
			v := len(bcd) == 10
			for _, fr := range []bool{false, true} {
				check(ref.Build(ref.Params{ID: 0x0002, V2019: v, VersionByt: 1, Fragmented: fr, Sum: 3, No: 2, BCD: bcd, Serial: 7, Body: []byte{1, 2}}), "phone-classes", true)
			}
		}
		c.Count("phone_class_frames", int64(len(phones)*2))
	}
	// ---- (d) random strings
	nstr := c.N(100000, 3000000)
	core.ParallelFor(nstr/1000, ncpu(), func(ci int) {
		r := core.NewRand(c.Seed, "c02s", uint64(ci))
		for k := 0; k < 1000; k++ {
			l := r.Intn(64)
			b := r.Bytes(l)
			if r.Bool() && l >= 2 {
				b[0], b[l-1] = 0x7e, 0x7e
			}
			if r.Chance(1, 4) {
				for j := range b {
					if r.Chance(1, 3) {
						b[j] = alpha[r.Intn(4)]
					}
				}
			}
			check(b, "random", false)
		}
	})
	c.Floor("accepted_by_both", 10000)
	c.Note("generators", fmt.Sprintf("exhaustive<=%d, %d skeletons, %d random valid frames, %d random strings", L, len(skels), nrand, nstr))
}
