package checks

import (
	"bytes"
	"fmt"
	"reflect"
	"sort"
	"strings"

	"github.com/cuteLittleDevil/go-jt808/protocol/jt808"
	"github.com/cuteLittleDevil/go-jt808/protocol/utils"
	"github.com/cuteLittleDevil/go-jt808/shared/consts"

	"verif/harness/internal/core"
	"verif/harness/internal/gen"
	"verif/harness/internal/ref"
)

// C07 — message body round trip for every two-way message type, and the helper laws.

func init() {
	register(core.Plan{
		Property: "C07", Level: "exploration",
		Parts: func(tier string) []core.Part {
			return []core.Part{{Name: "bodies", Bin: "plain", Batches: 1, TimeoutS: 1500}, {Name: "helpers", Bin: "plain", Batches: 1, TimeoutS: 900}, {Name: "field-sweeps", Bin: "plain", Batches: 1, TimeoutS: 1500}, {Name: "zones", Bin: "plain", Batches: 1, TimeoutS: 900}}
		},
		Assumptions: []string{
			"in-domain values per DESIGN Appendix D: fixed-width fields within width without trailing NUL (no leading NUL where the parser trims both sides), decimal BCD timestamps, GBK round-trippable text, length/count fields equal to their lists, same dialect on the parsing receiver",
			"derived fields (AlarmSignDetails, StatusSignDetails) are excluded from the value comparison; nil and empty slices/maps are equal",
			"0x1210/0x1211 file names have length >= 1; 0x0704 items carry the 28-byte base block only (its encoder emits no additional items)",
			"T0x0104, T0x0002, P0x8104, P0x9003 have stub encoders (nil) and are not two-way types",
		},
	}, map[string]Worker{"bodies": c07Bodies, "helpers": c07Helpers, "field-sweeps": c07FieldSweeps, "zones": c07Zones})
}

var canonSkip = map[string]bool{"AlarmSignDetails": true, "StatusSignDetails": true}

// Canon renders all exported fields deterministically; map keys are ordered numerically; nil == empty.
func Canon(v reflect.Value, skip map[string]bool) string {
	var sb strings.Builder
	var walk func(v reflect.Value)
	walk = func(v reflect.Value) {
		switch v.Kind() {
		case reflect.Ptr, reflect.Interface:
			if v.IsNil() {
				sb.WriteString("nil")
				return
			}
			walk(v.Elem())
		case reflect.Struct:
			sb.WriteString("{")
			for i := 0; i < v.NumField(); i++ {
				f := v.Type().Field(i)
				if !f.IsExported() || skip[f.Name] {
					continue
				}
				sb.WriteString(f.Name + ":")
				walk(v.Field(i))
				sb.WriteString(",")
			}
			sb.WriteString("}")
		case reflect.Slice, reflect.Array:
			if v.Type().Elem().Kind() == reflect.Uint8 {
				b := make([]byte, v.Len())
				for i := range b {
					b[i] = byte(v.Index(i).Uint())
				}
				fmt.Fprintf(&sb, "x%x", b)
				return
			}
			sb.WriteString("[")
			for i := 0; i < v.Len(); i++ {
				walk(v.Index(i))
				sb.WriteString(",")
			}
			sb.WriteString("]")
		case reflect.Map:
			keys := v.MapKeys()
			sort.Slice(keys, func(i, j int) bool {
				a, b := keys[i], keys[j]
				switch a.Kind() {
				case reflect.String:
					return a.String() < b.String()
				case reflect.Int, reflect.Int8, reflect.Int16, reflect.Int32, reflect.Int64:
					return a.Int() < b.Int()
				}
				return a.Uint() < b.Uint()
			})
			sb.WriteString("map[")
			for _, k := range keys {
				fmt.Fprintf(&sb, "%v:", k.Interface())
				walk(v.MapIndex(k))
				sb.WriteString(",")
			}
			sb.WriteString("]")
		case reflect.Func:
			if v.IsNil() {
				sb.WriteString("nilfunc")
			} else {
				sb.WriteString("func")
			}
		case reflect.String:
			fmt.Fprintf(&sb, "%q", v.String())
		default:
			fmt.Fprintf(&sb, "%v", v)
		}
	}
	walk(v)
	return sb.String()
}

func diffAt(a, b string) string {
	i := 0
	for i < len(a) && i < len(b) && a[i] == b[i] {
		i++
	}
	lo := i - 80
	if lo < 0 {
		lo = 0
	}
	ha, hb := i+80, i+80
	if ha > len(a) {
		ha = len(a)
	}
	if hb > len(b) {
		hb = len(b)
	}
	return fmt.Sprintf("…%s  VS  …%s", a[lo:ha], b[lo:hb])
}

// DiffPath walks two values in parallel and returns the field path (no indices / keys) of the first
// difference under the same equality as Canon (nil == empty, skipped fields ignored); "" if equal.
func DiffPath(a, b reflect.Value, skip map[string]bool) string {
	var walk func(a, b reflect.Value, path string) string
	walk = func(a, b reflect.Value, path string) string {
		if a.Kind() != b.Kind() {
			return path
		}
		switch a.Kind() {
		case reflect.Ptr, reflect.Interface:
			if a.IsNil() || b.IsNil() {
				if a.IsNil() != b.IsNil() {
					return path
				}
				return ""
			}
			return walk(a.Elem(), b.Elem(), path)
		case reflect.Struct:
			if a.Type() != b.Type() {
				return path
			}
			for i := 0; i < a.NumField(); i++ {
				f := a.Type().Field(i)
				if !f.IsExported() || skip[f.Name] {
					continue
				}
				p := f.Name
				if path != "" {
					p = path + "." + f.Name
				}
				if f.Anonymous {
					p = path // embedded: keep the path short
					if p == "" {
						p = f.Name
					}
				}
				if d := walk(a.Field(i), b.Field(i), p); d != "" {
					return d
				}
			}
			return ""
		case reflect.Slice, reflect.Array:
			if a.Len() != b.Len() {
				return path + "(len)"
			}
			for i := 0; i < a.Len(); i++ {
				if d := walk(a.Index(i), b.Index(i), path); d != "" {
					return d
				}
			}
			return ""
		case reflect.Map:
			if a.Len() != b.Len() {
				return path + "(len)"
			}
			for _, k := range a.MapKeys() {
				bv := b.MapIndex(k)
				if !bv.IsValid() {
					return path + "(keys)"
				}
				if d := walk(a.MapIndex(k), bv, path); d != "" {
					return d
				}
			}
			return ""
		case reflect.Func:
			if a.IsNil() != b.IsNil() {
				return path
			}
			return ""
		default:
			if fmt.Sprint(a.Interface()) != fmt.Sprint(b.Interface()) {
				return path
			}
			return ""
		}
	}
	return walk(a, b, "")
}

func c07Msg(body []byte, ver consts.ProtocolVersionType) *jt808.JTMessage {
	m := jt808.NewJTMessage()
	m.Header.ProtocolVersion = ver
	m.Body = body[:len(body):len(body)]
	return m
}

func c07One(c *core.Collector, tc gen.TCase) (held bool) {
	c.Eval()
	var enc []byte
	w := func() any {
		return map[string]any{"type": tc.Name, "header_version": int(tc.Ver), "value": trunc(Canon(reflect.ValueOf(tc.Val), canonSkip), 1500), "encoded": core.HexCap(enc, 300)}
	}
	sigType := tc.Type
	if tc.Side {
		sigType = tc.Name
	}
	guard(c, w, func() {
		before := Canon(reflect.ValueOf(tc.Val), canonSkip)
		enc = tc.Val.Encode()
		c.NonTrivial(core.HashBytes([]byte(tc.Name), enc))
		p := tc.Mk()
		if err := p.Parse(c07Msg(enc, tc.Ver)); err != nil {
			c.Violate("roundtrip|"+sigType+"|parse of own encoding fails: "+core.NormPanic(err.Error()), tc.Name+": Parse(Encode(v)) returned "+err.Error(), w())
			return
		}
		after := Canon(reflect.ValueOf(p), canonSkip)
		if before != after {
			fld := DiffPath(reflect.ValueOf(tc.Val), reflect.ValueOf(p), canonSkip)
			c.Violate("roundtrip|"+sigType+"|value differs at "+fld, tc.Name+": Parse(Encode(v)) != v: "+diffAt(before, after), w())
			return
		}
		re := p.Encode()
		if !bytes.Equal(re, enc) {
			c.Violate("roundtrip|"+sigType+"|re-encoding differs", tc.Name+": Encode(Parse(Encode(v))) != Encode(v): "+core.HexCap(enc, 60)+" vs "+core.HexCap(re, 60), w())
			return
		}
		held = true
		if c.WantSample() && tc.ID%7 == 3 {
			c.Sample(map[string]any{"type": tc.Name, "encoded": core.HexCap(enc, 48)})
		}
	})
	return held
}

// c07Reused: Parse(Encode(v)) into a receiver that first parsed priorEnc (the encoding of another in-domain value of the same
// type and variant) must still yield v, and re-encode to the same bytes.
func c07Reused(c *core.Collector, tc gen.TCase, priorEnc []byte) {
	c.Eval()
	var enc []byte
	w := func() any {
		return map[string]any{"type": tc.Name, "header_version": int(tc.Ver), "value": trunc(Canon(reflect.ValueOf(tc.Val), canonSkip), 1500), "encoded": core.HexCap(enc, 300), "receiver_parsed_before": core.HexCap(priorEnc, 300)}
	}
	guard(c, w, func() {
		before := Canon(reflect.ValueOf(tc.Val), canonSkip)
		enc = tc.Val.Encode()
		p := tc.Mk()
		if err := p.Parse(c07Msg(priorEnc, tc.Ver)); err != nil {
			return // the prior value's encoding is judged by c07One
		}
		if err := p.Parse(c07Msg(enc, tc.Ver)); err != nil {
			c.Violate("roundtrip|"+tc.Type+"|parse of own encoding fails on a used receiver: "+core.NormPanic(err.Error()), tc.Name+": Parse(Encode(v)) on a receiver that had parsed another value returned "+err.Error(), w())
			return
		}
		after := Canon(reflect.ValueOf(p), canonSkip)
		if before != after {
			fld := DiffPath(reflect.ValueOf(tc.Val), reflect.ValueOf(p), canonSkip)
			c.Violate("roundtrip|"+tc.Type+"|value differs on a used receiver at "+fld, tc.Name+": Parse(Encode(v)) into a receiver that had parsed another value != v: "+diffAt(before, after), w())
			return
		}
		if re := p.Encode(); !bytes.Equal(re, enc) {
			c.Violate("roundtrip|"+tc.Type+"|re-encoding differs on a used receiver", tc.Name+": "+core.HexCap(enc, 60)+" vs "+core.HexCap(re, 60), w())
		}
		c.Count("round_trips_on_used_receivers", 1)
		// and the other way round: an object that was a Parse receiver before, then given v's field values one by one (what
		// application code does when it reuses a message object for sending), encodes like v
		q := tc.Mk()
		if q.Parse(c07Msg(append([]byte{}, priorEnc...), tc.Ver)) != nil {
			return
		}
		qv, vv := reflect.ValueOf(q), reflect.ValueOf(tc.Val)
		if qv.Kind() == reflect.Ptr && vv.Kind() == reflect.Ptr && qv.Elem().Type() == vv.Elem().Type() && qv.Elem().Kind() == reflect.Struct {
			t := qv.Elem().Type()
			for i := 0; i < t.NumField(); i++ {
				if t.Field(i).PkgPath == "" && qv.Elem().Field(i).CanSet() {
					qv.Elem().Field(i).Set(vv.Elem().Field(i))
				}
			}
			if qe := q.Encode(); !bytes.Equal(qe, enc) {
				c.Violate("roundtrip|"+tc.Type+"|an object that was parsed into before and then assigned the value's fields encodes differently", tc.Name+": "+core.HexCap(enc, 60)+" vs "+core.HexCap(qe, 60), w())
			}
		}
	})
}

func c07Bodies(c *core.Collector, x *Ctx) {
	c.Rule = "per two-way type (x 2011/2013/2019 where layouts differ, x 5 dialects for 0x1210/0x9208, terminal parameters populated by reflection over every ParamContent field, list lengths 0,1,2,3,max,random; plus 0x0805 / 0x0704 / 0x1205 values of 65 KB .. 260 KB) " +
		"a seeded in-domain value v: checks Parse(Encode(v)) == v (canonical dump) and Encode(Parse(Encode(v))) == Encode(v). every generated value is non-trivial; distinct by hash of (type, encoding)"
	n := c.N(3000, 150000)
	types := map[string]bool{}
	var tmu = make(chan struct{}, 1)
	tmu <- struct{}{}
	core.ParallelFor(n, ncpu(), func(i int) {
		g := gen.G{Rand: core.NewRand(c.Seed, "c07", uint64(i))}
		cases := gen.Cases(g)
		freshHeld := map[string]bool{}
		for _, tc := range cases {
			freshHeld[tc.Name] = c07One(c, tc)
		}
		// the same law on a receiver that has parsed something else before (a handler object kept per connection): the value
		// parsed from Encode(v) is v whatever the receiver held — another value of the same type, its short forms, itself
		if i%2 == 0 {
			prior := map[string][]byte{}
			for _, tc := range gen.Cases(gen.G{Rand: core.NewRand(c.Seed, "c07prior", uint64(i))}) {
				prior[tc.Name] = tc.Val.Encode()
			}
			for _, tc := range cases {
				if pe, ok := prior[tc.Name]; ok && !tc.Side && freshHeld[tc.Name] { // (a value that fails on a fresh receiver is reported once, there)
					c07Reused(c, tc, pe)
				}
			}
		}
		if i == 0 {
			<-tmu
			for _, tc := range cases {
				types[tc.Name] = true
			}
			tmu <- struct{}{}
		}
	})
	// values whose encoding exceeds 65535 bytes (sub-packaged on the wire): list counts of tens of thousands
	{
		bigs := gen.BigCases(gen.G{Rand: core.NewRand(c.Seed, "c07big", 0)})
		core.ParallelFor(len(bigs), ncpu(), func(i int) { c07One(c, bigs[i]) })
		c.Count("values_larger_than_65535_bytes", int64(len(bigs)))
	}
	// every terminal-parameter field alone and all together
	fields := gen.ParamFieldIDs()
	names := []string{}
	for _, nme := range fields {
		names = append(names, nme)
	}
	sort.Strings(names)
	for rep := 0; rep < c.N(3, 50); rep++ {
		for k, only := range append([]string{"*"}, names...) {
			g := gen.G{Rand: core.NewRand(c.Seed, "c07p", uint64(rep*1000+k))}
			tp, cnt := g.TerminalParams(func(nm string) bool { return only == "*" || nm == only })
			for _, tc := range gen.Cases(g) {
				if tc.Type == "P0x8103" {
					v := reflect.ValueOf(tc.Val).Elem()
					v.FieldByName("ParamTotal").SetUint(uint64(cnt))
					v.FieldByName("TerminalParamDetails").Set(reflect.ValueOf(tp))
					tc.Name = "P0x8103/only-" + only
					c07One(c, tc)
				}
			}
		}
	}
	c.Count("terminal_param_fields", int64(len(names)))
	tl := []string{}
	for t := range types {
		tl = append(tl, t)
	}
	sort.Strings(tl)
	c.Note("variants", tl)
	c.Count("type_variants", int64(len(tl)))
	c.Floor("type_variants", 40)
	c.Floor("terminal_param_fields", 80)
}

func c07Helpers(c *core.Collector, x *Ctx) {
	c.Rule = "helper laws: Bcd2Dec vs reference rendering (all single-nibble variations of sampled 6/10-byte strings + random); BCD2Time(Time2BCD(t)) == t over a full grid of two-digit fields; " +
		"GBK2UTF8(UTF82GBK(s)) == s for EVERY GBK-round-trippable BMP code point and random strings of them, UTF82GBK agrees with x/text; String2FillingBytes for all (len,size) <= 40. distinct by hash of the input"
	viol := func(sig, detail string, w any) { c.Violate("helper|"+sig, detail, w) }
	// Bcd2Dec
	nb := c.N(20000, 2000000)
	core.ParallelFor(nb/100, ncpu(), func(ci int) {
		r := core.NewRand(c.Seed, "c07bcd", uint64(ci))
		for k := 0; k < 100; k++ {
			n := core.Pick(r, []int{6, 10, 6, 10, 1, 3})
			b := r.Bytes(n)
			switch r.Intn(4) {
			case 0:
				for i := 0; i < n/2+r.Intn(n/2+1); i++ {
					b[i] = 0
				}
			case 1:
				for i := range b {
					b[i] = byte(r.Intn(10))<<4 | byte(r.Intn(10))
				}
			case 2:
				for i := range b {
					b[i] = 0
				}
			}
			vars := [][]byte{b}
			if k%10 == 0 {
				for pos := 0; pos < 2*n; pos++ {
					for nib := 0; nib < 16; nib++ {
						q := append([]byte{}, b...)
						if pos%2 == 0 {
							q[pos/2] = q[pos/2]&0x0f | byte(nib)<<4
						} else {
							q[pos/2] = q[pos/2]&0xf0 | byte(nib)
						}
						vars = append(vars, q)
					}
				}
			}
			for _, q := range vars {
				c.Eval()
				c.NonTrivial(core.HashBytes([]byte("bcd"), q))
				var got string
				if guard(c, func() any { return map[string]any{"fn": "Bcd2Dec", "input": core.Hex(q)} }, func() { got = utils.Bcd2Dec(q) }) {
					continue
				}
				if want := ref.PhoneString(q); got != want {
					viol("Bcd2Dec|differs from reference rendering", fmt.Sprintf("Bcd2Dec(%x)=%q want %q", q, got, want), map[string]any{"fn": "Bcd2Dec", "input": core.Hex(q)})
				}
			}
		}
	})
	// time
	two := func(v int) string { return fmt.Sprintf("%02d", v) }
	grid := []int{0, 1, 9, 10, 11, 12, 19, 23, 24, 28, 29, 30, 31, 59, 60, 99}
	var times []string
	for _, y := range grid {
		for _, mo := range grid {
			for _, d := range []int{0, 1, 28, 31, 99} {
				for _, h := range []int{0, 9, 23, 99} {
					for _, mi := range []int{0, 59, 99} {
						for _, s := range []int{0, 59, 99} {
							times = append(times, "20"+two(y)+"-"+two(mo)+"-"+two(d)+" "+two(h)+":"+two(mi)+":"+two(s))
						}
					}
				}
			}
		}
	}
	r := core.NewRand(c.Seed, "c07t", 0)
	for i := 0; i < c.N(20000, 500000); i++ {
		times = append(times, gen.G{Rand: r}.TS())
	}
	core.ParallelFor(len(times), ncpu(), func(i int) {
		t := times[i]
		c.Eval()
		c.NonTrivial(core.HashString("t" + t))
		guard(c, func() any { return map[string]any{"fn": "Time2BCD/BCD2Time", "input": t} }, func() {
			b := utils.Time2BCD(t)
			want := []byte{}
			for _, p := range []int{2, 5, 8, 11, 14, 17} {
				want = append(want, (t[p]-'0')<<4|(t[p+1]-'0'))
			}
			if !bytes.Equal(b, want) {
				viol("Time2BCD|bytes differ from BCD digits", fmt.Sprintf("Time2BCD(%q)=%x want %x", t, b, want), map[string]any{"fn": "Time2BCD", "input": t})
				return
			}
			if back := utils.BCD2Time(b); back != t {
				viol("BCD2Time|round trip", fmt.Sprintf("BCD2Time(Time2BCD(%q))=%q", t, back), map[string]any{"fn": "BCD2Time", "input": t})
			}
		})
	})
	// GBK: every round-trippable code point
	runes := gen.GBKRunes()
	core.ParallelFor(len(runes), ncpu(), func(i int) {
		s := string(runes[i])
		c.Eval()
		c.NonTrivial(core.HashString("g" + s))
		guard(c, func() any { return map[string]any{"fn": "UTF82GBK/GBK2UTF8", "input": s} }, func() {
			g := utils.UTF82GBK([]byte(s))
			if !bytes.Equal(g, gen.GBKEncode(s)) {
				viol("UTF82GBK|differs from x/text encoder", fmt.Sprintf("UTF82GBK(%q)=%x", s, g), map[string]any{"fn": "UTF82GBK", "input": s})
				return
			}
			if back := string(utils.GBK2UTF8(g)); back != s {
				viol("GBK2UTF8|round trip", fmt.Sprintf("GBK2UTF8(UTF82GBK(%q))=%q", s, back), map[string]any{"fn": "GBK2UTF8", "input": s})
			}
		})
	})
	c.Count("gbk_code_points", int64(len(runes)))
	ns := c.N(20000, 1000000)
	core.ParallelFor(ns/100, ncpu(), func(ci int) {
		g := gen.G{Rand: core.NewRand(c.Seed, "c07g", uint64(ci))}
		for k := 0; k < 100; k++ {
			s := g.GBK(40)
			c.Eval()
			c.NonTrivial(core.HashString("gs" + s))
			guard(c, func() any { return map[string]any{"fn": "UTF82GBK/GBK2UTF8", "input": s} }, func() {
				if back := string(utils.GBK2UTF8(utils.UTF82GBK([]byte(s)))); back != s {
					viol("GBK2UTF8|round trip", fmt.Sprintf("GBK2UTF8(UTF82GBK(%q))=%q", s, back), map[string]any{"fn": "GBK2UTF8", "input": s})
				}
			})
		}
	})
	// padding
	for l := 0; l <= 40; l++ {
		for size := 0; size <= 40; size++ {
			for v := 0; v < 3; v++ {
				rr := core.NewRand(c.Seed, "c07f", uint64(l*100+size*3+v))
				in := rr.Bytes(l)
				if v == 0 {
					in = []byte(gen.G{Rand: rr}.Str(l))
				}
				c.Eval()
				c.NonTrivial(core.HashBytes([]byte("fill"), in, []byte{byte(size)}))
				guard(c, func() any { return map[string]any{"fn": "String2FillingBytes", "input": core.Hex(in), "size": size} }, func() {
					out := utils.String2FillingBytes(string(in), size)
					want := make([]byte, size)
					copy(want, in)
					if !bytes.Equal(out, want) {
						viol("String2FillingBytes|not the NUL-padded/truncated field", fmt.Sprintf("String2FillingBytes(%x,%d)=%x", in, size, out), map[string]any{"fn": "String2FillingBytes", "input": core.Hex(in), "size": size})
					}
				})
			}
		}
	}
	// runs of one rune at every length up to 130 and around 255 (conversion buffers are sized from the input length: a rune whose
	// UTF-8 form is three times its GBK form, or twice, fills them at different speeds), alone and behind an ASCII prefix
	{
		edge := []rune{'€', '中', '·', 'A', 'é'}
		for _, r := range gen.GBKEdgeRunes() {
			edge = append(edge, r)
		}
		nrep := 0
		for _, r := range edge {
			for k := 1; k <= 260; k++ {
				if k > 130 && k < 250 && k%16 != 0 {
					continue
				}
				for _, prefix := range []string{"", "A"} {
					s := prefix + strings.Repeat(string(r), k)
					nrep++
					c.Eval()
					guard(c, func() any { return map[string]any{"fn": "UTF82GBK/GBK2UTF8", "input": trunc(s, 40), "repeat": k} }, func() {
						g := utils.UTF82GBK([]byte(s))
						if back := string(utils.GBK2UTF8(g)); back != s {
							viol("GBK2UTF8|round trip", fmt.Sprintf("GBK2UTF8(UTF82GBK(%q x %d)) has %d bytes, want %d", string(r), k, len(back), len(s)), map[string]any{"fn": "GBK2UTF8", "rune": string(r), "repeat": k})
						}
					})
				}
			}
		}
		c.Count("repeated_rune_strings", int64(nrep))
	}
	// long texts: a converter that works in blocks (256 / 512 / 1024 / 4096 bytes) splits a multi-byte character that lies
	// across a block boundary. Runs of a 2-byte-GBK / 3-byte-UTF-8 character and of 2/2-byte characters behind ASCII prefixes
	// of every length 0..5, total lengths up to 9 000 bytes: some character straddles every offset class of every block size
	{
		nlong := 0
		for _, r := range []rune{'中', '·', '€', 'é', '京'} {
			for prefix := 0; prefix <= 5; prefix++ {
				for _, k := range []int{100, 170, 171, 172, 200, 255, 256, 257, 341, 342, 500, 512, 513, 700, 1024, 1366, 2048, 3000} {
					s := strings.Repeat("A", prefix) + strings.Repeat(string(r), k)
					nlong++
					c.Eval()
					guard(c, func() any {
						return map[string]any{"fn": "UTF82GBK/GBK2UTF8", "rune": string(r), "repeat": k, "ascii_prefix": prefix}
					}, func() {
						g := utils.UTF82GBK([]byte(s))
						if want := gen.GBKEncode(s); !bytes.Equal(g, want) {
							viol("UTF82GBK|differs from x/text encoder", fmt.Sprintf("UTF82GBK(%d x %q behind %d ASCII bytes) has %d bytes, x/text gives %d", k, string(r), prefix, len(g), len(want)), map[string]any{"fn": "UTF82GBK", "rune": string(r), "repeat": k, "ascii_prefix": prefix})
							return
						}
						if back := string(utils.GBK2UTF8(g)); back != s {
							viol("GBK2UTF8|round trip", fmt.Sprintf("GBK2UTF8(UTF82GBK(%d x %q behind %d ASCII bytes)) has %d bytes, want %d", k, string(r), prefix, len(back), len(s)), map[string]any{"fn": "GBK2UTF8", "rune": string(r), "repeat": k, "ascii_prefix": prefix})
						}
					})
				}
			}
		}
		c.Count("long_texts", int64(nlong))
	}
	c.Sample(map[string]any{"law": "GBK2UTF8(UTF82GBK(s))==s", "code_points": len(runes), "example": "京A·12345"})
	c.Sample(map[string]any{"law": "BCD2Time(Time2BCD(t))==t", "example": times[len(times)/2]})
	c.Exh = true
	c.Floor("gbk_code_points", 20000)
}
