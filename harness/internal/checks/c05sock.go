package checks

import (
	"bytes"
	"fmt"
	"sync"
	"sync/atomic"
	"time"

	"github.com/cuteLittleDevil/go-jt808/service"

	"verif/harness/internal/core"
	"verif/harness/internal/ref"
	"verif/harness/internal/svc"
)

// C05 monitor 2 (socket, default configuration): transfers over loopback; observed at the read callback
// (exactly one event with SubcontractComplete per transfer, with the right body) and on the wire (exactly one
// reply per transfer; for 0x0801 the multimedia ID is the first 4 bytes of the REASSEMBLED body).

var c05Modular atomic.Int64

func c05SockConn(srv *svc.Server, cid int, seed uint64, ntransfers int) (viol [][2]string, incon bool, transfers int, wit any) {
	bad := func(sig, detail string) { viol = append(viol, [2]string{sig, detail}) }
	r := core.NewRand(seed, "c05sock", uint64(cid))
	v2019 := r.Bool()
	t, err := svc.Dial(srv.Addr, v2019, fmt.Sprintf("%d", 5000000+cid))
	if err != nil {
		return nil, true, 0, nil
	}
	defer t.Close()
	t.Write(t.Frame(0x0002, 1, nil))
	if rx, ok, to := t.Next(30 * time.Second); to || !ok || rx.F == nil {
		return nil, true, 0, nil
	}
	type want struct {
		id   uint16
		body []byte
	}
	var wantComplete []want
	var log []string
	for tr := 0; tr < ntransfers; tr++ {
		N := 2 + r.Intn(5)
		if r.Chance(1, 6) {
			N = 1 // a "transfer" of one package: flagged as sub-packaged, total 1 — complete with its only packet
		}
		id := core.Pick(r, []uint16{0x0801, 0x0801, 0x0704, 0x0200})
		bodies := c05Bodies(r, N, r.Intn(8))
		if id == 0x0801 {
			for len(bytes.Join(bodies, nil)) < 36 {
				bodies[N-1] = append(bodies[N-1], byte(0x40+len(bodies[N-1])%40))
			}
		}
		modular := cid%10 == 3 && tr == 0
		if modular {
			// a transfer whose packets other than the completing one hold EXACTLY 65 536 bytes (64 x 1023 + 64): the length of
			// the reassembled body equals the completing packet's own body length modulo 2^16
			N, id = 66, 0x0801
			bodies = nil
			for k := 0; k < 64; k++ {
				bodies = append(bodies, r.Bytes(1023))
			}
			bodies = append(bodies, r.Bytes(64), r.Bytes(64))
			bodies[0][0], bodies[0][1], bodies[0][2], bodies[0][3] = 0x44, byte(cid), byte(cid>>8), 0x44
		}
		full := bytes.Join(bodies, nil)
		order := []int{1}
		for _, q := range r.Perm(N - 1) {
			order = append(order, q+2)
		}
		if modular {
			// the completing packet is one of the two 64-byte ones
			order = order[:0]
			for k := 1; k <= 64; k++ {
				order = append(order, k)
			}
			if r.Bool() {
				order = append(order, 65, 66)
			} else {
				order = append(order, 66, 65)
			}
			c05Modular.Add(1)
		}
		base := uint16(1000 + tr*40)
		var frames [][]byte
		var expect []*ref.Reply // replies expected, in order, for the frames of this transfer
		seen := map[int]bool{}
		for idx, k := range order {
			if !modular && r.Chance(1, 4) { // impossible package number: ignored
				badNo := core.Pick(r, []uint16{0, uint16(N + 1), 65535})
				frames = append(frames, t.SubFrame(id, base+30, uint16(N), badNo, []byte{9, 9, 9}))
			}
			if !modular && r.Chance(1, 4) { // ordinary message in between
				hs := base + 20 + uint16(idx)
				frames = append(frames, t.Frame(0x0002, hs, nil))
				expect = append(expect, ref.ExpectedReply(0x0002, hs, nil, v2019, t.Phone))
			}
			seen[k] = true
			frames = append(frames, t.SubFrame(id, base+uint16(k), uint16(N), uint16(k), bodies[k-1]))
			if len(seen) == N {
				expect = append(expect, &ref.Reply{ID: 0xffff}) // placeholder: the transfer's reply
			} else if k != 1 && r.Chance(1, 4) { // duplicate of a later packet
				frames = append(frames, t.SubFrame(id, base+uint16(k), uint16(N), uint16(k), bodies[k-1]))
			}
		}
		wantComplete = append(wantComplete, want{id, full})
		log = append(log, fmt.Sprintf("transfer %d id=%04x N=%d order=%v", tr, id, N, order))
		// send: one frame per write, or coalesced
		if r.Bool() {
			for _, f := range frames {
				t.Write(f)
				if r.Bool() {
					time.Sleep(time.Duration(r.Intn(200)) * time.Microsecond)
				}
			}
		} else {
			t.Write(bytes.Join(frames, nil))
		}
		// sentinel: after its reply every reply owed for this transfer has been seen
		ss := base + 39
		t.Write(t.Frame(0x0002, ss, nil))
		var got []svc.Rx
		for {
			rx, ok, to := t.Next(45 * time.Second)
			if to {
				if serverAnswersFreshConnection(srv.Addr) {
					bad("reply|an owed reply never came although the server answers fresh connections at once", fmt.Sprintf("conn %d %s: silent for 45 s", cid, log[len(log)-1]))
					return viol, false, transfers, log
				}
				return viol, true, transfers, nil
			}
			if !ok {
				bad("crash-or-close|connection closed during a valid sub-packaged conversation", fmt.Sprintf("conn %d %s", cid, log[len(log)-1]))
				return viol, false, transfers, log
			}
			if rx.F != nil && rx.F.ID == 0x8001 && len(rx.F.Body) == 5 && rx.F.Body[2] == 0 && rx.F.Body[3] == 2 {
				es := uint16(rx.F.Body[0])<<8 | uint16(rx.F.Body[1])
				if es == ss {
					// the reply to a completed transfer may trail the other messages of the read that completed it (and the
					// sentinel may share that read): a second sentinel, sent only now, closes the window for certain
					t.Write(t.Frame(0x0002, ss-1, nil))
					continue
				}
				if es == ss-1 {
					break
				}
			}
			got = append(got, rx)
		}
		transfers++
		// the replies before the sentinel: heartbeats in order plus exactly one reply for the transfer, which comes after
		// the replies to everything sent before its last packet; the transfer's reply may trail later messages of the same read
		hb := 0
		tr1 := 0
		for _, g := range got {
			if g.F == nil {
				bad("reply|undecodable frame", "")
				continue
			}
			isTransferReply := false
			switch id {
			case 0x0801:
				isTransferReply = g.F.ID == 0x8800
			default:
				isTransferReply = g.F.ID == 0x8001 && len(g.F.Body) == 5 && uint16(g.F.Body[2])<<8|uint16(g.F.Body[3]) == id
			}
			if isTransferReply {
				tr1++
				if id == 0x0801 && !bytes.Equal(g.F.Body, full[:4]) {
					bad("reasm|multimedia ID in the reply is not the first 4 bytes of the reassembled body", fmt.Sprintf("conn %d %s: got %x want %x", cid, log[len(log)-1], g.F.Body, full[:4]))
				}
				if id != 0x0801 {
					es := uint16(g.F.Body[0])<<8 | uint16(g.F.Body[1])
					if es < base+1 || es > base+uint16(N) {
						bad("reasm|reply to the transfer echoes a serial that is not one of its packets", fmt.Sprintf("conn %d: %d", cid, es))
					}
				}
				continue
			}
			hb++
		}
		nhb := 0
		for _, e := range expect {
			if e.ID != 0xffff {
				nhb++
			}
		}
		if tr1 != 1 {
			bad("reasm|a complete transfer was answered a number of times other than once", fmt.Sprintf("conn %d %s: %d replies", cid, log[len(log)-1], tr1))
		}
		if hb != nhb {
			bad("reply|interleaved ordinary messages answered a wrong number of times", fmt.Sprintf("conn %d %s: %d replies for %d heartbeats", cid, log[len(log)-1], hb, nhb))
		}
		if len(viol) > 2 {
			break
		}
	}
	t.Close()
	if svc.RaceMode {
		return viol, incon, transfers, log
	}
	rec := svc.Lookup(t.Phone, 1)
	if rec == nil || !rec.WaitLeave(40*time.Second) {
		return viol, true, transfers, nil
	}
	var completes []svc.Event
	partial := 0
	for _, e := range rec.ReaderLog() {
		if e.Kind == "read" && e.Complete {
			completes = append(completes, e)
		}
		if e.Kind == "read" && !e.Complete && e.ID != 0x0002 {
			partial++
		}
	}
	if partial > 0 {
		bad("reasm|an incomplete sub-package reached the read callbacks in the default configuration", fmt.Sprintf("conn %d: %d", cid, partial))
	}
	if len(completes) != transfers {
		bad("reasm|complete-message callbacks != one per transfer", fmt.Sprintf("conn %d: %d callbacks for %d transfers", cid, len(completes), transfers))
	} else {
		for i, e := range completes {
			if e.ID != wantComplete[i].id || !bytes.Equal(e.Data, wantComplete[i].body) {
				bad("reasm|complete message body delivered to the callback is not the concatenation in package order", fmt.Sprintf("conn %d %s", cid, log[i]))
				break
			}
		}
	}
	if len(viol) > 0 {
		wit = log
	}
	return
}

func c05Suite(c *core.Collector, seed uint64, batch, conns, ntransfers int) {
	srv, err := svc.Start(func() service.TerminalEventer { return svc.NewRecorder() })
	if err != nil {
		c.Inconclusive()
		return
	}
	var wg sync.WaitGroup
	for i := 0; i < conns; i++ {
		wg.Add(1)
		go func(i int) {
			defer wg.Done()
			cid := batch*1000 + i
			viol, incon, n, wit := c05SockConn(srv, cid, seed, ntransfers)
			c.Evals(int64(n))
			c.Count("socket_transfers", int64(n))
			c.NonTrivial(core.HashString(fmt.Sprintf("c05s/%d/%d", seed, cid)))
			if incon {
				c.Inconclusive()
			}
			for _, v := range viol {
				c.Violate(v[0], v[1], wit)
			}
			if i == 0 && len(viol) == 0 {
				c.Sample(map[string]any{"conn": cid, "transfers": n})
			}
		}(i)
	}
	wg.Wait()
}

func c05Socket(c *core.Collector, x *Ctx) {
	c.Rule = "socket: per connection a sequence of transfers (N=2..6, packet 1 first, rest shuffled, duplicates, impossible numbers 0/N+1/65535, heartbeats interleaved), one packet per write or all coalesced; " +
		"observed at the read callback and on the wire. evaluation = one transfer; distinct = connection histories"
	c05Suite(c, c.Seed, x.Batch, c.N(8, 32), c.N(60, 600))
	c.Floor("socket_transfers", 100)
}
