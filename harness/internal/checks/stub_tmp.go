package checks

import "verif/harness/internal/core"

func c05Socket(c *core.Collector, x *Ctx) {}

func c14RealTime(c *core.Collector, x *Ctx) {}

func c09Socket(c *core.Collector, x *Ctx) {}
