package checks

import "verif/harness/internal/core"

func c14RealTime(c *core.Collector, x *Ctx) {}
