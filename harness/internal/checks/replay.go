package checks

import (
	"encoding/json"
	"fmt"
	"os"

	"verif/harness/internal/core"
)

// replayers re-execute a recorded witness case and return "" (no violation now) or what fired.
var replayers = map[string]func(w map[string]any) string{}

func remarshal(in any, out any) {
	b, _ := json.Marshal(in)
	json.Unmarshal(b, out)
}

func Replay(path string) int {
	b, err := os.ReadFile(path)
	if err != nil {
		fmt.Println("cannot read", path, err)
		return 2
	}
	var rp struct {
		Property  string         `json:"property"`
		Signature string         `json:"signature"`
		Witness   map[string]any `json:"witness"`
	}
	if err := json.Unmarshal(b, &rp); err != nil {
		fmt.Println("bad replay file:", err)
		return 2
	}
	w := rp.Witness
	if cs, ok := w["case"].(map[string]any); ok {
		w = cs
	}
	kind, _ := w["kind"].(string)
	f, ok := replayers[kind]
	if !ok {
		fmt.Printf("replay: witness of %s (%s) is a recorded history / crash dump, not a single re-executable case; re-run the check with the same VERIF_SEED to reproduce\n", rp.Property, rp.Signature)
		return 2
	}
	res := ""
	func() {
		defer func() {
			if r := recover(); r != nil {
				sig, _ := core.PanicSig(r)
				res = sig
			}
		}()
		res = f(w)
	}()
	if res == "" {
		fmt.Printf("replay %s: case no longer violates (recorded signature %s)\n", rp.Property, rp.Signature)
		return 0
	}
	fmt.Printf("replay %s: still violates: %s (recorded signature %s)\n", rp.Property, res, rp.Signature)
	fmt.Printf("VIOLATION property=%s replay=%s\n", rp.Property, path)
	return 1
}
