package checks

import (
	"fmt"
	"reflect"
	"sort"
	"strings"

	"verif/harness/internal/core"
	"verif/harness/internal/gen"
)

// Field sweeps (C07): generated values cover the product of all fields thinly — a slip that shows for ONE value of ONE
// field (an enumeration value taken for a flag, a 16-bit value that collides with a marker, a byte that is an escape
// character in some helper) is found by random values with probability 1/256 .. 1/65536 per case. Here every numeric
// leaf field of every two-way type is driven, one field at a time with the rest of a generated value fixed, through all
// its values (8-bit fields: all 256; 16-bit fields: all 65536 in the thorough tier, a structured 1 500-value set in
// quick; 32/64-bit fields: every byte position through all 256 values over zero and over random other bytes, powers of
// two +-1, decimal round numbers). Fields that are coupled to other fields (lengths and counts of lists and strings,
// protocol version, dialect, parameter ID/length pairs) are left alone: changing them alone leaves the domain.

var c07SweepSkip = func(name string) bool {
	switch name {
	case "Version", "ActiveSafetyType", "ProtocolVersion":
		return true
	}
	for _, suf := range []string{"Len", "Length", "Total", "Num", "Number", "Count", "Sum"} {
		if strings.HasSuffix(name, suf) {
			return true
		}
	}
	return false
}

func c07Set16(r *core.Rand, thorough bool) []uint64 {
	var out []uint64
	if thorough {
		for v := 0; v < 65536; v++ {
			out = append(out, uint64(v))
		}
		return out
	}
	for b := 0; b < 256; b++ {
		out = append(out, uint64(b), uint64(b)<<8, uint64(b)<<8|0xff, uint64(b)<<8|uint64(b), 0x7e00|uint64(b), 0x7d00|uint64(b))
	}
	for _, d := range []uint64{999, 1000, 1001, 9999, 10000, 12345, 32767, 32768, 40000, 50000, 59999, 60000, 65000, 65534} {
		out = append(out, d)
	}
	for i := 0; i < 64; i++ {
		out = append(out, uint64(r.U16()))
	}
	return out
}

func c07SetWide(r *core.Rand, bytes int) []uint64 {
	var out []uint64
	mask := uint64(1)<<(8*uint(bytes)) - 1
	if bytes == 8 {
		mask = ^uint64(0)
	}
	rnd := r.U64() & mask
	for pos := 0; pos < bytes; pos++ {
		sh := uint(8 * pos)
		for b := 0; b < 256; b++ {
			out = append(out, uint64(b)<<sh, (rnd&^(0xff<<sh))|uint64(b)<<sh)
		}
	}
	for k := uint(0); k < uint(8*bytes); k++ {
		p := uint64(1) << k
		out = append(out, p-1, p, p+1&mask)
	}
	d := uint64(1)
	for d < mask/10 {
		d *= 10
		out = append(out, d-1, d, d+1)
	}
	out = append(out, mask, mask-1)
	return out
}

func c07FieldSweeps(c *core.Collector, x *Ctx) {
	c.Rule = "field sweeps: for 2 (quick) / 6 (thorough) generated values of every two-way type variant, every numeric leaf field alone is driven through all its values (8-bit: 256; 16-bit: 1 614 structured values, thorough all 65 536; 32/64-bit: every byte position x 256 over zero and over random other bytes, 2^k-1/2^k/2^k+1, 10^k-1/10^k/10^k+1) " +
		"with the rest of the value fixed; the same round-trip oracle as the bodies part. Coupled fields (lengths, counts, version, dialect, parameter ID/Len) are not swept. evaluation = one round trip; distinct by hash of (type, encoding)"
	bases := c.N(2, 6)
	swept := c.Counter("numeric_fields_swept")
	type fieldRef struct {
		path string
		v    reflect.Value
	}
	sweepCase := func(tc gen.TCase, r *core.Rand, paramsOnly bool) {
		var fields []fieldRef
		var walk func(v reflect.Value, path string, depth int)
		walk = func(v reflect.Value, path string, depth int) {
			if depth > 6 {
				return
			}
			switch v.Kind() {
			case reflect.Ptr:
				if !v.IsNil() {
					walk(v.Elem(), path, depth+1)
				}
			case reflect.Struct:
				t := v.Type()
				for i := 0; i < v.NumField(); i++ {
					f := t.Field(i)
					if f.PkgPath != "" || canonSkip[f.Name] || c07SweepSkip(f.Name) || (f.Name == "TerminalParamDetails" && !paramsOnly) {
						continue
					}
					if lf := v.FieldByName("Len"); f.Name == "Value" && lf.IsValid() && lf.Kind() == reflect.Uint8 && lf.Uint() == 0 {
						continue // a parameter that is not part of this value
					}
					// parameter triples {ID, Len, Value}: only Value is free
					if (f.Name == "ID") && v.FieldByName("Value").IsValid() {
						continue
					}
					walk(v.Field(i), path+"."+f.Name, depth+1)
				}
			case reflect.Slice:
				if v.Type().Elem().Kind() == reflect.Uint8 {
					return
				}
				if v.Len() > 0 {
					walk(v.Index(0), path+"[0]", depth+1)
					if v.Len() > 1 {
						walk(v.Index(v.Len()-1), path+"[last]", depth+1)
					}
				}
			case reflect.Array:
				if v.Len() > 0 && v.Type().Elem().Kind() != reflect.Uint8 {
					walk(v.Index(0), path+"[0]", depth+1)
				}
			case reflect.Uint8, reflect.Uint16, reflect.Uint32, reflect.Uint64:
				if v.CanSet() {
					fields = append(fields, fieldRef{path, v})
				}
			}
		}
		walk(reflect.ValueOf(tc.Val), tc.Type, 0)
		for _, f := range fields {
			old := f.v.Uint()
			var vals []uint64
			switch f.v.Kind() {
			case reflect.Uint8:
				for q := 0; q < 256; q++ {
					vals = append(vals, uint64(q))
				}
			case reflect.Uint16:
				vals = c07Set16(r, c.Thorough())
			case reflect.Uint32:
				vals = c07SetWide(r, 4)
			default:
				vals = c07SetWide(r, 8)
			}
			for _, q := range vals {
				f.v.SetUint(q)
				tcc := tc
				tcc.Name = tc.Name + " (sweep of " + f.path + fmt.Sprintf(" = %#x)", q)
				c07One(c, tcc)
			}
			f.v.SetUint(old)
			swept.Add(1)
		}
	}
	for b := 0; b < bases; b++ {
		g := gen.G{Rand: core.NewRand(c.Seed, "c07sweep", uint64(b))}
		cases := gen.Cases(g)
		core.ParallelFor(len(cases), ncpu(), func(ci int) {
			if cases[ci].Side {
				return
			}
			sweepCase(cases[ci], core.NewRand(c.Seed, "c07sweepv", uint64(b*1000+ci)), false)
		})
	}
	// terminal parameters: a 0x8103 holding ONE parameter, its value swept (every parameter field with a numeric value)
	{
		fields := gen.ParamFieldIDs()
		var names []string
		for _, nme := range fields {
			names = append(names, nme)
		}
		sort.Strings(names)
		core.ParallelFor(len(names), ncpu(), func(k int) {
			g := gen.G{Rand: core.NewRand(c.Seed, "c07sweepp", uint64(k))}
			tp, cnt := g.TerminalParams(func(nm string) bool { return nm == names[k] })
			for _, tc := range gen.Cases(g) {
				if tc.Type == "P0x8103" {
					v := reflect.ValueOf(tc.Val).Elem()
					v.FieldByName("ParamTotal").SetUint(uint64(cnt))
					v.FieldByName("TerminalParamDetails").Set(reflect.ValueOf(tp))
					tc.Name = "P0x8103/only-" + names[k]
					sweepCase(tc, g.Rand, true)
				}
			}
		})
	}
	c.Floor("numeric_fields_swept", 300)
}
