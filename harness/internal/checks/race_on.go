//go:build race

package checks

const raceEnabled = true
