package checks

import (
	"bytes"
	"errors"
	"fmt"
	"net"
	"runtime/pprof"
	"strings"
	"sync"
	"sync/atomic"
	"time"

	"github.com/cuteLittleDevil/go-jt808/service"
	"github.com/cuteLittleDevil/go-jt808/shared/consts"

	"verif/harness/internal/core"
	"verif/harness/internal/svc"
)

// C13 — disconnects never crash the server or strand callers.
// Fault enumeration: disconnect point x queued/outstanding commands x timeout x close kind, in race+overlay
// children with seeded delay injection; crash capture by the orchestrator; bounded-progress monitor per call.

func init() {
	register(core.Plan{
		Property: "C13", Level: "fault_enumeration",
		Parts: func(tier string) []core.Part {
			n := 6
			if tier == "thorough" {
				n = 48
			}
			return []core.Part{{Name: "disconnects", Bin: "raceov", Batches: n, Parallel: 6, TimeoutS: 600, Env: []string{"VERIF_YIELD=1"}},
				{Name: "long-scenarios", Bin: "plain", Batches: 1, TimeoutS: 300}}
		},
		Assumptions: []string{
			"liveness restated as bounded progress: every SendActiveMessage call must return within timeout + slack, slack = 3 s + 20 x timeout, judged only while a concurrent scheduling-latency probe stays below slack/4 (otherwise the scenario is inconclusive)",
			"interleavings are those produced by seeded delay injection at every channel operation, select arm, close and socket write of package service (overlay generated from the current tree); evidence counts distinct site-order traces",
			"the ten-second scenarios (writer held 6.5 s, commands without a timeout to a silent peer, a peer that stops reading until a server write blocks) run without delay injection in a part of their own",
		},
	}, map[string]Worker{"disconnects": c13Worker, "long-scenarios": c13Long})
}

// ---- latency probe: largest observed overshoot of a 1 ms sleep, in ms
var probeMax atomic.Int64
var probeOnce sync.Once

func startProbe() {
	probeOnce.Do(func() {
		go func() {
			for {
				t0 := time.Now()
				time.Sleep(time.Millisecond)
				over := time.Since(t0).Milliseconds() - 1
				for {
					cur := probeMax.Load()
					if over <= cur || probeMax.CompareAndSwap(cur, over) {
						break
					}
				}
			}
		}()
	})
}

type cmdResult struct {
	returned bool
	msg      *service.Message
	dur      time.Duration
	kind     string // response | timeout | notexist | writefail | othererr | stranded
	pseq     uint16
}

func classify(m *service.Message) string {
	if m == nil {
		return "othererr"
	}
	err := m.ExtensionFields.Err
	switch {
	case err == nil:
		return "response"
	case errors.Is(err, service.ErrWriteDataOverTime):
		return "timeout"
	case errors.Is(err, service.ErrNotExistKey):
		return "notexist"
	case errors.Is(err, service.ErrWriteDataFail):
		return "writefail"
	}
	return "othererr"
}

// sendCmd calls SendActiveMessage in its own goroutine and waits at most limit for it to return.
// resultSink: what a caller of SendActiveMessage typically looks at in the returned message (the command, the platform serial
// and bytes it was sent with, the header); reading them here makes the race detector see writes that other goroutines still
// perform on a message that has already been handed out.
var resultSink atomic.Uint64

func touchResult(m *service.Message) {
	if m == nil {
		return
	}
	v := uint64(m.ExtensionFields.PlatformSeq) + uint64(m.ExtensionFields.PlatformCommand) + uint64(len(m.ExtensionFields.PlatformData)) + uint64(len(m.ExtensionFields.TerminalData))
	if m.JTMessage != nil && m.JTMessage.Header != nil {
		v += uint64(m.JTMessage.Header.ReplyID) + uint64(m.JTMessage.Header.PlatformSerialNumber) + uint64(len(m.JTMessage.Body))
	}
	resultSink.Add(v)
}

func sendCmd(g *service.GoJT808, key string, cmd consts.JT808CommandType, body []byte, timeout, limit time.Duration) cmdResult {
	am := service.NewActiveMessage(key, cmd, body, timeout)
	done := make(chan *service.Message, 1)
	t0 := time.Now()
	go func() { done <- g.SendActiveMessage(am) }()
	select {
	case m := <-done:
		touchResult(m)
		return cmdResult{returned: true, msg: m, dur: time.Since(t0), kind: classify(m), pseq: am.ExtensionFields.PlatformSeq}
	case <-time.After(limit):
		return cmdResult{kind: "stranded", dur: time.Since(t0)}
	}
}

// sendCmdObj is sendCmd for a caller-owned (possibly re-used) ActiveMessage object.
func sendCmdObj(g *service.GoJT808, am *service.ActiveMessage, limit time.Duration) cmdResult {
	done := make(chan *service.Message, 1)
	t0 := time.Now()
	go func() { done <- g.SendActiveMessage(am) }()
	select {
	case m := <-done:
		return cmdResult{returned: true, msg: m, dur: time.Since(t0), kind: classify(m), pseq: am.ExtensionFields.PlatformSeq}
	case <-time.After(limit):
		return cmdResult{kind: "stranded", dur: time.Since(t0)}
	}
}

func slackFor(timeout time.Duration) time.Duration { return 3*time.Second + 20*timeout }

// goroutineDump returns the stacks of goroutines parked inside package service (evidence for a stranded caller).
func goroutineDump() []string {
	var buf bytes.Buffer
	pprof.Lookup("goroutine").WriteTo(&buf, 1)
	var out []string
	for _, blk := range strings.Split(buf.String(), "\n\n") {
		if strings.Contains(blk, "go-jt808/service.") {
			lines := strings.Split(blk, "\n")
			if len(lines) > 14 {
				lines = lines[:14]
			}
			out = append(out, strings.Join(lines, " | "))
		}
		if len(out) >= 8 {
			break
		}
	}
	return out
}

var floodBytes atomic.Int64

// goroutineInIOWaitWrite: some goroutine of package service's connection writer is parked in a socket write.
func goroutineInIOWaitWrite() bool {
	var buf bytes.Buffer
	pprof.Lookup("goroutine").WriteTo(&buf, 2)
	for _, g := range strings.Split(buf.String(), "\n\n") {
		if strings.Contains(g, "IO wait") && strings.Contains(g, "internal/poll.(*FD).Write") && strings.Contains(g, "service.(*connection).write") {
			return true
		}
	}
	return false
}

// goroutineRunning reports whether any goroutine currently has a frame of the given function on its stack.
func goroutineRunning(fn string) bool {
	var buf bytes.Buffer
	pprof.Lookup("goroutine").WriteTo(&buf, 1)
	return strings.Contains(buf.String(), fn)
}

var c13Points = []string{"before-any-byte", "partial-frame", "joined-commands-unread", "after-reading-some-commands", "during-write-callback", "at-timer-expiry", "during-teardown", "after-responding-to-some", "manager-behind"}

type c13Scenario struct {
	Point     string `json:"disconnect_point"`
	K         int    `json:"commands"`
	ReadN     int    `json:"commands_read_by_terminal"`
	TimeoutMs int    `json:"timeout_ms"`
	RST       bool   `json:"rst"`
	Key       string `json:"key"`
	YieldSeed uint64 `json:"yield_seed"`
	HoldMs    int    `json:"writer_held_ms,omitempty"` // writer-held-long: how long the one write callback lasts (default 3600)
}

// c13Run executes one scenario; returns violations (signature, detail), whether it was inconclusive, and whether the
// server looks poisoned (a stranded call usually means a service goroutine is blocked for good).
func c13Run(srv *svc.Server, sc c13Scenario, r *core.Rand) (viol [][2]string, incon bool, poisoned bool, results []string) {
	timeout := time.Duration(sc.TimeoutMs) * time.Millisecond
	slack := slackFor(timeout)
	bad := func(sig, detail string) { viol = append(viol, [2]string{sig, detail}) }
	t, err := svc.Dial(srv.Addr, r.Bool(), sc.Key)
	if err != nil {
		return nil, true, false, nil
	}
	closeIt := func() {
		if sc.RST {
			t.Reset()
		} else {
			t.Close()
		}
	}
	var wg sync.WaitGroup
	var mu sync.Mutex
	launch := func(n int, delay time.Duration) {
		for i := 0; i < n; i++ {
			wg.Add(1)
			go func(i int) {
				defer wg.Done()
				if delay > 0 {
					time.Sleep(delay)
				}
				body := []byte{1, 0, 0, 0, 1, 4, byte(i), 0, 0, 0}
				res := sendCmd(srv.G, t.Phone, consts.P8103SetTerminalParams, body, timeout, timeout+slack)
				mu.Lock()
				results = append(results, res.kind)
				mu.Unlock()
			}(i)
		}
	}
	launchLim := func(n int, to, limit time.Duration) {
		for i := 0; i < n; i++ {
			wg.Add(1)
			go func(i int) {
				defer wg.Done()
				body := []byte{1, 0, 0, 0, 1, 4, byte(i), 0, 0, 0}
				res := sendCmd(srv.G, t.Phone, consts.P8103SetTerminalParams, body, to, limit)
				mu.Lock()
				results = append(results, res.kind)
				mu.Unlock()
			}(i)
		}
	}
	joined := func() bool {
		if t.Write(t.Frame(0x0002, 1, nil)) != nil {
			return false
		}
		rx, ok, to := t.Next(20 * time.Second)
		if to || !ok || rx.F == nil {
			return false
		}
		return true
	}
	switch sc.Point {
	case "before-any-byte":
		launch(sc.K, 0)
		closeIt()
	case "partial-frame":
		f := t.Frame(0x0002, 1, nil)
		t.Write(f[:1+r.Intn(len(f)-1)])
		launch(sc.K, 0)
		closeIt()
	case "joined-commands-unread":
		if !joined() {
			t.Close()
			return nil, true, false, nil
		}
		launch(sc.K, 0)
		time.Sleep(time.Duration(r.Intn(1500)) * time.Microsecond)
		closeIt()
	case "after-reading-some-commands", "after-responding-to-some":
		if !joined() {
			t.Close()
			return nil, true, false, nil
		}
		launch(sc.K, 0)
		for i := 0; i < sc.ReadN; i++ {
			rx, ok, to := t.Next(2 * time.Second)
			if to || !ok {
				break
			}
			if sc.Point == "after-responding-to-some" && rx.F != nil {
				// general response echoing the command's serial
				t.Write(t.Frame(0x0001, uint16(100+i), []byte{byte(rx.F.Serial >> 8), byte(rx.F.Serial), byte(rx.F.ID >> 8), byte(rx.F.ID), 0}))
			}
		}
		closeIt()
	case "during-write-callback":
		if !joined() {
			t.Close()
			return nil, true, false, nil
		}
		// the writer is held inside a slow write callback (heartbeat replies) while commands queue up behind it
		svc.SlowWrite.Store(t.Phone, 3*time.Millisecond)
		defer svc.SlowWrite.Delete(t.Phone)
		for i := 0; i < 2; i++ {
			t.Write(t.Frame(0x0002, uint16(5+i), nil))
		}
		launch(sc.K, 0)
		// heartbeats keep the writer busy answering (its write callbacks run) while the peer goes away
		for i := 0; i < 3; i++ {
			t.Write(t.Frame(0x0002, uint16(10+i), nil))
		}
		closeIt()
	case "writer-held-long":
		// the writer sits in ONE write callback for 3.6 s — longer than the commands' timeout plus any grace an implementation may
		// add on the caller's side — with commands queued behind it; then it resumes and the peer goes away
		if !joined() {
			t.Close()
			return nil, true, false, nil
		}
		hold := 3600 * time.Millisecond
		if sc.HoldMs > 0 {
			hold = time.Duration(sc.HoldMs) * time.Millisecond
		}
		svc.SlowWrite.Store(t.Phone, hold)
		t.Write(t.Frame(0x0002, 5, nil))
		time.Sleep(20 * time.Millisecond)
		svc.SlowWrite.Delete(t.Phone)
		launchLim(sc.K, timeout, hold+timeout+slack)
		time.Sleep(hold + 200*time.Millisecond)
		closeIt()
		time.Sleep(300 * time.Millisecond)
	case "stalled-reader-then-close":
		// the peer stays connected but stops reading (tiny receive buffer) while it keeps sending heartbeats: the replies fill
		// the socket buffers until one write of the server blocks; commands queue up behind it for 6.5 s — longer than any write
		// deadline an implementation may set — and then the peer closes. Every call returns once the connection is gone.
		t.Close() // (t never sent a byte; it only lends its frame builder)
		raw, err := net.DialTimeout("tcp", srv.Addr, 5*time.Second)
		if err != nil {
			return nil, true, false, nil
		}
		if tc, ok := raw.(*net.TCPConn); ok {
			tc.SetReadBuffer(2048)
		}
		raw.Write(t.Frame(0x0002, 1, nil))
		raw.SetReadDeadline(time.Now().Add(20 * time.Second))
		if _, err := raw.Read(make([]byte, 15)); err != nil {
			raw.Close()
			return nil, true, false, nil
		}
		// flood for the whole scenario (a write cut short by its deadline resumes where it stopped, so the stream stays
		// well-formed); meanwhile sc.K callers keep one command each in flight until the peer closes after 12 s. Wherever the
		// server's writer gets stuck — and whatever it does about a write that does not complete — the calls outstanding at
		// that moment return at the latest when the connection is gone.
		var batch []byte
		for k := 0; k < 1000; k++ {
			batch = append(batch, t.Frame(0x0002, uint16(k+2), nil)...)
		}
		closeAt := time.Now().Add(12 * time.Second)
		floodDone := make(chan struct{})
		go func() {
			defer close(floodDone)
			pending := batch
			total := 0
			defer func() { floodBytes.Add(int64(total)) }()
			for time.Now().Before(closeAt) {
				raw.SetWriteDeadline(time.Now().Add(200 * time.Millisecond))
				n, err := raw.Write(pending)
				total += n
				pending = pending[n:]
				if len(pending) == 0 {
					pending = batch
				}
				if err != nil {
					if ne, ok := err.(net.Error); !ok || !ne.Timeout() {
						return
					}
				}
			}
		}()
		sawBlocked := false
		for i := 0; i < sc.K; i++ {
			wg.Add(1)
			go func(i int) {
				defer wg.Done()
				for time.Now().Before(closeAt) {
					body := []byte{1, 0, 0, 0, 1, 4, byte(i), 0, 0, 0}
					res := sendCmd(srv.G, t.Phone, consts.P8103SetTerminalParams, body, timeout, time.Until(closeAt)+timeout+slack)
					mu.Lock()
					results = append(results, res.kind)
					mu.Unlock()
					if res.kind == "stranded" || res.kind == "notexist" {
						return
					}
				}
			}(i)
		}
		// ... and every 400 ms four more calls are made: once the writer is stuck these stay UNWRITTEN in the connection's
		// command queue and at the session manager, behind the ones that were written and wait for their answers
		tick := 0
		for time.Now().Before(closeAt) {
			time.Sleep(200 * time.Millisecond)
			tick++
			if tick%2 == 0 && time.Until(closeAt) > time.Second {
				launchLim(4, timeout, time.Until(closeAt)+timeout+slack)
			}
			if !sawBlocked && goroutineInIOWaitWrite() {
				sawBlocked = true
			}
		}
		<-floodDone
		if !sawBlocked {
			incon = true // the server's writer was never seen parked in a socket write: the situation was not produced
		}
		if sc.RST {
			if tc, ok := raw.(*net.TCPConn); ok {
				tc.SetLinger(0)
			}
		}
		raw.Close()
		time.Sleep(300 * time.Millisecond)
	case "timeout-during-a-steady-upload":
		// the terminal uploads without a pause (100 heartbeats every 10 ms for 8 s, every reply read at once) while the
		// application's write callback takes 200 us per frame, so that the writer always has terminal messages waiting; half a
		// second into it, commands with a short timeout go out and are never answered. Their timeouts reach the writer in the
		// middle of the traffic: the callers are released then, not when the upload is over.
		if !joined() {
			t.Close()
			return nil, true, false, nil
		}
		svc.SlowWrite.Store(t.Phone, 200*time.Microsecond)
		defer svc.SlowWrite.Delete(t.Phone)
		drained := make(chan struct{})
		go func() { // (replies and commands are read and dropped)
			defer close(drained)
			for {
				if _, ok, to := t.Next(30 * time.Second); to || !ok {
					return
				}
			}
		}()
		var batch []byte
		for k := 0; k < 100; k++ {
			batch = append(batch, t.Frame(0x0002, uint16(10+k), nil)...)
		}
		t0 := time.Now()
		launched := false
		for time.Since(t0) < 8*time.Second {
			t.Conn.SetWriteDeadline(time.Now().Add(20 * time.Second))
			if t.Write(batch) != nil {
				break
			}
			if !launched && time.Since(t0) > 500*time.Millisecond {
				launched = true
				launchLim(sc.K, timeout, timeout+slack)
			}
			time.Sleep(10 * time.Millisecond)
		}
		if !launched {
			t.Close()
			return nil, true, false, nil
		}
		time.Sleep(300 * time.Millisecond)
		closeIt()
		time.Sleep(300 * time.Millisecond)
	case "serial-reuse-with-a-command-outstanding":
		// command A (no timeout) is written with platform serial s and never answered; the terminal then sends 65 535
		// heartbeats, so that the next frame the server writes — command B — carries serial s again; B times out; the terminal
		// leaves. A's caller must be released then like any other (what the server tells it is its business).
		if !joined() {
			t.Close()
			return nil, true, false, nil
		}
		launchLim(1, -1, 180*time.Second) // (generous: on a loaded machine the 65 535 heartbeats alone may take a minute)
		rxa, oka, toa := t.Next(20 * time.Second)
		if toa || !oka || rxa.F == nil || rxa.F.ID != 0x8103 {
			t.Close()
			return nil, true, false, nil
		}
		sA := rxa.F.Serial
		var buf []byte
		for k := 0; k < 65535; k++ {
			buf = append(buf, t.Frame(0x0002, uint16(k), nil)...)
			if len(buf) > 30000 || k == 65534 {
				if t.Write(buf) != nil {
					t.Close()
					return nil, true, false, nil
				}
				buf = buf[:0]
			}
		}
		for k := 0; k < 65535; k++ {
			if rx, ok, to := t.Next(60 * time.Second); to || !ok || rx.F == nil {
				t.Close()
				return nil, true, false, nil
			}
		}
		launchLim(1, timeout, timeout+slack)
		rxb, okb, tob := t.Next(20 * time.Second)
		if tob || !okb || rxb.F == nil || rxb.F.ID != 0x8103 || rxb.F.Serial != sA {
			t.Close()
			return nil, true, false, nil // the serial was not reused: the situation was not produced
		}
		time.Sleep(timeout + 300*time.Millisecond)
		closeIt()
		time.Sleep(300 * time.Millisecond)
	case "no-timeout-silent-peer":
		// commands without a timeout (negative duration: the caller waits for the response or for the connection to end) to a
		// terminal that reads them and stays silent for 9 s — longer than any guard an implementation may add on the caller's
		// side — then answers the first one and goes away: every call returns then, and the process is still there
		if !joined() {
			t.Close()
			return nil, true, false, nil
		}
		launchLim(sc.K, -1, 9*time.Second+slack)
		var first *svc.Rx
		for i := 0; i < sc.K && i < 3; i++ { // (the command queue holds 3: later ones are written as earlier ones complete)
			rx, ok, to := t.Next(5 * time.Second)
			if to || !ok {
				break
			}
			if first == nil && rx.F != nil {
				first = &rx
			}
		}
		time.Sleep(9 * time.Second)
		if first != nil {
			t.Write(t.Frame(0x0001, 100, []byte{byte(first.F.Serial >> 8), byte(first.F.Serial), byte(first.F.ID >> 8), byte(first.F.ID), 0}))
			time.Sleep(50 * time.Millisecond)
		}
		closeIt()
		time.Sleep(300 * time.Millisecond)
	case "at-timer-expiry":
		if !joined() {
			t.Close()
			return nil, true, false, nil
		}
		launch(sc.K, 0)
		time.Sleep(timeout + time.Duration(r.Intn(600)-300)*time.Microsecond)
		closeIt()
	case "manager-behind":
		// the single session-manager goroutine is running behind (blocked pushing a 4th command into terminal B's 3-slot
		// queue while B's writer sits in a slow write callback); commands for terminal A queue up at the manager; A's peer
		// goes away; then B's writer resumes. Every call — for A and for B — must still return.
		if !joined() {
			t.Close()
			return nil, true, false, nil
		}
		tb, err := svc.Dial(srv.Addr, r.Bool(), sc.Key+"9")
		if err != nil {
			t.Close()
			return nil, true, false, nil
		}
		defer tb.Close()
		tb.Write(tb.Frame(0x0002, 1, nil))
		if rx, ok, to := tb.Next(20 * time.Second); to || !ok || rx.F == nil {
			t.Close()
			return nil, true, false, nil
		}
		svc.SlowWrite.Store(tb.Phone, 25*time.Millisecond)
		defer svc.SlowWrite.Delete(tb.Phone)
		tb.Write(tb.Frame(0x0002, 2, nil))
		tb.Write(tb.Frame(0x0002, 3, nil))
		time.Sleep(2 * time.Millisecond)
		for i := 0; i < 5; i++ { // B's commands: the 4th push blocks the manager
			wg.Add(1)
			go func(i int) {
				defer wg.Done()
				res := sendCmd(srv.G, tb.Phone, consts.P8104QueryTerminalParams, nil, timeout, timeout+slack+2*time.Second)
				mu.Lock()
				results = append(results, res.kind)
				mu.Unlock()
			}(i)
		}
		time.Sleep(3 * time.Millisecond)
		launch(sc.K, 0) // A's commands queue behind B's at the manager
		time.Sleep(time.Duration(500+r.Intn(1500)) * time.Microsecond)
		closeIt()
	case "during-teardown":
		if !joined() {
			t.Close()
			return nil, true, false, nil
		}
		launch(sc.K/2, 0)
		closeIt()
		launch(sc.K-sc.K/2, time.Duration(r.Intn(400))*time.Microsecond) // callers racing with the teardown
	}
	wg.Wait()
	if probeMax.Load() > 750 { // a scheduling stall of this size anywhere in the child makes time-based verdicts unreliable
		return nil, true, false, results
	}
	stranded := 0
	for _, k := range results {
		if k == "stranded" {
			stranded++
		}
	}
	if stranded > 0 {
		bad("stranded|SendActiveMessage did not return within timeout + slack|"+sc.Point,
			fmt.Sprintf("%d of %d calls had not returned %v after they started (timeout %v); service goroutines: %v", stranded, len(results), timeout+slack, timeout, goroutineDump()))
		poisoned = true
	}
	t.Close()
	return viol, incon && len(viol) == 0, poisoned, results
}

// c13Long: the scenarios that take ten seconds of real time each, side by side, against a server without delay injection.
func c13Long(c *core.Collector, x *Ctx) {
	c.Rule = "three ten-second scenarios in parallel: the writer held 6.5 s in one write callback with 100 ms commands queued behind it; four commands WITHOUT a timeout (negative duration) to a peer that reads them, stays silent for 9 s, answers one and leaves; a peer that stops reading while it floods heartbeats until a write of the server blocks (observed in the goroutine dump), 8 commands queued behind that for 6.5 s, then the peer closes. " +
		"oracle: process alive, every call returned. evaluation = one call"
	startProbe()
	srv, err := svc.Start(func() service.TerminalEventer { return svc.NewRecorder() })
	if err != nil {
		c.Inconclusive()
		return
	}
	var longWG sync.WaitGroup
	for li, sc := range []c13Scenario{
		{Point: "writer-held-long", K: 3, TimeoutMs: 100, RST: true, Key: "1900778", HoldMs: 6500},
		{Point: "no-timeout-silent-peer", K: 4, TimeoutMs: 100, RST: false, Key: "1900779"},
		{Point: "stalled-reader-then-close", K: 8, TimeoutMs: 100, RST: false, Key: "1900780"},
		{Point: "stalled-reader-then-close", K: 5, TimeoutMs: 1000, RST: true, Key: "1900781"},
		{Point: "serial-reuse-with-a-command-outstanding", K: 2, TimeoutMs: 200, RST: false, Key: "1900782"},
		{Point: "timeout-during-a-steady-upload", K: 2, TimeoutMs: 150, RST: false, Key: "1900783"},
	} {
		longWG.Add(1)
		go func(li int, sc c13Scenario) {
			defer longWG.Done()
			x.Journal.Log(true, "long scenario %+v", sc)
			viol, incon, _, res := c13Run(srv, sc, core.NewRand(c.Seed, "c13long", uint64(li)))
			c.Evals(int64(len(res)))
			c.Count("calls_in_ten_second_scenarios", int64(len(res)))
			for _, k := range res {
				c.Count("long_"+sc.Point+"_"+k, 1)
			}
			c.NonTrivial(core.HashString(fmt.Sprintf("long/%d/%v", li, res)))
			if incon {
				c.Inconclusive()
			}
			for _, v := range viol {
				c.Violate(v[0], v[1], sc)
			}
		}(li, sc)
	}
	// a key function that maps a terminal to the EMPTY key (zero padding trimmed from an all-zero phone number): the session is
	// registered under "", ends, and commands for "" come back at once afterwards; the terminal is admitted again. (Own server,
	// no other connections: on this server every connection joins.)
	longWG.Add(1)
	go func() {
		defer longWG.Done()
		srvE, err := svc.Start(func() service.TerminalEventer { return svc.NewRecorder() }, service.WithKeyFunc(func(m *service.Message) (string, bool) {
			return strings.TrimLeft(m.JTMessage.Header.TerminalPhoneNo, "0"), true
		}))
		if err != nil {
			c.Inconclusive()
			return
		}
		time.Sleep(500 * time.Millisecond) // (let the start-up probe connection of svc.Start be torn down first)
		for round := 0; round < 3; round++ {
			c.Eval()
			t, err := svc.Dial(srvE.Addr, round%2 == 1, "0")
			if err != nil {
				c.Inconclusive()
				return
			}
			t.Write(t.Frame(0x0002, uint16(1+round), nil))
			if rx, ok, to := t.Next(20 * time.Second); to {
				c.Inconclusive()
				t.Close()
				return
			} else if !ok || rx.F == nil || rx.F.ID != 0x8001 {
				c.Violate("liveness|a terminal whose key is the empty string is not admitted (again)", fmt.Sprintf("round %d", round), nil)
				t.Close()
				return
			}
			res := sendCmd(srvE.G, "", consts.P8104QueryTerminalParams, nil, 100*time.Millisecond, 100*time.Millisecond+slackFor(100*time.Millisecond))
			if res.kind == "stranded" {
				c.Violate("stranded|SendActiveMessage did not return within timeout + slack|empty-key session", "command to the online terminal registered under the empty key: "+res.kind, nil)
			}
			if res.kind == "notexist" {
				// the empty key is also what a connection that never joined hands to leave(): the start-up probe of svc.Start
				// (connect and close) can be torn down this late and take the registration with it. That is the library's
				// treatment of the empty key, outside what C13 states: this round says nothing.
				c.Inconclusive()
				t.Close()
				continue
			}
			if round%2 == 0 {
				t.Reset()
			} else {
				t.Close()
			}
			if rec := svc.Lookup(t.Phone, uint16(1+round)); rec == nil || !rec.WaitLeave(20*time.Second) {
				c.Inconclusive()
				return
			}
			// after the terminal has gone: three commands in a row (the 4th would block the session manager if the registry still
			// pointed at the dead connection's queue)
			for k := 0; k < 5; k++ {
				res := sendCmd(srvE.G, "", consts.P8104QueryTerminalParams, nil, 100*time.Millisecond, 100*time.Millisecond+slackFor(100*time.Millisecond))
				c.Eval()
				if res.kind != "notexist" {
					c.Violate("stranded|SendActiveMessage did not return within timeout + slack|empty-key session", fmt.Sprintf("command %d to the empty key after its terminal had left: %s; service goroutines: %v", k, res.kind, goroutineDump()), nil)
					return
				}
			}
			c.Count("empty_key_sessions_ended_and_readmitted", 1)
		}
	}()
	longWG.Wait()
	c.Count("bytes_flooded_at_peers_that_do_not_read", floodBytes.Load())
	c.Floor("calls_in_ten_second_scenarios", 6)
	t, err := svc.Dial(srv.Addr, false, "99000777")
	if err == nil {
		t.Write(t.Frame(0x0002, 1, nil))
		rx, ok, to := t.Next(20 * time.Second)
		if to {
			c.Inconclusive()
		} else if !ok || rx.F == nil || rx.F.ID != 0x8001 {
			c.Violate("liveness|server no longer serves new connections after the disconnect scenarios", "a fresh connection's heartbeat was not answered", nil)
		}
		t.Close()
	}
}

func c13Worker(c *core.Collector, x *Ctx) {
	c.Rule = "enumerated scenarios: disconnect point {before any byte, partial frame, joined with k commands queued and unread, after the terminal read j<=k commands, after it answered j of them, while write callbacks run, at timer expiry, during teardown with callers racing} " +
		"x k in {0..4, 6, 10} queued/outstanding commands (bursts larger than the 3-slot command channel) x timeout {20,100,500} ms x {FIN,RST}, each under a different delay-injection seed; oracle: process alive and every call returned within timeout+slack. distinct by (scenario parameters, observed yield-site trace hash)"
	startProbe()
	seed := c.Seed*1000 + uint64(x.Batch)
	yielding := svc.YieldFromEnv(seed)
	srv, err := svc.Start(func() service.TerminalEventer { return svc.NewRecorder() })
	if err != nil {
		c.Inconclusive()
		return
	}
	// scenario list for this batch: the full grid is spread over the batches
	var grid []c13Scenario
	for _, p := range c13Points {
		for _, k := range []int{0, 1, 2, 3, 4, 6, 10} {
			for _, to := range []int{20, 100, 500} {
				for _, rst := range []bool{false, true} {
					for readN := 0; readN <= k && readN <= 4; readN++ {
						if (p != "after-reading-some-commands" && p != "after-responding-to-some") && readN != 0 {
							continue
						}
						if (p == "after-reading-some-commands" || p == "after-responding-to-some") && readN == 0 {
							continue
						}
						grid = append(grid, c13Scenario{Point: p, K: k, ReadN: readN, TimeoutMs: to, RST: rst})
					}
				}
			}
		}
	}
	c.Count("grid_size", int64(len(grid)))
	// long-lived connection first (batch 0): commands issued right where the platform serial wraps (65536 frames written before),
	// answered by the terminal, which then goes away — every call must still return (the scenario machinery of C12 is reused;
	// here only "did every call return" is judged)
	if x.Batch == 0 {
		svc.YieldLevel.Store(0)
		sc := c12Scenario{Script: "inorder", Terms: 1, Callers: 12, TimeoutMs: 1000, Base: 1900000, Traffic: false, PreRoll: 65530}
		viol, incon, _, calls := c12Run(srv, sc, core.NewRand(c.Seed, "c13wrap", 0))
		svc.YieldLevel.Store(1)
		c.Evals(int64(len(calls)))
		c.Count("calls_across_the_serial_wrap", int64(len(calls)))
		if incon {
			c.Inconclusive()
		}
		for _, v := range viol {
			if strings.HasPrefix(v[0], "noresult") || strings.HasPrefix(v[0], "stranded") {
				c.Violate("stranded|SendActiveMessage did not return within timeout + slack|at-the-serial-wrap", v[1], sc)
			}
		}
	}
	if x.Batch == 0 {
		sc := c13Scenario{Point: "writer-held-long", K: 3, TimeoutMs: 100, RST: true, Key: "1900777"}
		viol, incon, _, res := c13Run(srv, sc, core.NewRand(c.Seed, "c13held", 0))
		c.Evals(int64(len(res)))
		c.Count("calls_behind_a_writer_held_for_3_6_s", int64(len(res)))
		if incon {
			c.Inconclusive()
		}
		for _, v := range viol {
			c.Violate(v[0], v[1], sc)
		}
	}
	per := c.N(100, 160)
	r := core.NewRand(c.Seed, "c13", uint64(x.Batch))
	perm := r.Perm(len(grid))
	var list []c13Scenario
	for i := 0; i < per; i++ {
		sc := grid[perm[(i+x.Batch*per)%len(grid)]]
		sc.Key = fmt.Sprintf("%d", 1000000+x.Batch*10000+i)
		sc.YieldSeed = seed
		list = append(list, sc)
	}
	traces := map[uint64]bool{}
	var tmu sync.Mutex
	sem := make(chan struct{}, 8)
	var wg sync.WaitGroup
	var stop atomic.Bool
	kinds := map[string]int64{}
	for i, sc := range list {
		if stop.Load() {
			break
		}
		wg.Add(1)
		sem <- struct{}{}
		go func(i int, sc c13Scenario) {
			defer wg.Done()
			defer func() { <-sem }()
			x.Journal.Log(true, "scenario %d %+v", i, sc)
			mark := svc.TraceMark()
			rr := core.NewRand(c.Seed, "c13s", uint64(x.Batch*100000+i))
			viol, incon, poisoned, results := c13Run(srv, sc, rr)
			h, n := svc.TraceHash(mark)
			c.Eval()
			c.Count("calls", int64(len(results)))
			tmu.Lock()
			for _, k := range results {
				kinds[k]++
			}
			if n > 0 {
				traces[h] = true
			}
			tmu.Unlock()
			c.NonTrivial(core.HashString(fmt.Sprintf("%s/%d/%d/%d/%v/%x", sc.Point, sc.K, sc.ReadN, sc.TimeoutMs, sc.RST, h)))
			if incon {
				c.Inconclusive()
			}
			for _, v := range viol {
				c.Violate(v[0], v[1], sc)
			}
			if poisoned {
				stop.Store(true)
			}
			if i%37 == 0 {
				c.Sample(map[string]any{"scenario": sc, "call_results": results, "yield_sites_in_window": n})
			}
		}(i, sc)
	}
	wg.Wait()
	for k, v := range kinds {
		c.Count("result_"+k, v)
	}
	c.Count("distinct_yield_traces", int64(len(traces)))
	d, tot := svc.SitesHit()
	c.Count("yield_sites_hit", int64(d))
	c.Count("yield_calls", int64(tot))
	if yielding {
		c.Floor("yield_sites_hit", 15)
	}
	c.Floor("calls", 50)
	// the server must still serve a fresh connection after all this
	if !stop.Load() {
		t, err := svc.Dial(srv.Addr, false, fmt.Sprintf("%d", 99000000+x.Batch))
		if err == nil {
			t.Write(t.Frame(0x0002, 1, nil))
			rx, ok, to := t.Next(20 * time.Second)
			if to {
				c.Inconclusive()
			} else if !ok || rx.F == nil || rx.F.ID != 0x8001 {
				c.Violate("liveness|server no longer serves new connections after the disconnect scenarios", "a fresh connection's heartbeat was not answered", nil)
			}
			t.Close()
		}
	}
}
