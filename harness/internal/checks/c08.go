package checks

import (
	"bytes"
	"encoding/binary"
	"fmt"
	"math/bits"
	"reflect"
	"sort"
	"strings"
	"sync/atomic"

	"github.com/cuteLittleDevil/go-jt808/protocol/jt808"
	"github.com/cuteLittleDevil/go-jt808/protocol/model"
	"github.com/cuteLittleDevil/go-jt808/shared/consts"

	"verif/harness/internal/core"
	"verif/harness/internal/ref"
)

// C08 — location reports decoded as the standard prescribes (R-loc differential monitor).

func init() {
	register(core.Plan{
		Property: "C08", Level: "exploration",
		Parts: func(tier string) []core.Part {
			ps := []core.Part{{Name: "items", Bin: "plain", Batches: 1, TimeoutS: 900}, {Name: "words", Bin: "plain", Batches: 1, TimeoutS: 3000}}
			return ps
		},
		Assumptions: []string{
			"internal/ref/loc.go transcribes the standard's alarm/status/extended-signal tables and item layouts (DESIGN Appendix B)",
			"the two-bit load field (status bits 8-9) is not compared; for duplicated item IDs the reported value may be that of any occurrence",
			"item 0x11 with length 1 and type != 0, or length 5 and type = 0, is only required not to crash",
			"BCD time bytes are generated with decimal digits only",
		},
	}, map[string]Worker{"items": c08Items, "words": c08Words})
	replayers["c08"] = func(w map[string]any) string {
		carrier, _ := w["carrier"].(string)
		body := core.UnHex(w["body"].(string))
		var items []c08Item
		remarshal(w["items"], &items)
		blk := core.UnHex(w["block"].(string))
		return c08Check(carrier, body, blk, items, w["expect_reject"] == true)
	}
}

type c08Item struct {
	ID      byte   `json:"id"`
	Content string `json:"content"`
}

func c08Block(r *core.Rand, a, s uint32) []byte {
	b := make([]byte, 28)
	binary.BigEndian.PutUint32(b[0:], a)
	binary.BigEndian.PutUint32(b[4:], s)
	copy(b[8:22], r.Bytes(14))
	for i := 22; i < 28; i++ {
		b[i] = byte(r.Intn(10))<<4 | byte(r.Intn(10))
	}
	return b
}

var c08AlarmIdx, c08StatusIdx [32]int // field index per bit, -1 if none

func init() {
	at := reflect.TypeOf(model.AlarmSignDetails{})
	for i := range c08AlarmIdx {
		c08AlarmIdx[i], c08StatusIdx[i] = -1, -1
	}
	for bit, name := range ref.AlarmBits {
		if f, ok := at.FieldByName(name); ok {
			c08AlarmIdx[bit] = f.Index[0]
		} else {
			c08AlarmIdx[bit] = -2
		}
	}
	st := reflect.TypeOf(model.StatusSignDetails{})
	for bit, name := range ref.StatusBits {
		if f, ok := st.FieldByName(name); ok {
			c08StatusIdx[bit] = f.Index[0]
		} else {
			c08StatusIdx[bit] = -2
		}
	}
}

// c08Base compares a decoded base block with the reference reading; returns "" or "what|which".
func c08Base(li *model.T0x0200LocationItem, blk []byte) string {
	a := ref.BE32(blk[0:])
	s := ref.BE32(blk[4:])
	switch {
	case li.AlarmSign != a:
		return "field|base|AlarmSign"
	case li.StatusSign != s:
		return "field|base|StatusSign"
	case li.Latitude != ref.BE32(blk[8:]):
		return "field|base|Latitude"
	case li.Longitude != ref.BE32(blk[12:]):
		return "field|base|Longitude"
	case li.Altitude != ref.BE16(blk[16:]):
		return "field|base|Altitude"
	case li.Speed != ref.BE16(blk[18:]):
		return "field|base|Speed"
	case li.Direction != ref.BE16(blk[20:]):
		return "field|base|Direction"
	}
	av := reflect.ValueOf(&li.AlarmSignDetails).Elem()
	for bit := 0; bit < 32; bit++ {
		ix := c08AlarmIdx[bit]
		if ix == -2 {
			return fmt.Sprintf("flag|alarm bit %d|field %s missing", bit, ref.AlarmBits[bit])
		}
		if av.Field(ix).Bool() != (a>>bit&1 == 1) {
			return fmt.Sprintf("flag|alarm bit %d|%s", bit, ref.AlarmBits[bit])
		}
	}
	sv := reflect.ValueOf(&li.StatusSignDetails).Elem()
	for bit := 0; bit < 32; bit++ {
		ix := c08StatusIdx[bit]
		if ix == -1 {
			continue
		}
		if ix == -2 {
			return fmt.Sprintf("flag|status bit %d|field %s missing", bit, ref.StatusBits[bit])
		}
		if sv.Field(ix).Bool() != (s>>bit&1 == 1) {
			return fmt.Sprintf("flag|status bit %d|%s", bit, ref.StatusBits[bit])
		}
	}
	if li.DateTime != ref.BCDTime(blk[22:28]) {
		return "field|base|DateTime"
	}
	return ""
}

// c08ItemValue checks the decoded value of one item against content; "" or the field that differs.
func c08ItemValue(id byte, content []byte, c model.AdditionContent) string {
	l := len(content)
	switch id {
	case 0x01:
		if c.Mile != ref.BE32(content) {
			return "Mile"
		}
	case 0x02:
		if c.Oil != ref.BE16(content) {
			return "Oil"
		}
	case 0x03:
		if c.Speed != ref.BE16(content) {
			return "Speed"
		}
	case 0x04:
		if c.ManualAlarm != ref.BE16(content) {
			return "ManualAlarm"
		}
	case 0x05:
		// one value per byte, keyed by the byte's position. A zero byte (no reading) may be reported as 0 or left out —
		// nothing else may be reported for it, and no position beyond the item
		for i, v := range content {
			got, ok := c.TirePressure.Values[uint8(i)]
			if (v != 0 && (!ok || got != v)) || (v == 0 && ok && got != 0) {
				return "TirePressure.Values"
			}
		}
		for k := range c.TirePressure.Values {
			if int(k) >= l {
				return "TirePressure.count"
			}
		}
	case 0x06:
		if c.CarTemperature != ref.BE16(content) {
			return "CarTemperature"
		}
	case 0x11:
		if c.OverSpeedAlarm.LocationType != content[0] {
			return "OverSpeedAlarm.LocationType"
		}
		if l == 5 && content[0] != 0 && c.OverSpeedAlarm.AreaID != ref.BE32(content[1:]) {
			return "OverSpeedAlarm.AreaID"
		}
	case 0x12:
		if c.AreaAlarm.LocationType != content[0] {
			return "AreaAlarm.LocationType"
		}
		if c.AreaAlarm.AreaID != ref.BE32(content[1:]) {
			return "AreaAlarm.AreaID"
		}
		if c.AreaAlarm.Direction != content[5] {
			return "AreaAlarm.Direction"
		}
	case 0x13:
		d := c.DrivingTimeInsufficientAlarm
		if d.RoadSectionID != ref.BE32(content) {
			return "DrivingTime.RoadSectionID"
		}
		if d.RoadSectionDrivingTimeSecond != ref.BE16(content[4:]) {
			return "DrivingTime.Seconds"
		}
		if d.Result != content[6] {
			return "DrivingTime.Result"
		}
	case 0x25:
		v := ref.BE32(content)
		if c.ExtendVehicleStatus.Value != v {
			return "ExtendVehicleStatus.Value"
		}
		ev := reflect.ValueOf(c.ExtendVehicleStatus)
		for bit, name := range ref.ExtSignalBits {
			f := ev.FieldByName(name)
			if !f.IsValid() || f.Bool() != (v>>bit&1 == 1) {
				return fmt.Sprintf("ExtendVehicleStatus bit %d %s", bit, name)
			}
		}
	case 0x2a:
		v := ref.BE16(content)
		if c.IOStatus.Value != v {
			return "IOStatus.Value"
		}
		if c.IOStatus.DeepSleepStatus != (v&1 == 1) {
			return "IOStatus.DeepSleepStatus"
		}
		if c.IOStatus.SleepStatus != (v>>1&1 == 1) {
			return "IOStatus.SleepStatus"
		}
	case 0x2b:
		if c.Analog != ref.BE32(content) {
			return "Analog"
		}
	case 0x30:
		if c.WIFISignalStrength != content[0] {
			return "WIFISignalStrength"
		}
	case 0x31:
		if c.GNSSPositionNum != content[0] {
			return "GNSSPositionNum"
		}
	}
	return ""
}

func c08Additions(ad map[consts.JT808LocationAdditionType]model.Addition, items []c08Item) string {
	byID := map[byte][][]byte{}
	for _, it := range items {
		byID[it.ID] = append(byID[it.ID], core.UnHex(it.Content))
	}
	if len(ad) != len(byID) {
		return fmt.Sprintf("items|count|%d reported for %d distinct IDs", len(ad), len(byID))
	}
	ids := make([]int, 0, len(byID))
	for id := range byID {
		ids = append(ids, int(id))
	}
	sort.Ints(ids)
	for _, idi := range ids {
		id := byte(idi)
		got, ok := ad[consts.JT808LocationAdditionType(id)]
		if !ok {
			return fmt.Sprintf("items|missing|0x%02x", id)
		}
		std := ref.StdItemLen[id] != nil
		last := ""
		matched := false
		for _, content := range byID[id] {
			if got.ID != id || int(got.Len) != len(content) || !bytes.Equal(got.Content.Data, content) {
				last = "verbatim"
				continue
			}
			if id == 0x11 && ((len(content) == 1 && content[0] != 0) || (len(content) == 5 && content[0] == 0)) {
				matched = true // undecided by the standard: only must not crash
				break
			}
			if w := c08ItemValue(id, content, got.Content); w != "" {
				last = w
				continue
			}
			matched = true
			break
		}
		if !matched {
			kind := "unknown"
			if std {
				kind = "standard"
			}
			return fmt.Sprintf("field|addition 0x%02x len %d (%s)|%s", id, got.Len, kind, last)
		}
	}
	return ""
}

func c08Msg(body []byte) *jt808.JTMessage {
	m := jt808.NewJTMessage()
	m.Header.ProtocolVersion = consts.JT808Protocol2013
	m.Body = body[:len(body):len(body)]
	return m
}

func c08ItemsBytes(items []c08Item) []byte {
	var b []byte
	for _, it := range items {
		ct := core.UnHex(it.Content)
		b = append(b, it.ID, byte(len(ct)))
		b = append(b, ct...)
	}
	return b
}

// c08Check parses body through the carrier and compares with blk/items. expectReject: some item has an impossible length.
var c08PresetStride atomic.Int32

func c08Check(carrier string, body, blk []byte, items []c08Item, expectReject bool) string {
	switch carrier {
	case "0200":
		var t model.T0x0200
		err := t.Parse(c08Msg(body))
		if expectReject {
			if err == nil {
				return "accept|item with impossible length accepted|0200"
			}
			return ""
		}
		if err != nil {
			return "reject|well-formed location body rejected|0200"
		}
		if w := c08Base(&t.T0x0200LocationItem, blk); w != "" {
			return w
		}
		if w := c08Additions(t.Additions, items); w != "" {
			return w
		}
		// a receiver that was used before — it parsed a report with the complementary alarm and status words and the same items
		// in reverse order, then a truncated body (rejected), possibly the same report once already — decodes THIS report as a
		// fresh one does
		{
			var u model.T0x0200
			prev := append([]byte{}, body...)
			for i := 0; i < 8; i++ {
				prev[i] ^= 0xff
			}
			_ = u.Parse(c08Msg(prev))
			_ = u.Parse(c08Msg(prev[:27]))
			if ref.BE32(blk[0:])&1 == 1 {
				_ = u.Parse(c08Msg(body))
				_ = u.Parse(c08Msg(body[:20]))
			}
			if err := u.Parse(c08Msg(body)); err != nil {
				return "reject|well-formed location body rejected|0200 (receiver used before)"
			}
			if w := c08Base(&u.T0x0200LocationItem, blk); w != "" {
				return w + " (receiver used before)"
			}
			if w := c08Additions(u.Additions, items); w != "" {
				return w + " (receiver used before)"
			}
		}
		// a receiver with a vendor hook installed (CustomAdditionContentFunc): a hook that declines every item, and one that
		// takes the vendor IDs (>= 0xE0) and returns them as they came, must leave the decoded report exactly as without a hook
		for hk := 0; hk < 2; hk++ {
			var h model.T0x0200
			takeVendor := hk == 1
			h.CustomAdditionContentFunc = func(id uint8, content []byte) (model.AdditionContent, bool) {
				if takeVendor && id >= 0xE0 {
					return model.AdditionContent{Data: content, CustomValue: id}, true
				}
				return model.AdditionContent{}, false
			}
			if err := h.Parse(c08Msg(body)); err != nil {
				return "reject|well-formed location body rejected|0200 (receiver with a vendor hook)"
			}
			if w := c08Base(&h.T0x0200LocationItem, blk); w != "" {
				return w + " (receiver with a vendor hook)"
			}
			if w := c08Additions(h.Additions, items); w != "" {
				return w + " (receiver with a vendor hook)"
			}
		}
		// a receiver that was filled in by hand before (the words of THIS body, or other ones, without their flag details — the
		// way handler prototypes are written) must come out of Parse exactly like a fresh one
		if st := c08PresetStride.Load(); st > 1 && (ref.BE32(blk[0:])^ref.BE32(blk[4:]))%uint32(st) != 0 {
			return "" // exhaustive 2^32 sweeps: every st-th word only
		}
		for _, same := range []bool{true, false} {
			pre := model.T0x0200{}
			pre.AlarmSign, pre.StatusSign = ref.BE32(blk[0:]), ref.BE32(blk[4:])
			if !same {
				pre.AlarmSign, pre.StatusSign = ^pre.AlarmSign, pre.StatusSign^0x00010001
			}
			if err := pre.Parse(c08Msg(body)); err != nil {
				return "reject|well-formed location body rejected|0200"
			}
			if w := c08Base(&pre.T0x0200LocationItem, blk); w != "" {
				return w + " (receiver pre-set by hand)"
			}
		}
		return ""
	case "0704":
		// the batch is  [block+items, bare block, block+items]  (c08Bodies): every item must decode from its own bytes
		var t model.T0x0704
		err := t.Parse(c08Msg(body))
		if expectReject {
			if err == nil {
				return "accept|item with impossible length accepted|0704"
			}
			return ""
		}
		if err != nil {
			return "reject|well-formed location body rejected|0704"
		}
		if len(t.Items) != 3 {
			return "items|0704 item count"
		}
		for i := range t.Items {
			if w := c08Base(&t.Items[i].T0x0200LocationItem, blk); w != "" {
				return w
			}
			want := items
			if i == 1 {
				want = nil
			}
			if w := c08Additions(t.Items[i].Additions, want); w != "" {
				if strings.HasPrefix(w, "items|count|") {
					return "items|count|a 0x0704 item reports additional information that is not in its bytes"
				}
				return w
			}
		}
		return ""
	case "0704x":
		if !expectReject {
			return "" // (the well-formed case is judged through "0704")
		}
		var t model.T0x0704
		if err := t.Parse(c08Msg(body)); err == nil {
			return "accept|item with impossible length accepted|0704 (in an element that is not the last)"
		}
		return ""
	case "0801":
		var t model.T0x0801
		if err := t.Parse(c08Msg(body)); err != nil {
			return "reject|well-formed location body rejected|0801"
		}
		if w := c08Base(&t.T0x0200LocationItem, blk); w != "" {
			return w
		}
		pre := model.T0x0801{}
		pre.AlarmSign, pre.StatusSign = ref.BE32(blk[0:]), ref.BE32(blk[4:])
		if err := pre.Parse(c08Msg(body)); err != nil {
			return "reject|well-formed location body rejected|0801"
		}
		if w := c08Base(&pre.T0x0200LocationItem, blk); w != "" {
			return w + " (receiver pre-set by hand)"
		}
		return ""
	}
	return "harness|unknown carrier"
}

func c08Bodies(blk []byte, items []c08Item) map[string][]byte {
	ib := c08ItemsBytes(items)
	loc := append(append([]byte{}, blk...), ib...)
	out := map[string][]byte{"0200": loc}
	b7 := []byte{0, 3, 1}
	for k := 0; k < 3; k++ {
		it := loc
		if k == 1 {
			it = blk // a bare 28-byte item between two items that carry additional information
		}
		b7 = append(b7, byte(len(it)>>8), byte(len(it)))
		b7 = append(b7, it...)
	}
	out["0704"] = b7
	{
		// the same items in the FIRST element of a batch whose last element is well-formed and carries items of its own (an
		// error met in one element must not be forgotten when a later element parses)
		good := append(append([]byte{}, blk...), 0x01, 0x04, 0x00, 0x01, 0xe2, 0x40)
		bx := []byte{0, 3, 1}
		for _, it := range [][]byte{loc, blk, good} {
			bx = append(bx, byte(len(it)>>8), byte(len(it)))
			bx = append(bx, it...)
		}
		out["0704x"] = bx
	}
	if len(items) == 0 {
		out["0801"] = append(append([]byte{0, 0, 0, 9, 0, 0, 1, 2}, blk...), 0xaa, 0xbb, 0xcc)
	}
	return out
}

func c08Run(c *core.Collector, blk []byte, items []c08Item, expectReject bool, nontrivial bool, gen string, carriers ...string) {
	bodies := c08Bodies(blk, items)
	for _, carrier := range carriers {
		body, ok := bodies[carrier]
		if !ok {
			continue
		}
		c.Eval()
		w := func() any {
			return map[string]any{"kind": "c08", "carrier": carrier, "body": core.Hex(body), "block": core.Hex(blk), "items": items, "expect_reject": expectReject, "gen": gen}
		}
		var bad string
		if guard(c, w, func() { bad = c08Check(carrier, body, blk, items, expectReject) }) {
			continue
		}
		if nontrivial {
			c.NonTrivial(core.HashBytes([]byte(carrier), body))
		}
		if bad != "" {
			c.Violate(bad, "location decoding differs from the standard's reading: "+bad+" (carrier "+carrier+", "+gen+")", w())
		}
	}
}

func c08RandContent(r *core.Rand, id byte, l int) []byte {
	ct := make([]byte, l)
	for i := range ct {
		ct[i] = byte(1 + r.Intn(255))
	}
	if id == 0x05 && r.Bool() {
		// tyre positions without a reading (zero bytes): a vehicle with fewer tyres than the item has bytes
		for i := range ct {
			if r.Bool() {
				ct[i] = 0
			}
		}
	}
	return ct
}

func c08Items(c *core.Collector, x *Ctx) {
	c.Rule = "items: every item ID 0..255 x every length 0..40 (0..255 for unknown IDs) as single item, admissible lengths compared field by field, inadmissible must be rejected; " +
		"sequences of 1..12 items in random order with duplicates and one optional impossible length, through 0x0200 and both items of a 0x0704. " +
		"non-trivial = body with at least one item; distinct by hash of (carrier, body)"
	all := []string{"0200", "0704", "0704x", "0801"}
	type sj struct{ id, l int }
	var jobs []sj
	for id := 0; id < 256; id++ {
		maxl := 40
		if ref.StdItemLen[byte(id)] == nil {
			maxl = 255
		}
		for l := 0; l <= maxl; l++ {
			if l > 40 && !c.Thorough() && l%5 != 0 && l < 250 {
				continue
			}
			jobs = append(jobs, sj{id, l})
		}
	}
	core.ParallelFor(len(jobs), ncpu(), func(i int) {
		j := jobs[i]
		r := core.NewRand(c.Seed, "c08i", uint64(i))
		blk := c08Block(r, r.U32(), r.U32())
		variants := 1
		if j.id == 0x11 {
			variants = 2
		}
		for v := 0; v < variants; v++ {
			ct := c08RandContent(r, byte(j.id), j.l)
			if j.id == 0x11 && v == 1 && j.l >= 1 {
				ct[0] = 0
			}
			items := []c08Item{{byte(j.id), core.Hex(ct)}}
			rej := !ref.ItemAdmissible(byte(j.id), j.l)
			// a 0x0704 item cannot exceed 65535 bytes and 0x0200 bodies are not length-limited here
			c08Run(c, blk, items, rej, true, "single", all...)
			if i%500 == 0 && c.WantSample() {
				c.Sample(map[string]any{"gen": "single item", "id": j.id, "len": j.l, "admissible": !rej, "body_0200": core.HexCap(c08Bodies(blk, items)["0200"], 60)})
			}
		}
	})
	c.Count("single_item_cases", int64(len(jobs)))
	// magic numbers: alarm / status words and payload edges that look like file signatures (JPEG, PNG, GIF, RIFF, the JT1078 and
	// attachment chunk markers, frame delimiters), for every multimedia type / format code of the 0x0801 header: a decoder that
	// sniffs content instead of trusting the layout reads these wrongly
	{
		magics := []uint32{0xFFD8FFE0, 0xFFD8FFE1, 0xFFD8FFDB, 0x89504E47, 0x47494638, 0x52494646, 0x30316364, 0x7E7E7E7E, 0x7D017D02, 0x49443303, 0x00000000, 0xFFFFFFFF, 0x1A45DFA3, 0x66747970}
		tails := [][]byte{{0xFF, 0xD9}, {0x49, 0x45, 0x4E, 0x44, 0xAE, 0x42, 0x60, 0x82}, {0x00, 0x3B}, {0xaa, 0xbb, 0xcc}, {}}
		n801 := 0
		nonBCD := false
		for mi, mg := range magics {
			for ti, tail := range tails {
				r := core.NewRand(c.Seed, "c08magic", uint64(mi*16+ti))
				for pos := 0; pos < 2; pos++ {
					a, st := mg, r.U32()
					if pos == 1 {
						a, st = r.U32(), mg
					}
					blk := c08Block(r, a, st)
					if (mi+ti+pos)%2 == 1 {
						// a time field that is not clean BCD (a terminal without a clock fix sends ff.., 00.., or garbage): how it is
						// rendered is not claimed, every OTHER field still is
						blk[22+r.Intn(6)] = []byte{0xff, 0xfa, 0xaf, 0x0a}[r.Intn(4)]
						nonBCD = true
					} else {
						nonBCD = false
					}
					if !nonBCD {
						c08Run(c, blk, nil, false, true, "magic-words", "0200", "0704")
					}
					for typ := 0; typ < 3; typ++ {
						for fmtc := 0; fmtc < 5; fmtc++ {
							body := append([]byte{0, 0, 0, 9, byte(typ), byte(fmtc), 1, 2}, blk...)
							body = append(body, 0xFF, 0xD8, 0xFF, 0xE0, 1, 2, 3)
							body = append(body, tail...)
							c.Eval()
							w := func() any {
								return map[string]any{"kind": "c08", "carrier": "0801", "body": core.Hex(body), "block": core.Hex(blk), "expect_reject": false, "gen": "magic-0801"}
							}
							var bad string
							if guard(c, w, func() { bad = c08Check("0801", body, blk, nil, false) }) {
								continue
							}
							if nonBCD && strings.HasPrefix(bad, "field|base|DateTime") {
								bad = ""
							}
							n801++
							c.NonTrivial(core.HashBytes([]byte("0801m"), body))
							if bad != "" {
								c.Violate(bad, "location decoding differs from the standard's reading: "+bad+" (carrier 0801, magic-number words / payload)", w())
							}
						}
					}
				}
			}
		}
		c.Count("magic_number_0801_cases", int64(n801))
	}
	// items whose total length (28-byte block + additional information) sits at the edges of the 0x0704 item length word:
	// 255/256/257, 32767/32768 and 65533..65535 bytes, filled with unknown items of up to 255 content bytes (a batch that
	// large reaches the server as a sub-packaged message). Through 0x0200 and as first/last item of a 0x0704 batch.
	bigTargets := []int{255, 256, 257, 4095, 4096, 32767, 32768, 65533, 65534, 65535}
	core.ParallelFor(len(bigTargets)*2, ncpu(), func(i int) {
		r := core.NewRand(c.Seed, "c08big", uint64(i))
		target := bigTargets[i%len(bigTargets)]
		blk := c08Block(r, r.U32(), r.U32())
		rem := target - 28
		var items []c08Item
		id := byte(0xE1)
		for rem > 0 {
			l := 255
			if rem < 257 {
				l = rem - 2
			}
			if rem-(l+2) == 1 { // never leave a single byte over
				l--
			}
			if l < 0 {
				break
			}
			items = append(items, c08Item{id, core.Hex(r.Bytes(l))})
			rem -= l + 2
			if id++; id == 0 {
				id = 0xE1
			}
		}
		c08Run(c, blk, items, false, true, "big-item", "0200", "0704")
		c.Count("big_item_cases", 1)
	})
	// sequences
	n := c.N(20000, 1500000)
	stdIDs := []byte{1, 2, 3, 4, 5, 6, 0x11, 0x12, 0x13, 0x25, 0x2a, 0x2b, 0x30, 0x31}
	core.ParallelFor(n, ncpu(), func(i int) {
		r := core.NewRand(c.Seed, "c08s", uint64(i))
		blk := c08Block(r, r.U32(), r.U32())
		k := 1 + r.Intn(12)
		var items []c08Item
		rej := false
		for q := 0; q < k; q++ {
			var id byte
			if r.Chance(2, 3) {
				id = core.Pick(r, stdIDs)
			} else {
				id = r.Byte()
			}
			if q > 0 && r.Chance(1, 6) {
				id = items[r.Intn(len(items))].ID // duplicate
			}
			l := r.Intn(20)
			if ls := ref.StdItemLen[id]; ls != nil {
				l = core.Pick(r, ls)
				if r.Chance(1, 25) {
					l = r.Intn(41)
				}
			}
			if !ref.ItemAdmissible(id, l) {
				rej = true
			}
			ct := c08RandContent(r, id, l)
			if id == 0x11 && l >= 1 && r.Bool() {
				ct[0] = 0
			}
			if id == 0x11 && l == 1 {
				ct[0] = 0 // the well-defined one-byte form
			}
			items = append(items, c08Item{id, core.Hex(ct)})
		}
		c08Run(c, blk, items, rej, true, "sequence", "0200", "0704", "0704x")
		// truncated item stream: the last item cut short must be rejected
		if !rej && r.Chance(1, 4) {
			ib := c08ItemsBytes(items)
			cut := 1 + r.Intn(len(ib)-1+1) - 1
			if cut > 0 && cut < len(ib) {
				// is the cut at an item boundary? then it is simply a shorter valid list: skip
				pos, boundary := 0, false
				for pos < cut {
					pos += 2 + int(ib[pos+1])
					if pos == cut {
						boundary = true
					}
				}
				if !boundary {
					body := append(append([]byte{}, blk...), ib[:cut]...)
					c.Eval()
					var t model.T0x0200
					var err error
					w := func() any {
						return map[string]any{"kind": "c08trunc", "body": core.Hex(body)}
					}
					if !guard(c, w, func() { err = t.Parse(c08Msg(body)) }) && err == nil {
						c.Violate("accept|item stream cut inside an item accepted|0200", "truncated additional-information stream accepted", w())
					}
				}
			}
		}
	})
	c.Floor("single_item_cases", 10000)
}

func c08Words(c *core.Collector, x *Ctx) {
	c.Rule = "words: base blocks with alarm/status words = all single bits, complements, all pairs, all-ones/zero, random (quick); ALL 2^32 values as alarm and status word through 0x0200 with every 4099th also through 0x0704/0x0801 (thorough). " +
		"non-trivial = word with at least one bit set; distinct by hash of the 28-byte block"
	var words []uint32
	words = append(words, 0, 0xffffffff)
	for i := 0; i < 32; i++ {
		words = append(words, 1<<i, ^uint32(1<<i))
		for j := i + 1; j < 32; j++ {
			words = append(words, 1<<i|1<<j)
		}
	}
	r0 := core.NewRand(c.Seed, "c08w", 0)
	for i := 0; i < c.N(20000, 200000); i++ {
		words = append(words, r0.U32())
	}
	// every word with at most 5 bits set and every word with at most 3 bits clear, through 0x0200 (words a real vehicle
	// sends have a handful of bits set: a decoder that special-cases "the usual values" is wrong on one of those)
	{
		var sparse []uint32
		var rec func(from int, left int, w uint32)
		rec = func(from, left int, w uint32) {
			if left == 0 {
				return
			}
			for b := from; b < 32; b++ {
				v := w | 1<<b
				sparse = append(sparse, v)
				rec(b+1, left-1, v)
			}
		}
		rec(0, 5, 0)
		n3 := len(sparse)
		for _, v := range sparse[:n3] {
			if bits.OnesCount32(v) <= 3 {
				sparse = append(sparse, ^v)
			}
		}
		const shards = 64
		core.ParallelFor(shards, ncpu(), func(sh int) {
			r := core.NewRand(c.Seed, "c08sp", uint64(sh))
			blk := c08Block(r, 0, 0)
			m := c08Msg(blk)
			for i := sh; i < len(sparse); i += shards {
				w := sparse[i]
				o := uint32(0)
				if i%3 == 1 {
					o = r.U32()
				}
				for pos := 0; pos < 2; pos++ {
					if pos == 0 {
						binary.BigEndian.PutUint32(blk[0:], w)
						binary.BigEndian.PutUint32(blk[4:], o)
					} else {
						binary.BigEndian.PutUint32(blk[0:], o)
						binary.BigEndian.PutUint32(blk[4:], w)
					}
					t := model.T0x0200{}
					wit := map[string]any{"kind": "c08", "carrier": "0200", "body": core.Hex(blk), "block": core.Hex(blk), "items": nil}
					if err := t.Parse(m); err != nil {
						c.Violate("reject|well-formed location body rejected|0200", "sparse word sweep", wit)
						return
					}
					if wb := c08Base(&t.T0x0200LocationItem, blk); wb != "" {
						c.Violate(wb, "sparse word sweep: "+wb, wit)
						return
					}
				}
			}
		})
		c.Evals(int64(2 * len(sparse)))
		c.Count("sparse_words", int64(len(sparse)))
		c.Floor("sparse_words", 240000)
	}
	core.ParallelFor(len(words), ncpu(), func(i int) {
		r := core.NewRand(c.Seed, "c08wb", uint64(i))
		w := words[i]
		o := r.U32()
		c08Run(c, c08Block(r, w, o), nil, false, w != 0, "word-as-alarm", "0200", "0704", "0801")
		c08Run(c, c08Block(r, o, w), nil, false, w != 0, "word-as-status", "0200", "0704", "0801")
		if i%300 == 5 && c.WantSample() {
			c.Sample(map[string]any{"gen": "word", "alarm": fmt.Sprintf("%08x", w), "status": fmt.Sprintf("%08x", o)})
		}
	})
	c.Count("structured_words", int64(len(words)))
	if c.Thorough() {
		// exhaustive: every 32-bit value as alarm word AND as status word (same value in both positions)
		const shards = 4096
		var bad [1]string
		core.ParallelFor(shards, ncpu(), func(sh int) {
			r := core.NewRand(c.Seed, "c08x", uint64(sh))
			blk := c08Block(r, 0, 0)
			lo := uint64(sh) * (1 << 32 / shards)
			hi := lo + (1 << 32 / shards)
			var t model.T0x0200
			m := c08Msg(blk)
			for w := lo; w < hi; w++ {
				binary.BigEndian.PutUint32(blk[0:], uint32(w))
				binary.BigEndian.PutUint32(blk[4:], uint32(w))
				t = model.T0x0200{}
				if err := t.Parse(m); err != nil {
					c.Violate("reject|well-formed location body rejected|0200", "exhaustive word sweep", map[string]any{"kind": "c08", "carrier": "0200", "body": core.Hex(blk), "block": core.Hex(blk), "items": nil})
					return
				}
				if wb := c08Base(&t.T0x0200LocationItem, blk); wb != "" {
					c.Violate(wb, "exhaustive word sweep: "+wb, map[string]any{"kind": "c08", "carrier": "0200", "body": core.Hex(blk), "block": core.Hex(blk), "items": nil})
					bad[0] = wb
					return
				}
				if w%4099 == 0 {
					c08Run(c, blk, nil, false, false, "sweep-carriers", "0704", "0801")
				}
			}
			c.Evals(int64(hi - lo))
			c.Count("exhaustive_words", int64(hi-lo))
		})
		c.Exh = true
		c.Floor("exhaustive_words", 1<<32)
	}
	c.Floor("structured_words", 500)
}
