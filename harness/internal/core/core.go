// Package core: plumbing shared by every check — deterministic PRNG, the per-worker
// collector (evaluations, distinct counting, samples, violations), panic signatures.
package core

import (
	"encoding/hex"
	"encoding/json"
	"fmt"
	"hash/fnv"
	"math/bits"
	"os"
	"regexp"
	"runtime"
	"sort"
	"strings"
	"sync"
	"sync/atomic"
)

// ---------------------------------------------------------------------------------------------
// PRNG: splitmix64 seeded from (VERIF_SEED, property, stream, index). Deterministic, no time.

type Rand struct{ s uint64 }

func mix(x uint64) uint64 {
	x += 0x9E3779B97F4A7C15
	x = (x ^ (x >> 30)) * 0xBF58476D1CE4E5B9
	x = (x ^ (x >> 27)) * 0x94D049BB133111EB
	return x ^ (x >> 31)
}

func HashString(s string) uint64 {
	h := fnv.New64a()
	h.Write([]byte(s))
	return h.Sum64()
}

func HashBytes(parts ...[]byte) uint64 {
	h := fnv.New64a()
	var l [4]byte
	for _, p := range parts {
		l[0], l[1], l[2], l[3] = byte(len(p)>>24), byte(len(p)>>16), byte(len(p)>>8), byte(len(p))
		h.Write(l[:])
		h.Write(p)
	}
	return h.Sum64()
}

func NewRand(seed uint64, stream string, index uint64) *Rand {
	return &Rand{s: mix(mix(seed^0xA5A5A5A5) ^ mix(HashString(stream)) ^ mix(index*0x9E3779B97F4A7C15+1))}
}

func (r *Rand) U64() uint64 { r.s += 0x9E3779B97F4A7C15; return mix(r.s) }
func (r *Rand) Intn(n int) int {
	if n <= 0 {
		return 0
	}
	return int(r.U64() % uint64(n))
}
func (r *Rand) Range(lo, hi int) int { return lo + r.Intn(hi-lo+1) } // inclusive
func (r *Rand) Bool() bool           { return r.U64()&1 == 1 }
func (r *Rand) Byte() byte           { return byte(r.U64()) }
func (r *Rand) U16() uint16          { return uint16(r.U64()) }
func (r *Rand) U32() uint32          { return uint32(r.U64()) }
func (r *Rand) Chance(num, den int) bool {
	return r.Intn(den) < num
}
func (r *Rand) Bytes(n int) []byte {
	b := make([]byte, n)
	for i := 0; i < n; i += 8 {
		v := r.U64()
		for j := 0; j < 8 && i+j < n; j++ {
			b[i+j] = byte(v >> (8 * j))
		}
	}
	return b
}
func (r *Rand) Perm(n int) []int {
	p := make([]int, n)
	for i := range p {
		p[i] = i
	}
	for i := n - 1; i > 0; i-- {
		j := r.Intn(i + 1)
		p[i], p[j] = p[j], p[i]
	}
	return p
}
func Pick[T any](r *Rand, xs []T) T { return xs[r.Intn(len(xs))] }

// ---------------------------------------------------------------------------------------------
// Distinct counting: an atomic bitmap indexed by the case hash. The number of set bits is a
// LOWER bound on the number of distinct hashes (collisions only lose counts) — conservative.

type Distinct struct {
	bits []atomic.Uint64
	mask uint64
}

func NewDistinct(log2bits uint) *Distinct {
	n := uint64(1) << log2bits
	return &Distinct{bits: make([]atomic.Uint64, n/64), mask: n - 1}
}
func (d *Distinct) Add(h uint64) {
	h = mix(h) & d.mask
	w, b := h/64, uint64(1)<<(h%64)
	if d.bits[w].Load()&b == 0 {
		d.bits[w].Or(b)
	}
}
func (d *Distinct) Count() int64 {
	var n int64
	for i := range d.bits {
		n += int64(bits.OnesCount64(d.bits[i].Load()))
	}
	return n
}

// ---------------------------------------------------------------------------------------------
// Violations and reports.

type Violation struct {
	Property  string `json:"property"`
	Signature string `json:"signature"` // oracle|where|what — exact-match key for known findings
	Detail    string `json:"detail"`
	Witness   any    `json:"witness,omitempty"`
	Count     int64  `json:"count"`
}

type Report struct {
	Property     string           `json:"property"`
	Part         string           `json:"part"`
	Evaluations  int64            `json:"evaluations"`
	Distinct     int64            `json:"distinct_nontrivial"`
	Rule         string           `json:"rule"`
	Samples      []any            `json:"samples"`
	Counters     map[string]int64 `json:"counters"`
	Notes        map[string]any   `json:"notes,omitempty"`
	Violations   []Violation      `json:"violations"`
	Inconclusive int64            `json:"inconclusive"`
	Exhaustive   bool             `json:"exhaustive,omitempty"`
	Assumptions  []string         `json:"assumptions,omitempty"`
	Floors       map[string]int64 `json:"floors,omitempty"` // counter name -> minimum this part must have observed
}

// Collector is the thread-safe accumulator a worker writes into.
type Collector struct {
	Property string
	Part     string
	Tier     string
	Seed     uint64
	evals    atomic.Int64
	dist     *Distinct
	mu       sync.Mutex
	samples  []any
	maxSamp  int
	counters map[string]*atomic.Int64
	viol     map[string]*Violation
	order    []string
	notes    map[string]any
	incon    atomic.Int64
	Rule     string
	Exh      bool
	Assume   []string
	floors   map[string]int64
}

func NewCollector(property, part, tier string, seed uint64) *Collector {
	lb := uint(26) // 64 Mi bits = 8 MiB
	if tier == "thorough" {
		lb = 31 // 2 Gi bits = 256 MiB
	}
	return &Collector{Property: property, Part: part, Tier: tier, Seed: seed, dist: NewDistinct(lb), maxSamp: 6,
		counters: map[string]*atomic.Int64{}, viol: map[string]*Violation{}, notes: map[string]any{}, floors: map[string]int64{}}
}

func (c *Collector) Thorough() bool { return c.Tier == "thorough" }

// N picks the per-tier count.
func (c *Collector) N(quick, thorough int) int {
	if c.Thorough() {
		return thorough
	}
	return quick
}

func (c *Collector) Eval()               { c.evals.Add(1) }
func (c *Collector) Evals(n int64)       { c.evals.Add(n) }
func (c *Collector) NonTrivial(h uint64) { c.dist.Add(h) }
func (c *Collector) Inconclusive()       { c.incon.Add(1) }
func (c *Collector) Floor(counter string, min int64) {
	c.mu.Lock()
	c.floors[counter] = min
	c.mu.Unlock()
}

func (c *Collector) Counter(name string) *atomic.Int64 {
	c.mu.Lock()
	defer c.mu.Unlock()
	v, ok := c.counters[name]
	if !ok {
		v = &atomic.Int64{}
		c.counters[name] = v
	}
	return v
}
func (c *Collector) Count(name string, n int64) { c.Counter(name).Add(n) }

func (c *Collector) Note(k string, v any) {
	c.mu.Lock()
	c.notes[k] = v
	c.mu.Unlock()
}

// Sample keeps the first few samples offered (callers offer sparingly).
func (c *Collector) Sample(v any) {
	c.mu.Lock()
	if len(c.samples) < c.maxSamp {
		c.samples = append(c.samples, v)
	}
	c.mu.Unlock()
}
func (c *Collector) WantSample() bool {
	c.mu.Lock()
	defer c.mu.Unlock()
	return len(c.samples) < c.maxSamp
}

// Violate records a violation; per signature the first witness is kept and occurrences counted.
func (c *Collector) Violate(signature, detail string, witness any) {
	c.mu.Lock()
	defer c.mu.Unlock()
	if v, ok := c.viol[signature]; ok {
		v.Count++
		return
	}
	c.viol[signature] = &Violation{Property: c.Property, Signature: signature, Detail: detail, Witness: witness, Count: 1}
	c.order = append(c.order, signature)
}

func (c *Collector) Report() *Report {
	c.mu.Lock()
	defer c.mu.Unlock()
	r := &Report{Property: c.Property, Part: c.Part, Evaluations: c.evals.Load(), Distinct: c.dist.Count(), Rule: c.Rule,
		Samples: c.samples, Counters: map[string]int64{}, Notes: c.notes, Inconclusive: c.incon.Load(), Exhaustive: c.Exh,
		Assumptions: c.Assume, Floors: c.floors}
	for k, v := range c.counters {
		r.Counters[k] = v.Load()
	}
	for _, s := range c.order {
		r.Violations = append(r.Violations, *c.viol[s])
	}
	return r
}

func (c *Collector) WriteTo(path string) error {
	b, err := json.MarshalIndent(c.Report(), "", " ")
	if err != nil {
		return err
	}
	tmp := path + ".tmp"
	if err := os.WriteFile(tmp, b, 0o644); err != nil {
		return err
	}
	return os.Rename(tmp, path)
}

// ---------------------------------------------------------------------------------------------
// Panic signatures: innermost function of the repository on the panicking stack + normalised text.

const RepoPrefix = "github.com/cuteLittleDevil/go-jt808/"

var reNum = regexp.MustCompile(`\[[^\]]*\]|\b\d+\b|0x[0-9a-fA-F]+`)

func NormPanic(v any) string {
	s := fmt.Sprint(v)
	s = strings.TrimPrefix(s, "runtime error: ")
	s = reNum.ReplaceAllString(s, "")
	s = strings.Join(strings.Fields(s), " ")
	if len(s) > 80 {
		s = s[:80]
	}
	return s
}

// RepoFrame must be called from a deferred function while panicking: it returns the innermost
// stack frame that belongs to the repository ("model.(*T0x0102).Parse") and the whole chain.
func RepoFrame() (inner string, chain []string) {
	pc := make([]uintptr, 64)
	n := runtime.Callers(2, pc)
	frames := runtime.CallersFrames(pc[:n])
	for {
		f, more := frames.Next()
		if strings.HasPrefix(f.Function, RepoPrefix) {
			name := strings.TrimPrefix(f.Function, RepoPrefix)
			// protocol/model.(*T).Parse -> model.(*T).Parse
			if i := strings.LastIndex(name, "/"); i >= 0 {
				name = name[i+1:]
			}
			name = stripClosure(name)
			if inner == "" {
				inner = name
			}
			chain = append(chain, name)
		}
		if !more {
			break
		}
	}
	if inner == "" {
		inner = "?"
	}
	return
}

var reClosure = regexp.MustCompile(`(\.func\d+)+(\.\d+)*$|\.gowrap\d+$`)

func stripClosure(s string) string {
	// inlined closures are rendered as  pkg.(*T).m.func1.(*T).other.1  — keep the outermost named function
	if i := strings.Index(s, ".func"); i > 0 {
		s = s[:i]
	}
	return reClosure.ReplaceAllString(s, "")
}

// PanicSig builds "panic|<fn>|<text>". Call inside the deferred recover handler.
func PanicSig(rec any) (sig string, chain []string) {
	inner, ch := RepoFrame()
	return "panic|" + inner + "|" + NormPanic(rec), ch
}

func Hex(b []byte) string { return hex.EncodeToString(b) }
func HexCap(b []byte, n int) string {
	if len(b) <= n {
		return hex.EncodeToString(b)
	}
	return hex.EncodeToString(b[:n]) + fmt.Sprintf("..(%d B)", len(b))
}
func UnHex(s string) []byte { b, _ := hex.DecodeString(s); return b }

func SortedKeys[V any](m map[string]V) []string {
	k := make([]string, 0, len(m))
	for s := range m {
		k = append(k, s)
	}
	sort.Strings(k)
	return k
}

// ParallelFor runs f(i) for i in [0,n) on w goroutines (work stealing by atomic counter).
func ParallelFor(n, w int, f func(i int)) {
	if w < 1 {
		w = 1
	}
	var next atomic.Int64
	var wg sync.WaitGroup
	for g := 0; g < w; g++ {
		wg.Add(1)
		go func() {
			defer wg.Done()
			for {
				i := int(next.Add(1) - 1)
				if i >= n {
					return
				}
				f(i)
			}
		}()
	}
	wg.Wait()
}
