package core

import (
	"bufio"
	"encoding/json"
	"fmt"
	"os"
	"os/exec"
	"path/filepath"
	"regexp"
	"sort"
	"strconv"
	"strings"
	"sync"
	"syscall"
	"time"
)

// Part is one kind of child process of a check.
type Part struct {
	Name     string
	Bin      string // "plain", "race" (race detector), "raceov" (race detector + delay-injection overlay)
	Batches  int    // number of children (batch index 0..Batches-1)
	Parallel int    // children run concurrently
	TimeoutS int    // wall-clock watchdog per child; firing = inconclusive
	Env      []string
	Races    bool // DATA RACE blocks in the child's race log are violations of this property (C18); otherwise only counted
	// MemLimitMB > 0: the child runs under `ulimit -v` (address-space limit). The sandbox has no memory limit of its own, so an
	// allocation sized by a hostile length field would either succeed silently or get the child SIGKILLed by the kernel;
	// with the limit the Go runtime dies with "fatal error: ... out of memory", which is reported as a crash of the server.
	// Only for non-race binaries (the race detector reserves terabytes of address space).
	MemLimitMB int
	// CrashIsViolation: a child that dies with a Go panic/fatal error is a violation of the property
	// (true for every part: the property-specific signature says where).
}

type Plan struct {
	Property    string
	Level       string // exploration | fault_enumeration
	Parts       func(tier string) []Part
	Assumptions []string
}

type Known struct {
	Property  string `json:"property"`
	Signature string `json:"signature"`
	Status    string `json:"status"` // known | fixed
	Commit    string `json:"commit,omitempty"`
	What      string `json:"what"`
	Line      string `json:"line"`
}

type KnownFile struct {
	Entries []Known `json:"entries"`
}

func LoadKnown(path string) (*KnownFile, error) {
	b, err := os.ReadFile(path)
	if err != nil {
		return nil, err
	}
	var k KnownFile
	if err := json.Unmarshal(b, &k); err != nil {
		return nil, err
	}
	return &k, nil
}

type childResult struct {
	part    Part
	batch   int
	report  *Report
	crash   *Violation
	timeout bool
	broken  string
	races   []Violation
	wall    float64
}

var VerifRoot = "/verif"

func binPath(kind string) string {
	switch kind {
	case "race":
		return filepath.Join(VerifRoot, "harness/bin/vcheck-race")
	case "raceov":
		return filepath.Join(VerifRoot, "harness/bin/vcheck-raceov")
	}
	return filepath.Join(VerifRoot, "harness/bin/vcheck")
}

// RunPlan executes a plan and returns the process exit code.
func RunPlan(pl Plan, tier string, seed uint64) int {
	start := time.Now()
	work := filepath.Join(VerifRoot, ".work", fmt.Sprintf("%s-%d", pl.Property, os.Getpid()))
	os.RemoveAll(work)
	if err := os.MkdirAll(work, 0o755); err != nil {
		fmt.Println("BROKEN: cannot create work dir:", err)
		return 2
	}
	keep := os.Getenv("VERIF_KEEP_WORK") != ""
	defer func() {
		if !keep {
			os.RemoveAll(work)
		}
	}()

	parts := pl.Parts(tier)
	var results []childResult
	var mu sync.Mutex
	for _, p := range parts {
		par := p.Parallel
		if par < 1 {
			par = 1
		}
		sem := make(chan struct{}, par)
		var wg sync.WaitGroup
		for b := 0; b < p.Batches; b++ {
			wg.Add(1)
			sem <- struct{}{}
			go func(p Part, b int) {
				defer wg.Done()
				defer func() { <-sem }()
				r := runChild(pl.Property, p, b, tier, seed, work)
				if r.timeout && os.Getenv("VERIF_NO_RETRY") == "" {
					// one retry with the same inputs: a watchdog firing is inconclusive, not a verdict
					r2 := runChild(pl.Property, p, b, tier, seed, work)
					if !r2.timeout {
						r = r2
					}
				}
				mu.Lock()
				results = append(results, r)
				mu.Unlock()
			}(p, b)
		}
		wg.Wait()
	}
	sort.Slice(results, func(i, j int) bool {
		if results[i].part.Name != results[j].part.Name {
			return results[i].part.Name < results[j].part.Name
		}
		return results[i].batch < results[j].batch
	})

	// ---- merge
	var evals, distinct, incon int64
	counters := map[string]int64{}
	partInfo := []map[string]any{}
	var samples []any
	var rules []string
	seenRule := map[string]bool{}
	exhaustive := false
	assumptions := append([]string{}, pl.Assumptions...)
	viols := map[string]*Violation{}
	var order []string
	addV := func(v Violation) {
		if o, ok := viols[v.Signature]; ok {
			o.Count += v.Count
			return
		}
		vv := v
		vv.Property = pl.Property
		viols[v.Signature] = &vv
		order = append(order, v.Signature)
	}
	var broken []string
	floors := map[string]int64{}
	perPartSamples := map[string]int{}
	for _, r := range results {
		tag := fmt.Sprintf("%s#%d", r.part.Name, r.batch)
		if r.broken != "" {
			broken = append(broken, tag+": "+r.broken)
		}
		if r.timeout {
			incon++
			counters["children_timed_out"]++
		}
		if r.crash != nil {
			addV(*r.crash)
			counters["children_crashed"]++
		}
		for _, v := range r.races {
			if r.part.Races {
				addV(v)
			} else {
				counters["race_reports_seen_but_not_this_propertys_subject"]++
			}
		}
		if r.report != nil {
			rep := r.report
			evals += rep.Evaluations
			distinct += rep.Distinct
			incon += rep.Inconclusive
			for k, v := range rep.Counters {
				counters[r.part.Name+"."+k] += v
			}
			for k, v := range rep.Floors {
				floors[r.part.Name+"."+k] = v
			}
			if rep.Rule != "" && !seenRule[rep.Rule] {
				seenRule[rep.Rule] = true
				rules = append(rules, "["+r.part.Name+"] "+rep.Rule)
			}
			for _, s := range rep.Samples {
				if perPartSamples[r.part.Name] < 3 && len(samples) < 12 {
					samples = append(samples, map[string]any{"part": r.part.Name, "case": s})
					perPartSamples[r.part.Name]++
				}
			}
			if rep.Exhaustive {
				exhaustive = true
			}
			for _, a := range rep.Assumptions {
				dup := false
				for _, x := range assumptions {
					if x == a {
						dup = true
					}
				}
				if !dup {
					assumptions = append(assumptions, a)
				}
			}
			for _, v := range rep.Violations {
				addV(v)
			}
			pi := map[string]any{"part": r.part.Name, "batch": r.batch, "bin": r.part.Bin, "evaluations": rep.Evaluations,
				"distinct_nontrivial": rep.Distinct, "wall_s": r.wall}
			if len(rep.Notes) > 0 {
				pi["notes"] = rep.Notes
			}
			partInfo = append(partInfo, pi)
		} else {
			partInfo = append(partInfo, map[string]any{"part": r.part.Name, "batch": r.batch, "bin": r.part.Bin, "no_report": true, "wall_s": r.wall})
		}
	}
	for k, min := range floors {
		if counters[k] < min {
			broken = append(broken, fmt.Sprintf("floor not reached: %s = %d < %d (monitor observed too little to conclude)", k, counters[k], min))
		}
	}

	// ---- known findings
	known, kerr := LoadKnown(filepath.Join(VerifRoot, "known_findings.json"))
	if kerr != nil {
		known = &KnownFile{}
	}
	isKnown := func(v *Violation) *Known {
		for i := range known.Entries {
			k := &known.Entries[i]
			if k.Status == "known" && k.Property == pl.Property && k.Signature == v.Signature {
				return k
			}
		}
		return nil
	}
	exit := 0
	var knownMatched, violated []map[string]any
	os.MkdirAll(filepath.Join(VerifRoot, "replays"), 0o755)
	for _, sig := range order {
		v := viols[sig]
		if k := isKnown(v); k != nil {
			fmt.Printf("KNOWN-FINDING: property=%s %s [signature %s, seen %d times]\n", pl.Property, k.What, sig, v.Count)
			knownMatched = append(knownMatched, map[string]any{"signature": sig, "count": v.Count})
			continue
		}
		rp := filepath.Join(VerifRoot, "replays", fmt.Sprintf("%s-%016x.json", pl.Property, HashString(sig)))
		rb, _ := json.MarshalIndent(map[string]any{"property": pl.Property, "tier": tier, "seed": seed, "signature": sig,
			"detail": v.Detail, "count": v.Count, "witness": v.Witness}, "", " ")
		os.WriteFile(rp, rb, 0o644)
		fmt.Printf("VIOLATION property=%s replay=%s\n", pl.Property, rp)
		fmt.Printf("  signature: %s\n  detail: %s\n", sig, firstLine(v.Detail, 400))
		violated = append(violated, map[string]any{"signature": sig, "count": v.Count, "detail": firstLine(v.Detail, 300), "replay": rp})
		exit = 1
	}

	// ---- evidence
	if evals < 1 {
		evals = 0
	}
	cov := map[string]any{
		"evaluations":          evals,
		"distinct_nontrivial":  distinct,
		"rule":                 strings.Join(rules, " || "),
		"samples":              samples,
		"counters":             counters,
		"parts":                partInfo,
		"inconclusive":         incon,
		"known_findings_seen":  knownMatched,
		"violations_reported":  violated,
		"exhaustive_subspaces": exhaustive,
	}
	ev := map[string]any{
		"property_id": pl.Property,
		"tier":        tier,
		"seed":        int64(seed),
		"level":       pl.Level,
		"coverage":    cov,
		"assumptions": assumptions,
		"wall_s":      time.Since(start).Seconds(),
		"violations":  len(violated),
	}
	if len(broken) > 0 {
		ev["broken"] = broken
	}
	eb, _ := json.MarshalIndent(ev, "", " ")
	os.MkdirAll(filepath.Join(VerifRoot, "evidence"), 0o755)
	if len(broken) == 0 || exit == 1 {
		os.WriteFile(filepath.Join(VerifRoot, "evidence", pl.Property+".json"), eb, 0o644)
	}
	fmt.Printf("%s tier=%s seed=%d evaluations=%d distinct_nontrivial=%d inconclusive=%d known=%d violations=%d wall=%.1fs\n",
		pl.Property, tier, seed, evals, distinct, incon, len(knownMatched), len(violated), time.Since(start).Seconds())
	if exit == 0 && len(broken) > 0 {
		for _, b := range broken {
			fmt.Println("BROKEN-CHECK:", b)
		}
		keep = true
		fmt.Println("work dir kept:", work)
		return 2
	}
	if exit == 1 {
		keep = keep || os.Getenv("VERIF_KEEP_ON_FAIL") != ""
	}
	return exit
}

func firstLine(s string, n int) string {
	s = strings.ReplaceAll(s, "\n", " ⏎ ")
	if len(s) > n {
		s = s[:n] + "…"
	}
	return s
}

func runChild(prop string, p Part, batch int, tier string, seed uint64, work string) childResult {
	res := childResult{part: p, batch: batch}
	tag := fmt.Sprintf("%s.%d", p.Name, batch)
	out := filepath.Join(work, tag+".report.json")
	journal := filepath.Join(work, tag+".journal")
	logf := filepath.Join(work, tag+".log")
	racep := filepath.Join(work, tag+".race")
	sandbox := filepath.Join(work, tag+".cwd")
	os.Remove(out)
	os.Remove(journal)
	os.MkdirAll(sandbox, 0o755)
	lf, err := os.Create(logf)
	if err != nil {
		res.broken = err.Error()
		return res
	}
	defer lf.Close()
	args := []string{"worker", prop, p.Name, "-tier", tier, "-seed", strconv.FormatUint(seed, 10),
		"-batch", strconv.Itoa(batch), "-out", out, "-journal", journal}
	cmd := exec.Command(binPath(p.Bin), args...)
	if p.MemLimitMB > 0 && p.Bin == "plain" {
		sh := fmt.Sprintf("ulimit -v %d; exec \"$0\" \"$@\"", p.MemLimitMB*1024)
		cmd = exec.Command("/bin/sh", append([]string{"-c", sh, binPath(p.Bin)}, args...)...)
	}
	cmd.Dir = sandbox
	cmd.Stdout = lf
	cmd.Stderr = lf
	cmd.Env = append(os.Environ(), "GORACE=halt_on_error=0 log_path="+racep, "GOTRACEBACK=all")
	cmd.Env = append(cmd.Env, p.Env...)
	cmd.SysProcAttr = &syscall.SysProcAttr{Setpgid: true}
	t0 := time.Now()
	if err := cmd.Start(); err != nil {
		res.broken = "cannot start worker: " + err.Error()
		return res
	}
	done := make(chan error, 1)
	go func() { done <- cmd.Wait() }()
	to := time.Duration(p.TimeoutS) * time.Second
	if to == 0 {
		to = 10 * time.Minute
	}
	var werr error
	select {
	case werr = <-done:
	case <-time.After(to):
		res.timeout = true
		cmd.Process.Signal(syscall.SIGQUIT) // goroutine dump into the log
		select {
		case werr = <-done:
		case <-time.After(10 * time.Second):
			syscall.Kill(-cmd.Process.Pid, syscall.SIGKILL)
			werr = <-done
		}
	}
	res.wall = time.Since(t0).Seconds()
	if b, err := os.ReadFile(out); err == nil {
		var rep Report
		if json.Unmarshal(b, &rep) == nil {
			res.report = &rep
		}
	}
	// race logs
	if files, _ := filepath.Glob(racep + ".*"); len(files) > 0 {
		for _, f := range files {
			vs, harnessOnly := ParseRaceLog(f)
			res.races = append(res.races, vs...)
			if harnessOnly > 0 && p.Races {
				res.broken = fmt.Sprintf("%d race report(s) entirely inside harness code (see %s)", harnessOnly, f)
			}
		}
	}
	if res.timeout {
		if res.report == nil {
			res.broken = fmt.Sprintf("worker %s hit the %ds wall-clock watchdog twice without a report (inconclusive); log %s", tag, p.TimeoutS, logf)
		}
		return res
	}
	if werr != nil || res.report == nil {
		// the child died: panic / fatal error => violation with a signature taken from its stderr
		if v := CrashFromLog(logf, journal); v != nil {
			res.crash = v
		} else if res.report == nil {
			res.broken = fmt.Sprintf("worker %s exited (%v) without report and without a Go panic in %s", tag, werr, logf)
		}
	}
	return res
}

var reGoroutine = regexp.MustCompile(`^goroutine \d+ `)

// CrashFromLog extracts "crash|<innermost repo fn>|<panic text>" from a Go crash dump.
func CrashFromLog(logf, journal string) *Violation {
	f, err := os.Open(logf)
	if err != nil {
		return nil
	}
	defer f.Close()
	sc := bufio.NewScanner(f)
	sc.Buffer(make([]byte, 1<<20), 1<<24)
	var text, inner string
	var excerpt []string
	state := 0
	for sc.Scan() {
		line := sc.Text()
		switch state {
		case 0:
			if strings.HasPrefix(line, "panic: ") || strings.HasPrefix(line, "fatal error: ") {
				text = line
				state = 1
				excerpt = append(excerpt, line)
			}
		case 1:
			if len(excerpt) < 40 {
				excerpt = append(excerpt, line)
			}
			if reGoroutine.MatchString(line) {
				state = 2
			}
		case 2:
			if len(excerpt) < 40 {
				excerpt = append(excerpt, line)
			}
			if line == "" {
				state = 3
				break
			}
			if strings.HasPrefix(line, RepoPrefix) && inner == "" {
				name := line
				if i := strings.LastIndex(name, "("); i > 0 {
					name = name[:i]
				}
				name = strings.TrimPrefix(name, RepoPrefix)
				if i := strings.LastIndex(name, "/"); i >= 0 {
					name = name[i+1:]
				}
				inner = stripClosure(name)
			}
		}
		if state == 3 {
			break
		}
	}
	if text == "" {
		return nil
	}
	if inner == "" {
		inner = "?"
	}
	t := strings.TrimPrefix(strings.TrimPrefix(text, "panic: "), "fatal error: ")
	if i := strings.Index(t, " [recovered]"); i > 0 {
		t = t[:i]
	}
	sig := "crash|" + inner + "|" + NormPanic(t)
	w := map[string]any{"stderr_excerpt": excerpt}
	if jb, err := os.ReadFile(journal); err == nil {
		lines := strings.Split(strings.TrimRight(string(jb), "\n"), "\n")
		if len(lines) > 12 {
			lines = lines[len(lines)-12:]
		}
		w["journal_tail"] = lines
	}
	return &Violation{Signature: sig, Detail: "process died: " + text + " in " + inner, Witness: w, Count: 1}
}

const HarnessPrefix = "verif/harness/"

// ParseRaceLog turns every "WARNING: DATA RACE" block into a violation
// "race|A <-> B" with A,B the innermost repository (or harness, prefixed H:) function of the two access stacks.
func ParseRaceLog(path string) (out []Violation, harnessOnly int) {
	b, err := os.ReadFile(path)
	if err != nil {
		return nil, 0
	}
	blocks := strings.Split(string(b), "==================")
	for _, blk := range blocks {
		if !strings.Contains(blk, "WARNING: DATA RACE") {
			continue
		}
		lines := strings.Split(blk, "\n")
		var stacks [][]string
		var cur []string
		in := false
		for _, l := range lines {
			tl := strings.TrimSpace(l)
			switch {
			case strings.HasPrefix(tl, "Write at") || strings.HasPrefix(tl, "Read at") || strings.HasPrefix(tl, "Previous write at") ||
				strings.HasPrefix(tl, "Previous read at") || strings.HasPrefix(tl, "Atomic") || strings.HasPrefix(tl, "Previous atomic"):
				if in {
					stacks = append(stacks, cur)
				}
				cur = nil
				in = true
			case strings.HasPrefix(tl, "Goroutine ") || tl == "":
				if in {
					stacks = append(stacks, cur)
					cur = nil
					in = false
				}
			default:
				if in && !strings.HasPrefix(l, "      ") && strings.HasSuffix(tl, ")") { // function line
					cur = append(cur, tl)
				}
			}
		}
		if in {
			stacks = append(stacks, cur)
		}
		names := []string{}
		harness := 0
		for _, st := range stacks {
			if len(names) == 2 {
				break
			}
			name := "?"
			for _, fn := range st {
				if i := strings.LastIndex(fn, "("); i > 0 {
					fn = fn[:i]
				}
				if strings.HasPrefix(fn, RepoPrefix) {
					n := strings.TrimPrefix(fn, RepoPrefix)
					if i := strings.LastIndex(n, "/"); i >= 0 {
						n = n[i+1:]
					}
					name = stripClosure(n)
					break
				}
				if strings.HasPrefix(fn, HarnessPrefix) {
					n := strings.TrimPrefix(fn, HarnessPrefix)
					if i := strings.LastIndex(n, "/"); i >= 0 {
						n = n[i+1:]
					}
					name = "H:" + stripClosure(n)
					harness++
					break
				}
			}
			names = append(names, name)
		}
		for len(names) < 2 {
			names = append(names, "?")
		}
		if harness == 2 {
			harnessOnly++
			continue
		}
		sort.Strings(names)
		sig := "race|" + names[0] + " <-> " + names[1]
		ex := blk
		if len(ex) > 3000 {
			ex = ex[:3000]
		}
		out = append(out, Violation{Signature: sig, Detail: "data race reported by the Go race detector between " + names[0] + " and " + names[1],
			Witness: map[string]any{"race_report": strings.Split(ex, "\n")}, Count: 1})
	}
	return out, harnessOnly
}

// Journal is an append-only, fsynced log of hostile inputs, written before they are sent.
type Journal struct {
	f    *os.File
	mu   sync.Mutex
	last []string // the most recent entries (witness for verdicts reached inside the child)
}

// Last returns the most recent journal entries (up to 6), newest last.
func (j *Journal) Last() string {
	if j == nil {
		return ""
	}
	j.mu.Lock()
	defer j.mu.Unlock()
	return strings.Join(j.last, " || ")
}

func OpenJournal(path string) *Journal {
	if path == "" {
		return &Journal{}
	}
	f, _ := os.OpenFile(path, os.O_CREATE|os.O_WRONLY|os.O_APPEND, 0o644)
	return &Journal{f: f}
}
func (j *Journal) Log(sync bool, format string, a ...any) {
	if j == nil || j.f == nil {
		return
	}
	j.mu.Lock()
	line := fmt.Sprintf(format, a...)
	if len(line) > 400 {
		j.last = append(j.last, line[:400]+"…")
	} else {
		j.last = append(j.last, line)
	}
	if len(j.last) > 6 {
		j.last = j.last[len(j.last)-6:]
	}
	fmt.Fprintln(j.f, line)
	if sync {
		j.f.Sync()
	}
	j.mu.Unlock()
}
