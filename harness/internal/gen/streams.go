package gen

import (
	"encoding/hex"
	"os"
	"path/filepath"
	"regexp"

	"verif/harness/internal/ref"
)

// LocBlock: 28-byte base location block with decimal BCD time.
func (g G) LocBlock() []byte {
	b := g.Bytes(28)
	for i := 22; i < 28; i++ {
		b[i] = byte(g.Intn(10))<<4 | byte(g.Intn(10))
	}
	return b
}

var stdItemIDs = []byte{1, 2, 3, 4, 5, 6, 0x11, 0x12, 0x13, 0x25, 0x2a, 0x2b, 0x30, 0x31}

// AdditionItem: one well-formed additional-information item (standard, vendor extension 0x64..0x70, or unknown).
func (g G) AdditionItem() []byte {
	var id byte
	var l int
	switch g.Intn(5) {
	case 0, 1:
		id = stdItemIDs[g.Intn(len(stdItemIDs))]
		ls := ref.StdItemLen[id]
		l = ls[g.Intn(len(ls))]
	case 2:
		id = []byte{0x64, 0x65, 0x66, 0x67, 0x70}[g.Intn(5)]
		switch id {
		case 0x64, 0x65, 0x70:
			l = 47
		case 0x67:
			l = 41
		default:
			n := g.Intn(4)
			l = 41 + 9*n // the standard's form: 41 + 9n (count byte + n entries)
			if g.Chance(1, 2) {
				l = 40 + 9*(n+g.Intn(2)) // the form the library's parser insists on
			}
		}
	default:
		id = g.U8()
		l = g.Intn(24)
		if ls := ref.StdItemLen[id]; ls != nil {
			l = ls[0]
		}
	}
	ct := g.Bytes(l)
	if id == 0x66 && l > 40 {
		ct[40] = byte((l - 41) / 9)
		if (l-40)%9 == 0 {
			ct[40] = byte((l - 40) / 9)
		}
	}
	if id == 0x11 && l == 1 {
		ct[0] = 0
	}
	if id == 0x11 && l == 5 && ct[0] == 0 {
		ct[0] = 1
	}
	return append([]byte{id, byte(l)}, ct...)
}

// LocBody: base block + 0..maxItems items.
func (g G) LocBody(maxItems int) []byte {
	b := g.LocBlock()
	for k := g.Intn(maxItems + 1); k > 0; k-- {
		b = append(b, g.AdditionItem()...)
	}
	return b
}

// Batch0704: count + type + items each with its own length prefix (items may carry additional information).
func (g G) Batch0704(maxItems int) []byte {
	n := 1 + g.Intn(maxItems)
	b := []byte{byte(n >> 8), byte(n), g.U8()}
	for i := 0; i < n; i++ {
		it := g.LocBody(3)
		b = append(b, byte(len(it)>>8), byte(len(it)))
		b = append(b, it...)
	}
	return b
}

// CorpusBodies: message bodies of the hex frames embedded in the repository's own tests / test data, by message ID.
func CorpusBodies(repo string) map[uint16][][]byte {
	out := map[uint16][][]byte{}
	re := regexp.MustCompile(`(7[eE][0-9a-fA-F]{20,}7[eE])`)
	var files []string
	for _, pat := range []string{"protocol/model/*_test.go", "protocol/jt808/*_test.go", "terminal/testdata/*.txt", "terminal/*_test.go", "service/*_test.go", "protocol/model/testdata/*"} {
		m, _ := filepath.Glob(filepath.Join(repo, pat))
		files = append(files, m...)
	}
	seen := map[string]bool{}
	for _, f := range files {
		data, err := os.ReadFile(f)
		if err != nil {
			continue
		}
		for _, m := range re.FindAll(data, -1) {
			if len(m)%2 != 0 || seen[string(m)] {
				continue
			}
			seen[string(m)] = true
			b, err := hex.DecodeString(string(m))
			if err != nil {
				continue
			}
			fr, ok := ref.Validate(b)
			if !ok {
				continue
			}
			out[fr.ID] = append(out[fr.ID], append([]byte{}, fr.Body...))
		}
	}
	return out
}
