// Package gen: seeded generators of in-domain message values (C07 rules, DESIGN Appendix D), of
// encoded bodies and of frames. Shares nothing with /repo except the exported model types it fills in.
package gen

import (
	"encoding/binary"
	"fmt"
	"reflect"
	"strings"
	"sync"
	"unicode/utf8"

	"golang.org/x/text/encoding/simplifiedchinese"

	"github.com/cuteLittleDevil/go-jt808/protocol/jt808"
	"github.com/cuteLittleDevil/go-jt808/protocol/model"
	"github.com/cuteLittleDevil/go-jt808/shared/consts"

	"verif/harness/internal/core"
)

type TwoWay interface {
	Parse(*jt808.JTMessage) error
	Encode() []byte
}

type G struct{ *core.Rand }

func (g G) U8() byte    { return g.Byte() }
func (g G) N(n int) int { return g.Intn(n) }

// Str: printable ASCII of exact length n.
func (g G) Str(n int) string {
	b := make([]byte, n)
	for i := range b {
		b[i] = byte(0x21 + g.Intn(0x5e))
	}
	return string(b)
}

// plausible text: values an operator or a device really puts into string fields, in forms that a "helpful" encoder
// would normalise (IPv4-mapped IPv6 literals, upper-case host names, trailing dots and spaces, leading zeros, default
// ports): string fields are opaque to the protocol and must come back exactly as given.
var plausibleText = []string{
	"::ffff:10.0.0.1", "::FFFF:192.168.1.1", "0:0:0:0:0:ffff:a00:1", "::ffff:0a00:0001", "::ffff:127.0.0.1", "::1", "[::1]", "::",
	"127.0.0.1", "010.001.001.001", "1.2.3.4", "1.2.3.04", "0x7f.0.0.1", "2001:db8::1", "2001:0db8:0000:0000:0000:0000:0000:0001",
	"2001:DB8::1", "fe80::1%eth0", "192.168.1.1:8080", "localhost", "LOCALHOST", "0.0.0.0", "255.255.255.255", "1.2.3", "1.2.3.4.",
	"EXAMPLE.COM", "example.com.", "Example.Com", "http://a.com:80/", "HTTP://A.COM", "http://a.com/%7e", "a.com/../b", "ftp://u:p@h/x",
	"xn--fiq228c.cn", "a.com:0808", "https://a.com:443",
	" lead", "trail ", "\ttab", "a  b", "x\r\n", "x\n", " ", "  ",
	"007", "+8613800138000", "013800138000", "1e3", "0x10", "1.0", "-0", "+1", "00", "0", "1,000",
	"AbC", "TRUE", "true", "null", "NaN", "nil",
	"a/../b", "./a", "a//b", "C:\\x", "/", "a/", "..", "../a.jpg", "../../x.bin", "../02_65_6502_1_abc.mp4", "..\\x.jpg", "/abs/x", "./x.jpg", "~/x", "a/./b",
	"%41", "%7E", "&amp;", "\\n", "a+b", "a%20b",
	"CMNET", "cmnet", "3gnet", "CMNET ", "card", "",
}

// Plausible: a dictionary text of at most max bytes ("" and false when none fits).
func (g G) Plausible(max int) (string, bool) {
	for try := 0; try < 6; try++ {
		t := plausibleText[g.Intn(len(plausibleText))]
		if len(t) <= max {
			return t, true
		}
	}
	return "", false
}

// Enum8: a byte that is an enumeration on the wire: half the time one of the first few values (0 included)
func (g G) Enum8() byte {
	if g.Chance(1, 2) {
		return byte(g.Intn(6))
	}
	return g.U8()
}

// magic words: the first bytes of file formats and of this protocol's own markers, as values of 32-bit fields
var magicWords = []uint32{0xFFD8FFE0, 0xFFD8FFE1, 0xFFD8FFDB, 0xFFD8FF00, 0x89504E47, 0x47494638, 0x52494646, 0x00000001, 0x000001BA, 0x000001B3,
	0x49443303, 0xFFFB9000, 0xFFF15080, 0x1A45DFA3, 0x66747970, 0x7E7E7E7E, 0x7D017D02, 0x7D027D01, 0x30316364, 0x3031636400 >> 8, 0x23232323, 0x2A2A2A2A}

// Word32: a 32-bit field value: mostly uniform, sometimes a magic word, sometimes a small number
func (g G) Word32() uint32 {
	switch g.Intn(10) {
	case 0:
		return magicWords[g.Intn(len(magicWords))]
	case 1:
		return uint32(g.Intn(4))
	}
	return g.U32()
}

// Len8: length of a string carried behind a one-byte length prefix: mostly small (0..small), every fourth time anywhere
// in 0..255 with the boundary values over-represented (byte arithmetic on offsets wraps beyond 255 - header size).
func (g G) Len8(small int) int {
	if !g.Chance(1, 4) {
		return g.Intn(small + 1)
	}
	if g.Chance(1, 2) {
		return []int{127, 128, 200, 231, 232, 233, 240, 245, 250, 253, 254, 255}[g.Intn(12)]
	}
	return g.Intn(256)
}

// Raw: arbitrary bytes of length n.
func (g G) Raw(n int) string { return string(g.Bytes(n)) }

// FileName: an attachment file name of 1..max bytes: a third of the time a dictionary text (path-like names included:
// the codec carries names verbatim, whatever the file server later does with them), otherwise arbitrary bytes.
func (g G) FileName(max int) string {
	if g.Chance(1, 3) {
		if t, ok := g.Plausible(max); ok && len(t) >= 1 {
			return t
		}
	}
	return g.Raw(1 + g.Intn(max))
}

// Fixed: value of a fixed-width NUL-padded field of width max: length 0..max, arbitrary bytes,
// no trailing NUL (trimRight) and — when both is set — no leading NUL either (fields parsed with bytes.Trim).
func (g G) Fixed(max int, both bool) string {
	n := g.Intn(max + 1)
	if g.Chance(1, 5) {
		n = max
	}
	var b []byte
	if g.Chance(1, 2) {
		b = []byte(g.Str(n))
	} else {
		b = g.Bytes(n)
	}
	if g.Chance(1, 8) {
		if t, ok := g.Plausible(max); ok {
			b = []byte(t)
			if g.Chance(1, 3) { // a device that pads with spaces up to the full width
				for len(b) < max {
					b = append(b, ' ')
				}
			}
			n = len(b)
		}
	}
	if n > 0 {
		if b[n-1] == 0 {
			b[n-1] = 0x41
		}
		if both && b[0] == 0 {
			b[0] = 0x42
		}
	}
	return string(b)
}

// NoNul: bytes of length 0..max without any NUL (fields cut at the first NUL).
func (g G) NoNul(max int) string {
	n := g.Intn(max + 1)
	b := g.Bytes(n)
	for i := range b {
		if b[i] == 0 {
			b[i] = 0x30
		}
	}
	if g.Chance(1, 8) {
		if t, ok := g.Plausible(max); ok {
			return t
		}
	}
	return string(b)
}

func (g G) TS() string {
	switch g.Intn(8) {
	case 0, 1, 2: // a date that exists (renderers that compute with times only get going on those)
		return fmt.Sprintf("20%02d-%02d-%02d %02d:%02d:%02d", g.Intn(100), 1+g.Intn(12), 1+g.Intn(28), g.Intn(24), g.Intn(60), g.Intn(60))
	case 3:
		return []string{"2000-01-01 00:00:00", "2099-12-31 23:59:59", "2024-02-29 12:00:00", "2023-02-29 12:00:00", "2000-00-00 00:00:00",
			"2024-12-31 23:59:60", "2038-01-19 03:14:07", "2038-01-19 03:14:08", "2070-01-01 00:00:00", "2024-10-01 12:30:00"}[g.Intn(10)]
	}
	return fmt.Sprintf("20%02d-%02d-%02d %02d:%02d:%02d", g.Intn(100), g.Intn(100), g.Intn(100), g.Intn(100), g.Intn(100), g.Intn(100))
}

// TSPair: start and end of an interval: independent; equal; or related — the end is the start with ONE field changed, the
// start made of one two-digit number repeated (12-12-12 12:12:12: its BCD bytes are the same shifted by one, so a parser
// that compares the wrong six bytes sees "equal"), or the end shifted by exactly one field position.
func (g G) TSPair() (string, string) {
	switch g.Intn(6) {
	case 0:
		s := g.TS()
		return s, s
	case 1:
		s := g.TS()
		b := []byte(s)
		// change one digit of one field (positions of the digits in "20YY-MM-DD hh:mm:ss")
		pos := []int{2, 3, 5, 6, 8, 9, 11, 12, 14, 15, 17, 18}[g.Intn(12)]
		b[pos] = byte('0' + (int(b[pos]-'0')+1+g.Intn(8))%10)
		return s, string(b)
	case 2:
		k := []int{12, 11, 10, 1, 2, 5, 9, 20, 22, 23, 0, 59}[g.Intn(12)]
		s := fmt.Sprintf("20%02d-%02d-%02d %02d:%02d:%02d", k, k, k, k, k, k)
		e := []byte(s)
		pos := []int{17, 18, 14, 15}[g.Intn(4)]
		e[pos] = byte('0' + (int(e[pos]-'0')+1+g.Intn(4))%6)
		if g.Bool() {
			return s, string(e)
		}
		return string(e), s
	case 3:
		// the end's fields are the start's fields moved up by one: yy<-mm, mm<-dd, dd<-hh, hh<-mm, mm<-ss, ss random
		var f [6]int
		for i := range f {
			f[i] = g.Intn(60)
		}
		s := fmt.Sprintf("20%02d-%02d-%02d %02d:%02d:%02d", f[0], f[1], f[2], f[3], f[4], f[5])
		e := fmt.Sprintf("20%02d-%02d-%02d %02d:%02d:%02d", f[1], f[2], f[3], f[4], f[5], g.Intn(60))
		return s, e
	}
	return g.TS(), g.TS()
}

// ListLen: 0,1,2,3,max or random.
func (g G) ListLen(max int) int {
	switch g.Intn(8) {
	case 0:
		return 0
	case 1:
		return 1
	case 2:
		return 2
	case 3:
		return 3
	case 4:
		return max
	}
	if max > 12 && g.Chance(3, 4) {
		return g.Intn(12)
	}
	if g.Chance(1, 2) { // counts next to powers of two (buffer growth, 8-bit products) that fit
		var bs []int
		for _, b := range []int{15, 16, 17, 31, 32, 33, 63, 64, 65, 127, 128, 129, 254, 255} {
			if b <= max {
				bs = append(bs, b)
			}
		}
		if len(bs) > 0 {
			return bs[g.Intn(len(bs))]
		}
	}
	return g.Intn(max + 1)
}

var (
	gbkOnce  sync.Once
	gbkRunes []rune
)

// GBKRunes: every BMP code point >= 0x80 for which x/text's GBK encoder followed by its decoder is the identity,
// plus printable ASCII. Computed with x/text directly (independent of protocol/utils).
func GBKRunes() []rune {
	gbkOnce.Do(func() {
		enc := simplifiedchinese.GBK.NewEncoder()
		dec := simplifiedchinese.GBK.NewDecoder()
		for r := rune(0x20); r < 0x7f; r++ {
			gbkRunes = append(gbkRunes, r)
		}
		for r := rune(0x80); r <= 0xffff; r++ {
			if r >= 0xd800 && r <= 0xdfff {
				continue
			}
			b, err := enc.Bytes([]byte(string(r)))
			if err != nil || len(b) == 0 {
				continue
			}
			back, err := dec.Bytes(b)
			if err != nil || string(back) != string(r) {
				continue
			}
			gbkRunes = append(gbkRunes, r)
		}
	})
	return gbkRunes
}

func GBKEncode(s string) []byte {
	b, _ := simplifiedchinese.GBK.NewEncoder().Bytes([]byte(s))
	return b
}

// gbkEdge: runes at the edges of the GBK code space (computed once): the single-byte 0x80 (the euro sign in Go's table), the
// lowest / highest lead bytes (81, fe), trail bytes 40, 7e, 80, fe, and encodings whose bytes are also valid UTF-8 (lead c2..df,
// trail 80..bf) — the places where "is this ASCII / UTF-8 / one byte?" shortcuts go wrong.
var (
	gbkEdgeOnce sync.Once
	gbkEdge     []rune
)

// GBKEdgeRunes exports the edge runes (see gbkEdgeRunes).
func GBKEdgeRunes() []rune { return gbkEdgeRunes() }

func gbkEdgeRunes() []rune {
	gbkEdgeOnce.Do(func() {
		enc := simplifiedchinese.GBK.NewEncoder()
		per := map[string]int{}
		for _, r := range GBKRunes()[95:] {
			b, err := enc.Bytes([]byte(string(r)))
			if err != nil {
				continue
			}
			class := ""
			switch {
			case len(b) == 1:
				class = "single"
			case b[0] == 0x81, b[0] == 0xfe:
				class = fmt.Sprintf("lead%02x", b[0])
			case b[1] == 0x40, b[1] == 0x7e, b[1] == 0x80, b[1] == 0xfe, b[1] == 0x7d, b[1] == 0x5c:
				class = fmt.Sprintf("trail%02x", b[1])
			case b[0] >= 0xc2 && b[0] <= 0xdf && b[1] >= 0x80 && b[1] <= 0xbf:
				class = "utf8-lookalike"
			}
			if class != "" && per[class] < 6 {
				per[class]++
				gbkEdge = append(gbkEdge, r)
			}
		}
	})
	return gbkEdge
}

// gbkUTF8Pairs: two-character GBK texts whose four bytes  b0 b1 b2 b3  read as a UTF-8 three-byte sequence followed by an ASCII
// byte (b0 in e0..ef, b1 b2 in 80..bf, b3 in 40..7e) — the byte-order mark ef bb bf among them. Followed by ASCII, the whole
// GBK encoding is valid UTF-8: text that any "is this already UTF-8?" shortcut misreads.
var (
	gbkPairOnce sync.Once
	gbkPairs    []string
)

func gbkUTF8Pairs() []string {
	gbkPairOnce.Do(func() {
		dec := simplifiedchinese.GBK.NewDecoder()
		enc := simplifiedchinese.GBK.NewEncoder()
		try := func(b []byte) {
			if !utf8.Valid(b) {
				return
			}
			u, err := dec.Bytes(b)
			if err != nil || !utf8.Valid(u) || strings.ContainsRune(string(u), utf8.RuneError) {
				return
			}
			back, err := enc.Bytes(u)
			if err != nil || string(back) != string(b) {
				return
			}
			gbkPairs = append(gbkPairs, string(u))
		}
		// mojibake of real-world texts: the UTF-8 bytes of a province abbreviation + letter (a licence plate prefix), of CJK
		// punctuation and of a few common words, READ AS GBK — the resulting (odd-looking) text is perfectly GBK-encodable and its
		// GBK bytes are the UTF-8 spelling of something plausible: what "looks like UTF-8 / looks like a plate" shortcuts misread
		for _, w := range []string{"京", "津", "沪", "渝", "冀", "豫", "云", "辽", "黑", "湘", "皖", "鲁", "新", "苏", "浙", "赣", "鄂", "桂", "甘", "晋", "蒙", "陕", "吉", "闽", "贵", "粤", "青", "藏", "川", "宁", "琼", "警", "学", "挂", "·", "测试", "中国"} {
			for _, tail := range []string{"A", "B", "Z", "0", "a"} {
				try([]byte(w + tail))
				try([]byte(w + w + tail))
			}
		}
		try([]byte{0xef, 0xbb, 0xbf, 0x41}) // the UTF-8 byte-order mark
		try([]byte{0xef, 0xbb, 0xbf, 0x61})
		for b0 := 0xe0; b0 <= 0xef; b0++ {
			for _, b1 := range []int{0x80, 0x9f, 0xa0, 0xbb, 0xbf} {
				for _, b2 := range []int{0x81, 0xa0, 0xbf} {
					for _, b3 := range []int{0x40, 0x41, 0x7e} {
						try([]byte{byte(b0), byte(b1), byte(b2), byte(b3)})
					}
				}
			}
		}
	})
	return gbkPairs
}

func (g G) GBK(maxRunes int) string {
	rs := GBKRunes()
	n := g.Intn(maxRunes + 1)
	if g.Chance(1, 12) {
		if t, ok := g.Plausible(maxRunes); ok {
			return t
		}
	}
	if n >= 2 && g.Chance(1, 12) {
		if ps := gbkUTF8Pairs(); len(ps) > 0 {
			out := []rune(ps[g.Intn(len(ps))])
			for len(out) < n {
				out = append(out, rs[g.Intn(95)])
			}
			return string(out)
		}
	}
	if n > 0 && g.Chance(1, 5) {
		// ASCII text with exactly one rune from the edges of the code space (alone, first, last or in the middle)
		e := gbkEdgeRunes()
		r := make([]rune, n)
		for i := range r {
			r[i] = rs[g.Intn(95)]
		}
		if len(e) > 0 {
			r[[]int{0, n - 1, g.Intn(n)}[g.Intn(3)]] = e[g.Intn(len(e))]
		}
		return string(r)
	}
	r := make([]rune, n)
	for i := range r {
		if g.Chance(1, 3) {
			r[i] = rs[g.Intn(95)]
		} else {
			r[i] = rs[g.Intn(len(rs))]
		}
	}
	return string(r)
}

// GBKLong: text whose GBK encoding has at most maxBytes bytes, long: a target length near the limit (or anywhere), filled
// with a run of ONE character (ASCII, a two-byte character, an edge code point such as the one-byte euro sign whose UTF-8
// form is three times as long), with two alternating characters, or with random round-trippable characters.
func (g G) GBKLong(maxBytes int) string {
	target := maxBytes - g.Intn(3)
	if g.Chance(1, 3) {
		target = 1 + g.Intn(maxBytes)
	}
	rs := GBKRunes()
	edge := gbkEdgeRunes()
	pick := func() rune {
		switch g.Intn(4) {
		case 0:
			return rs[g.Intn(95)]
		case 1:
			if len(edge) > 0 {
				return edge[g.Intn(len(edge))]
			}
		case 2:
			return '\u20ac'
		}
		return rs[g.Intn(len(rs))]
	}
	var out []rune
	n := 0
	add := func(r rune) bool {
		l := len(GBKEncode(string(r)))
		if l == 0 || n+l > target {
			return false
		}
		out = append(out, r)
		n += l
		return true
	}
	switch g.Intn(3) {
	case 0: // one character repeated
		r := pick()
		for add(r) {
		}
	case 1: // two characters alternating
		a, b := pick(), pick()
		for add(a) && add(b) {
		}
	default:
		for tries := 0; tries < 2*maxBytes && n < target; tries++ {
			add(pick())
		}
	}
	for n < target && add(rs[g.Intn(95)]) { // fill up with ASCII to the exact target
	}
	return string(out)
}

func (g G) Loc() model.T0x0200LocationItem {
	return model.T0x0200LocationItem{AlarmSign: g.Word32(), StatusSign: g.Word32(), Latitude: g.Word32(), Longitude: g.Word32(), Altitude: g.U16(), Speed: g.U16(), Direction: g.U16(), DateTime: g.TS()}
}

// LocAfter: the next item of a batch given the previous one: a fresh item, an identical one (a parked vehicle), one that
// differs in a single field, or one whose fields hold the previous item's hex digits shifted across a field boundary
// (alarm 0x12,status 0x3 after alarm 0x1,status 0x23: anything that identifies items by their concatenated fields confuses them).
func (g G) LocAfter(prev model.T0x0200LocationItem) model.T0x0200LocationItem {
	it := prev
	switch g.Intn(5) {
	case 0:
		return it
	case 1:
		switch g.Intn(7) {
		case 0:
			it.AlarmSign ^= 1 << g.Intn(32)
		case 1:
			it.StatusSign ^= 1 << g.Intn(32)
		case 2:
			it.Latitude++
		case 3:
			it.Longitude--
		case 4:
			it.Altitude++
		case 5:
			it.Speed++
		case 6:
			it.Direction++
		}
		return it
	}
	return g.Loc()
}

// LocShiftable: an item whose neighbouring fields are small numbers (so that LocAfter's digit shift applies to it)
func (g G) LocShiftBase() (first, second model.T0x0200LocationItem) {
	hexlen := func(v uint32) uint {
		n := uint(1)
		for v >= 16 {
			v >>= 4
			n++
		}
		return n
	}
	first = g.Loc()
	a, b := uint32(0x10+g.Intn(0xff0)), uint32(g.Intn(0x1000))
	if a&15 == 0 {
		a |= 1 + uint32(g.Intn(15))
	}
	a2, b2 := a>>4, (a&15)<<(4*hexlen(b))|b
	second = first
	switch g.Intn(4) {
	case 0:
		first.AlarmSign, first.StatusSign = a, b
		second.AlarmSign, second.StatusSign = a2, b2
	case 1:
		first.StatusSign, first.Latitude = a, b
		second.StatusSign, second.Latitude = a2, b2
	case 2:
		first.Latitude, first.Longitude = a, b
		second.Latitude, second.Longitude = a2, b2
	case 3:
		first.Altitude, first.Speed = uint16(a), uint16(b)
		second.Altitude, second.Speed = uint16(a2), uint16(b2)
	}
	return
}

func IDLen(d consts.ActiveSafetyType) int {
	switch d {
	case consts.ActiveSafetyHLJ, consts.ActiveSafetyGD, consts.ActiveSafetySC:
		return 30
	}
	return 7
}
func SignLen(d consts.ActiveSafetyType) int {
	switch d {
	case consts.ActiveSafetyHLJ:
		return 38
	case consts.ActiveSafetyGD:
		return 40
	case consts.ActiveSafetyHN:
		return 32
	case consts.ActiveSafetySC:
		return 39
	}
	return 16
}

var Dialects = []consts.ActiveSafetyType{consts.ActiveSafetyJS, consts.ActiveSafetyHLJ, consts.ActiveSafetyGD, consts.ActiveSafetyHN, consts.ActiveSafetySC}

func (g G) Sign(d consts.ActiveSafetyType) model.P9208AlarmSign {
	res := g.Bytes(SignLen(d) - IDLen(d) - 8)
	return model.P9208AlarmSign{TerminalID: g.Fixed(IDLen(d), true), Time: g.TS(), SerialNumber: g.U8(), AttachNumber: g.U8(), AlarmReserve: res, ActiveSafetyType: d}
}

type TCase struct {
	Name    string // type/variant
	Type    string // Go type name, e.g. T0x0100
	ID      uint16
	Ver     consts.ProtocolVersionType // header version handed to Parse
	Dialect consts.ActiveSafetyType
	Val     TwoWay
	Mk      func() TwoWay
	Side    bool // labelled sub-run outside the main in-domain set (known heuristic limits)
}

const (
	V11 = consts.JT808Protocol2011
	V13 = consts.JT808Protocol2013
	V19 = consts.JT808Protocol2019
)

// TerminalParams fills a TerminalParamDetails by reflection: every ParamContent field whose name carries its ID.
// which(fieldIndex) decides whether the field is populated.
func (g G) TerminalParams(pick func(name string) bool) (tp model.TerminalParamDetails, count int) {
	rv := reflect.ValueOf(&tp).Elem()
	for i := 0; i < rv.NumField(); i++ {
		f := rv.Type().Field(i)
		if !strings.HasPrefix(f.Name, "T0x") || !pick(f.Name) {
			continue
		}
		var id uint32
		fmt.Sscanf(f.Name[3:6], "%x", &id)
		fv := rv.Field(i)
		if fv.Kind() != reflect.Struct || !fv.FieldByName("Value").IsValid() {
			continue
		}
		fv.FieldByName("ID").SetUint(uint64(id))
		val := fv.FieldByName("Value")
		switch val.Kind() {
		case reflect.Uint32:
			val.SetUint(uint64(g.U32()))
			fv.FieldByName("Len").SetUint(4)
		case reflect.Uint16:
			val.SetUint(uint64(g.U16()))
			fv.FieldByName("Len").SetUint(2)
		case reflect.Uint8:
			val.SetUint(uint64(g.U8()))
			fv.FieldByName("Len").SetUint(1)
		case reflect.String:
			s := g.GBK(6) + g.Str(1+g.Intn(5))
			if g.Chance(1, 4) {
				s = g.GBKLong(255) // the length byte allows 255 GBK bytes: long values, runs of one character, exact limits
			}
			val.SetString(s)
			fv.FieldByName("Len").SetUint(uint64(len(GBKEncode(s))))
		case reflect.Array:
			for k := 0; k < val.Len(); k++ {
				val.Index(k).SetUint(uint64(g.U8()))
			}
			fv.FieldByName("Len").SetUint(uint64(val.Len()))
		case reflect.Slice:
			b := g.Bytes(1 + g.Intn(12))
			val.SetBytes(b)
			fv.FieldByName("Len").SetUint(uint64(len(b)))
		default:
			continue
		}
		count++
	}
	return
}

// ParamFieldIDs: IDs that have a struct field in TerminalParamDetails.
func ParamFieldIDs() map[uint32]string {
	out := map[uint32]string{}
	t := reflect.TypeOf(model.TerminalParamDetails{})
	for i := 0; i < t.NumField(); i++ {
		f := t.Field(i)
		if strings.HasPrefix(f.Name, "T0x") {
			var id uint32
			fmt.Sscanf(f.Name[3:6], "%x", &id)
			out[id] = f.Name
		}
	}
	return out
}

// Cases returns one in-domain value per two-way type/variant.
// BigCases: in-domain values whose encoded body exceeds 65535 bytes (they reach a server as sub-packaged messages of up to
// 255 x 1023 bytes): list counts are 16/32-bit fields, so tens of thousands of entries are representable. Offsets computed in
// 16-bit arithmetic wrap at these sizes.
func BigCases(g G) []TCase {
	var out []TCase
	for _, n := range []int{16382, 16383, 16384, 20000, 32767, 32768, 49151, 65000, 65535} {
		t := &model.T0x0805{RespondSerialNumber: g.U16(), Result: g.U8(), MultimediaIDNumber: uint16(n)}
		for i := 0; i < n; i++ {
			t.MultimediaIDList = append(t.MultimediaIDList, g.U32())
		}
		out = append(out, TCase{Name: fmt.Sprintf("T0x0805/%d-ids", n), Type: "T0x0805", ID: 0x0805, Ver: V13, Val: t, Mk: func() TwoWay { return &model.T0x0805{} }})
	}
	for _, n := range []int{2184, 2185, 2400} {
		t := &model.T0x0704{Num: uint16(n), LocationType: g.U8()}
		near := g.Chance(1, 2) // a batch from a vehicle that hardly moved: identical and nearly identical items
		var pending *model.T0x0200LocationItem
		for i := 0; i < n; i++ {
			var it model.T0x0200LocationItem
			switch {
			case pending != nil:
				it, pending = *pending, nil
			case near && g.Chance(1, 3):
				var nx model.T0x0200LocationItem
				it, nx = g.LocShiftBase()
				pending = &nx
			case near && i > 0:
				it = g.LocAfter(t.Items[i-1].T0x0200LocationItem)
			default:
				it = g.Loc()
			}
			t.Items = append(t.Items, model.T0x0704LocationItem{Len: 28, T0x0200LocationItem: it})
		}
		out = append(out, TCase{Name: fmt.Sprintf("T0x0704/%d-items", n), Type: "T0x0704", ID: 0x0704, Ver: V13, Val: t, Mk: func() TwoWay { return &model.T0x0704{} }})
	}
	for _, n := range []int{2340, 2341, 4000} {
		t := &model.T0x1205{SerialNumber: g.U16(), AudioVideoResourceTotal: uint32(n)}
		for i := 0; i < n; i++ {
			st, et := g.TSPair()
			t.AudioVideoResourceList = append(t.AudioVideoResourceList, model.T0x1205AudioVideoResource{ChannelNo: g.U8(), StartTime: st, EndTime: et, AlarmFlag: g.U64(), AudioVideoResourceType: g.U8(), StreamType: g.U8(), MemoryType: g.U8(), FileSizeByte: g.U32()})
		}
		out = append(out, TCase{Name: fmt.Sprintf("T0x1205/%d-resources", n), Type: "T0x1205", ID: 0x1205, Ver: V13, Val: t, Mk: func() TwoWay { return &model.T0x1205{} }})
	}
	return out
}

func Cases(g G) []TCase {
	var out []TCase
	add := func(name, typ string, id uint16, ver consts.ProtocolVersionType, v TwoWay, mk func() TwoWay) {
		out = append(out, TCase{Name: name, Type: typ, ID: id, Ver: ver, Val: v, Mk: mk})
	}
	add("T0x0001", "T0x0001", 0x0001, V13, &model.T0x0001{SerialNumber: g.U16(), ID: g.U16(), Result: g.U8()}, func() TwoWay { return &model.T0x0001{} })
	// 0x0100: version 2011 keeps the identifier <= 11 GBK bytes (main run); longer ones are a labelled side run
	plate11 := func() string {
		for {
			s := g.GBK(5)
			if len(GBKEncode(s)) <= 11 {
				return s
			}
		}
	}
	add("T0x0100/2011", "T0x0100", 0x0100, V13, &model.T0x0100{ProvinceID: g.U16(), CityID: g.U16(), ManufacturerID: g.Fixed(5, false), TerminalModel: g.Fixed(8, false), TerminalID: g.Fixed(7, false), PlateColor: g.U8(), LicensePlateNumber: plate11(), Version: V11}, func() TwoWay { return &model.T0x0100{} })
	out = append(out, TCase{Name: "T0x0100/2011-long-identifier", Type: "T0x0100", ID: 0x0100, Ver: V13, Side: true,
		Val: &model.T0x0100{ProvinceID: g.U16(), CityID: g.U16(), ManufacturerID: g.Fixed(5, false), TerminalModel: g.Fixed(8, false), TerminalID: g.Fixed(7, false), PlateColor: 0, LicensePlateNumber: g.Str(12 + g.Intn(8)), Version: V11},
		Mk:  func() TwoWay { return &model.T0x0100{} }})
	add("T0x0100/2013", "T0x0100", 0x0100, V13, &model.T0x0100{ProvinceID: g.U16(), CityID: g.U16(), ManufacturerID: g.Fixed(5, false), TerminalModel: g.Fixed(20, false), TerminalID: g.Fixed(7, false), PlateColor: g.U8(), LicensePlateNumber: g.GBK(9), Version: V13}, func() TwoWay { return &model.T0x0100{} })
	add("T0x0100/2019", "T0x0100", 0x0100, V19, &model.T0x0100{ProvinceID: g.U16(), CityID: g.U16(), ManufacturerID: g.Fixed(11, false), TerminalModel: g.Fixed(30, false), TerminalID: g.Fixed(30, false), PlateColor: g.U8(), LicensePlateNumber: g.GBK(9), Version: V19}, func() TwoWay { return &model.T0x0100{} })
	// 0x0102
	add("T0x0102/2013", "T0x0102", 0x0102, V13, &model.T0x0102{AuthCode: g.Raw(g.Intn(40)), Version: V13}, func() TwoWay { return &model.T0x0102{} })
	acl := g.Intn(256)
	if g.Chance(1, 2) {
		acl = g.Intn(24)
	}
	ac := g.Raw(acl)
	add("T0x0102/2019", "T0x0102", 0x0102, V19, &model.T0x0102{AuthCodeLen: byte(len(ac)), AuthCode: ac, TerminalIMEI: g.Raw(15), SoftwareVersion: g.NoNul(20), Version: V19}, func() TwoWay { return &model.T0x0102{} })
	add("T0x0200", "T0x0200", 0x0200, V13, &model.T0x0200{T0x0200LocationItem: g.Loc()}, func() TwoWay { return &model.T0x0200{} })
	{
		n := 1 + g.ListLen(30) // parser demands >= 31 bytes: at least one item
		t := &model.T0x0704{Num: uint16(n), LocationType: g.U8()}
		near := g.Chance(1, 2) // a batch from a vehicle that hardly moved: identical and nearly identical items
		var pending *model.T0x0200LocationItem
		for i := 0; i < n; i++ {
			var it model.T0x0200LocationItem
			switch {
			case pending != nil:
				it, pending = *pending, nil
			case near && g.Chance(1, 3):
				var nx model.T0x0200LocationItem
				it, nx = g.LocShiftBase()
				pending = &nx
			case near && i > 0:
				it = g.LocAfter(t.Items[i-1].T0x0200LocationItem)
			default:
				it = g.Loc()
			}
			t.Items = append(t.Items, model.T0x0704LocationItem{Len: 28, T0x0200LocationItem: it})
		}
		add("T0x0704", "T0x0704", 0x0704, V13, t, func() TwoWay { return &model.T0x0704{} })
	}
	add("T0x0800", "T0x0800", 0x0800, V13, &model.T0x0800{MultimediaID: g.Word32(), MultimediaType: g.Enum8(), MultimediaFormatEncode: g.Enum8(), EventItemEncode: g.Enum8(), ChannelID: g.Enum8()}, func() TwoWay { return &model.T0x0800{} })
	{
		// multimedia upload whose location block starts like a media file (and the reverse: media data that starts like a
		// location block): a parser that sniffs the payload to guess the layout mistakes one for the other
		loc := g.Loc()
		loc.AlarmSign = magicWords[g.Intn(len(magicWords))]
		pkg := g.Bytes(g.ListLen(900))
		if len(pkg) >= 4 && g.Bool() {
			binary.BigEndian.PutUint32(pkg, magicWords[g.Intn(len(magicWords))])
		}
		add("T0x0801/magic", "T0x0801", 0x0801, V13, &model.T0x0801{MultimediaID: g.Word32(), MultimediaType: byte(g.Intn(3)), MultimediaFormatEncode: byte(g.Intn(3)), EventItemEncode: g.Enum8(), ChannelID: g.Enum8(), T0x0200LocationItem: loc, MultimediaPackage: pkg}, func() TwoWay { return &model.T0x0801{} })
	}
	add("T0x0801", "T0x0801", 0x0801, V13, &model.T0x0801{MultimediaID: g.Word32(), MultimediaType: g.Enum8(), MultimediaFormatEncode: g.Enum8(), EventItemEncode: g.Enum8(), ChannelID: g.Enum8(), T0x0200LocationItem: g.Loc(), MultimediaPackage: g.Bytes(g.ListLen(900))}, func() TwoWay { return &model.T0x0801{} })
	{
		n := g.ListLen(250)
		t := &model.T0x0805{RespondSerialNumber: g.U16(), Result: g.U8(), MultimediaIDNumber: uint16(n)}
		for i := 0; i < n; i++ {
			t.MultimediaIDList = append(t.MultimediaIDList, g.U32())
		}
		add("T0x0805", "T0x0805", 0x0805, V13, t, func() TwoWay { return &model.T0x0805{} })
	}
	add("T0x1003", "T0x1003", 0x1003, V13, &model.T0x1003{EnterAudioEncoding: g.U8(), EnterAudioChannelsNumber: g.U8(), EnterAudioSampleRate: g.U8(), EnterAudioSampleDigits: g.U8(), AudioFrameLength: g.U16(), HasSupportedAudioOutput: g.U8(), VideoEncoding: g.U8(), TerminalSupportedMaxNumberOfAudioPhysicalChannels: g.U8(), TerminalSupportedMaxNumberOfVideoPhysicalChannels: g.U8()}, func() TwoWay { return &model.T0x1003{} })
	sp1, ep1 := g.TSPair()
	add("T0x1005", "T0x1005", 0x1005, V13, &model.T0x1005{StartTime: sp1, EndTime: ep1, BoardNumber: g.U16(), AlightNumber: g.U16()}, func() TwoWay { return &model.T0x1005{} })
	{
		n := g.ListLen(36)
		t := &model.T0x1205{SerialNumber: g.U16(), AudioVideoResourceTotal: uint32(n)}
		for i := 0; i < n; i++ {
			st, et := g.TSPair()
			t.AudioVideoResourceList = append(t.AudioVideoResourceList, model.T0x1205AudioVideoResource{ChannelNo: g.U8(), StartTime: st, EndTime: et, AlarmFlag: g.U64(), AudioVideoResourceType: g.U8(), StreamType: g.U8(), MemoryType: g.U8(), FileSizeByte: g.U32()})
		}
		add("T0x1205", "T0x1205", 0x1205, V13, t, func() TwoWay { return &model.T0x1205{} })
	}
	add("T0x1206", "T0x1206", 0x1206, V13, &model.T0x1206{RespondSerialNumber: g.U16(), Result: g.U8()}, func() TwoWay { return &model.T0x1206{} })
	for _, d := range Dialects {
		d := d
		n := g.ListLen(12)
		t := &model.T0x1210{P9208AlarmSign: g.Sign(d), AlarmID: g.Fixed(32, true), InfoType: g.U8(), AttachCount: byte(n)}
		if d != consts.ActiveSafetyHLJ {
			t.TerminalID = g.Fixed(IDLen(d), true)
		}
		for i := 0; i < n; i++ {
			nm := g.FileName(60) // names have length >= 1 (the parser's count x 6 pre-check assumes it)
			t.T0x1210AlarmItemList = append(t.T0x1210AlarmItemList, model.T0x1210AlarmItem{FileNameLen: byte(len(nm)), FileName: nm, FileSize: g.U32()})
		}
		tc := TCase{Name: fmt.Sprintf("T0x1210/dialect%d", d), Type: "T0x1210", ID: 0x1210, Ver: V13, Dialect: d, Val: t,
			Mk: func() TwoWay { return &model.T0x1210{P9208AlarmSign: model.P9208AlarmSign{ActiveSafetyType: d}} }}
		out = append(out, tc)
		ip := g.Str(g.Len8(20))
		p := &model.P0x9208{ServerIPLen: byte(len(ip)), ServerAddr: ip, TcpPort: g.U16(), UdpPort: g.U16(), P9208AlarmSign: g.Sign(d), AlarmID: g.Fixed(32, true), Reserve: g.Bytes(g.Intn(17))}
		out = append(out, TCase{Name: fmt.Sprintf("P0x9208/dialect%d", d), Type: "P0x9208", ID: 0x9208, Ver: V13, Dialect: d, Val: p,
			Mk: func() TwoWay { return &model.P0x9208{P9208AlarmSign: model.P9208AlarmSign{ActiveSafetyType: d}} }})
	}
	{
		nm := g.FileName(80)
		add("T0x1211", "T0x1211", 0x1211, V13, &model.T0x1211{FileNameLen: byte(len(nm)), FileName: nm, FileType: g.U8(), FileSize: g.U32()}, func() TwoWay { return &model.T0x1211{} })
		add("T0x1212", "T0x1212", 0x1212, V13, &model.T0x1212{T0x1211: model.T0x1211{FileNameLen: byte(len(nm)), FileName: nm, FileType: g.U8(), FileSize: g.U32()}}, func() TwoWay { return &model.T0x1212{} })
	}
	add("P0x8001", "P0x8001", 0x8001, V13, &model.P0x8001{RespondSerialNumber: g.U16(), RespondID: g.U16(), Result: g.U8()}, func() TwoWay { return &model.P0x8001{} })
	{
		n := g.ListLen(255)
		p := &model.P0x8003{OriginalSerialNumber: g.U16(), AgainPackageCount: byte(n)}
		q := &model.P0x8800{MultimediaID: g.U32(), AgainPackageCount: byte(n)}
		for i := 0; i < n; i++ {
			p.AgainPackageList = append(p.AgainPackageList, g.U16())
			q.AgainPackageList = append(q.AgainPackageList, g.U16())
		}
		add("P0x8003", "P0x8003", 0x8003, V13, p, func() TwoWay { return &model.P0x8003{} })
		add("P0x8800", "P0x8800", 0x8800, V13, q, func() TwoWay { return &model.P0x8800{} })
	}
	add("P0x8100", "P0x8100", 0x8100, V13, &model.P0x8100{RespondSerialNumber: g.U16(), Result: g.U8(), AuthCode: g.Raw(g.Intn(30))}, func() TwoWay { return &model.P0x8100{} })
	add("P0x8801", "P0x8801", 0x8801, V13, &model.P0x8801{ChannelID: g.U8(), ShootCommand: g.U16(), PhotoIntervalOrVideoTime: g.U16(), SaveFlag: g.U8(), Resolution: g.U8(), VideoQuality: g.U8(), Intensity: g.U8(), Contrast: g.U8(), Saturation: g.U8(), Chroma: g.U8()}, func() TwoWay { return &model.P0x8801{} })
	{
		ip := g.Raw(g.Len8(30))
		if g.Chance(1, 3) {
			ip, _ = g.Plausible(255)
		}
		sp3, ep3 := g.TSPair()
		add("P0x9101", "P0x9101", 0x9101, V13, &model.P0x9101{ServerIPLen: byte(len(ip)), ServerIPAddr: ip, TcpPort: g.U16(), UdpPort: g.U16(), ChannelNo: g.U8(), DataType: g.U8(), StreamType: g.U8()}, func() TwoWay { return &model.P0x9101{} })
		add("P0x9201", "P0x9201", 0x9201, V13, &model.P0x9201{ServerIPLen: byte(len(ip)), ServerIPAddr: ip, TcpPort: g.U16(), UdpPort: g.U16(), ChannelNo: g.U8(), MediaType: g.U8(), StreamType: g.U8(), MemoryType: g.U8(), PlaybackWay: g.U8(), PlaySpeed: g.U8(), StartTime: sp3, EndTime: ep3}, func() TwoWay { return &model.P0x9201{} })
	}
	add("P0x9102", "P0x9102", 0x9102, V13, &model.P0x9102{ChannelNo: g.U8(), ControlCmd: g.U8(), CloseAudioVideoData: g.U8(), StreamType: g.U8()}, func() TwoWay { return &model.P0x9102{} })
	add("P0x9105", "P0x9105", 0x9105, V13, &model.P0x9105{ChannelNo: g.U8(), PackageLossRate: g.U8()}, func() TwoWay { return &model.P0x9105{} })
	add("P0x9202", "P0x9202", 0x9202, V13, &model.P0x9202{ChannelNo: g.U8(), PlayControl: g.U8(), PlaySpeed: g.U8(), DateTime: g.TS()}, func() TwoWay { return &model.P0x9202{} })
	sp2, ep2 := g.TSPair()
	add("P0x9205", "P0x9205", 0x9205, V13, &model.P0x9205{ChannelNo: g.U8(), StartTime: sp2, EndTime: ep2, AlarmFlag: g.U64(), MediaType: g.U8(), StreamType: g.U8(), StorageType: g.U8()}, func() TwoWay { return &model.P0x9205{} })
	{
		ls := []int{g.Intn(20), g.Intn(20), g.Intn(20), g.Intn(20)}
		ls[g.Intn(4)] = g.Len8(20) // one of the four length-prefixed strings may be long
		a, u, pw, pa := g.Raw(ls[0]), g.Raw(ls[1]), g.Raw(ls[2]), g.Raw(ls[3])
		add("P0x9206", "P0x9206", 0x9206, V13, &model.P0x9206{FTPAddrLen: byte(len(a)), FTPAddr: a, Port: g.U16(), UsernameLen: byte(len(u)), Username: u, PasswordLen: byte(len(pw)), Password: pw, FileUploadPathLen: byte(len(pa)), FileUploadPath: pa, ChannelNo: g.U8(), StartTime: g.TS(), EndTime: g.TS(), AlarmFlag: g.U64(), MediaType: g.U8(), StreamType: g.U8(), MemoryPosition: g.U8(), TaskExecuteCondition: g.U8()}, func() TwoWay { return &model.P0x9206{} })
	}
	add("P0x9207", "P0x9207", 0x9207, V13, &model.P0x9207{RespondSerialNumber: g.U16(), UploadControl: g.U8()}, func() TwoWay { return &model.P0x9207{} })
	{
		nm := g.Raw(g.Intn(40))
		n := g.ListLen(100)
		p := &model.P0x9212{FileNameLen: byte(len(nm)), FileName: nm, FileType: g.U8(), UploadResult: g.U8(), RetransmitPacketNumber: byte(n)}
		for i := 0; i < n; i++ {
			p.P0x9212RetransmitPacketList = append(p.P0x9212RetransmitPacketList, model.P0x9212RetransmitPacket{DataOffset: g.U32(), DataLength: g.U32()})
		}
		add("P0x9212", "P0x9212", 0x9212, V13, p, func() TwoWay { return &model.P0x9212{} })
	}
	// terminal parameters by reflection: every ParamContent field may be present
	{
		frac := 1 + g.Intn(6)
		tp, cnt := g.TerminalParams(func(string) bool { return g.Intn(frac) == 0 })
		fields := ParamFieldIDs()
		tp.OtherContent = map[uint32]model.ParamContent[[]byte]{}
		for k := g.Intn(4); k > 0; k-- {
			var id uint32
			switch g.Intn(4) {
			case 0:
				id = uint32(0xF000 + g.Intn(0x100))
			case 1:
				id = uint32(g.Intn(0x120)) // the standard's range, including IDs the switch may accept but store nowhere
			case 2:
				// IDs the standard reserves next to defined ones (0x0111..0x01FF "other CAN bus ID settings", gaps between blocks)
				id = uint32([]int{0x0111, 0x0112, 0x0120, 0x01fe, 0x01ff, 0x0200, 0x0085, 0x005f, 0x0066, 0x0074, 0x007d, 0x0095}[g.Intn(12)])
			default:
				id = g.U32()
			}
			if _, has := fields[id]; has {
				continue
			}
			b := g.Bytes(1 + g.Intn(10))
			if g.Chance(1, 2) {
				b = g.Bytes([]int{1, 2, 4, 8}[g.Intn(4)]) // the widths typed parameters have
			}
			if _, dup := tp.OtherContent[id]; !dup {
				tp.OtherContent[id] = model.ParamContent[[]byte]{ID: id, Len: byte(len(b)), Value: b}
				cnt++
			}
		}
		add("P0x8103", "P0x8103", 0x8103, V13, &model.P0x8103{ParamTotal: byte(cnt), TerminalParamDetails: tp}, func() TwoWay { return &model.P0x8103{} })
	}
	return out
}
