package ref

// R-1078: JT/T 1078-2016 table 19 RTP packet layout, written from the standard.
//   0  frame marker 30 31 63 64
//   4  V(2) P(1) X(1) CC(4)
//   5  M(1) PT(7)
//   6  sequence number u16
//   8  SIM BCD[6]
//  14  logical channel u8
//  15  data type(4) | sub-package mark(4)
//  16  timestamp u64            — absent when data type = 0100 (transparent data)
//  ..  last I-frame interval u16, last frame interval u16 — only for video frames (data type 0000,0001,0010)
//  ..  body length u16
//  ..  body

type RTP struct {
	V, P, X, CC, M, PT   byte
	Seq                  uint16
	Sim                  [6]byte
	Channel              byte
	DataType, Mark       byte
	Timestamp            uint64
	IInterval, FInterval uint16
	Payload              []byte
}

func (k RTP) HasTimestamp() bool { return k.DataType != 4 }
func (k RTP) HasIntervals() bool { return k.DataType <= 2 }

func (k RTP) HeaderLen() int {
	n := 16 + 2
	if k.HasTimestamp() {
		n += 8
	}
	if k.HasIntervals() {
		n += 4
	}
	return n
}

func (k RTP) Build() []byte {
	b := []byte{0x30, 0x31, 0x63, 0x64}
	b = append(b, k.V<<6|k.P<<5|k.X<<4|k.CC, k.M<<7|k.PT)
	b = append(b, byte(k.Seq>>8), byte(k.Seq))
	b = append(b, k.Sim[:]...)
	b = append(b, k.Channel, k.DataType<<4|k.Mark)
	if k.HasTimestamp() {
		for i := 7; i >= 0; i-- {
			b = append(b, byte(k.Timestamp>>(8*i)))
		}
	}
	if k.HasIntervals() {
		b = append(b, byte(k.IInterval>>8), byte(k.IInterval), byte(k.FInterval>>8), byte(k.FInterval))
	}
	b = append(b, byte(len(k.Payload)>>8), byte(len(k.Payload)))
	return append(b, k.Payload...)
}

// ClassifyRTP: what a decoder must say about data (independent of Build):
// "short" (cannot hold the packet it starts), "unqualified" (>=16 bytes, no marker), or "packet" with its total length.
func ClassifyRTP(d []byte) (string, int) {
	if len(d) < 16 {
		return "short", 0
	}
	if d[0] != 0x30 || d[1] != 0x31 || d[2] != 0x63 || d[3] != 0x64 {
		return "unqualified", 0
	}
	dt := d[15] >> 4
	h := 16
	if dt != 4 {
		h += 8
	}
	if dt <= 2 {
		h += 4
	}
	if len(d) < h+2 {
		return "short", 0
	}
	bl := int(d[h])<<8 | int(d[h+1])
	if len(d) < h+2+bl {
		return "short", 0
	}
	return "packet", h + 2 + bl
}
