package ref

import "sort"

// R-ranges: the maximal missing byte ranges of a file of the given size, given the received chunks
// (offset, length), in ascending order. Independent of the implementation: a plain interval complement.
type Range struct{ Off, Len uint32 }

func MissingRanges(size uint32, chunks []Range) []Range {
	type iv struct{ a, b uint64 } // [a,b)
	var ivs []iv
	for _, c := range chunks {
		a, b := uint64(c.Off), uint64(c.Off)+uint64(c.Len)
		if a >= uint64(size) || c.Len == 0 {
			continue
		}
		if b > uint64(size) {
			b = uint64(size)
		}
		ivs = append(ivs, iv{a, b})
	}
	sort.Slice(ivs, func(i, j int) bool { return ivs[i].a < ivs[j].a })
	var out []Range
	cur := uint64(0)
	for _, v := range ivs {
		if v.a > cur {
			out = append(out, Range{uint32(cur), uint32(v.a - cur)})
		}
		if v.b > cur {
			cur = v.b
		}
	}
	if cur < uint64(size) {
		out = append(out, Range{uint32(cur), uint32(uint64(size) - cur)})
	}
	return out
}
