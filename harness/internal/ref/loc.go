package ref

import "fmt"

// R-loc: JT/T 808 location report tables, transcribed from the standard (tables 23-32 of JT/T 808-2013 and
// the 2019 additions). Field names are those of the library's exported structs (looked up by reflection in
// the monitor), bit positions are the standard's.

// AlarmBits[i] = name of the flag for bit i of the alarm word (table 24).
var AlarmBits = []string{"EmergencyAlarm", "OverSpeed", "FatigueDriving", "DangerousAlarm", "GNSSModuleFault", "GNSSAntennaFault",
	"GNSSAntennaShortCircuit", "TerminalPowerSupply", "TerminalPowerSupplyShutdown", "TerminalLCDFault", "TTSModuleFault", "CameraFault",
	"ICCardModuleFault", "OverSpeedAlarm", "FatigueDrivingAlarm", "ViolationDrivingAlarm", "TirePressureAlarm", "RightTurnBlindAreaAlarm",
	"DrivingTimeout", "OverTimeStop", "InOutArea", "InOutLine", "SectionDrivingTime", "LineDeviation", "VSSFault", "OilLevelAbnormality",
	"StealCar", "LaneDeviation", "LaneOffset", "CollisionAlarm", "SideSlipAlarm", "LaneOpeningAlarm"}

// StatusBits: single-bit entries of the status word (table 25); bits 8-9 (load) are a two-bit field and not listed.
var StatusBits = map[int]string{0: "ACC", 1: "Location", 2: "South", 3: "East", 4: "Suspended", 5: "Encryption", 6: "EmergencyBrake", 7: "LaneOffset",
	10: "Oil", 11: "Electricity", 12: "VehicleDoor", 13: "FrontDoor", 14: "MiddleDoor", 15: "BackDoor", 16: "DriverDoor", 17: "CustomDoor",
	18: "UseGPS", 19: "UseBD", 20: "UseGLONASS", 21: "UseGalileo", 22: "VehicleRunning"}

// ExtSignalBits: additional-information item 0x25, bits 0..14 (table 31).
var ExtSignalBits = []string{"LowBeamSignal", "HighBeamSignal", "RightTurnSignal", "LeftTurnSignal", "BrakeSignal", "ReverseGearSignal", "FogLightSignal",
	"ClearanceLights", "HornSignal", "AirConditionerSignal", "NeutralSignal", "RetarderWork", "ABSWork", "HeaterWork", "ClutchStatus"}

// StdItemLen: admissible lengths of the standard additional-information items (table 27).
var StdItemLen = map[byte][]int{0x01: {4}, 0x02: {2}, 0x03: {2}, 0x04: {2}, 0x05: {30}, 0x06: {2}, 0x11: {1, 5}, 0x12: {6}, 0x13: {7},
	0x25: {4}, 0x2a: {2}, 0x2b: {4}, 0x30: {1}, 0x31: {1}}

func ItemAdmissible(id byte, l int) bool {
	ls, ok := StdItemLen[id]
	if !ok {
		return true
	}
	for _, x := range ls {
		if x == l {
			return true
		}
	}
	return false
}

func BE16(b []byte) uint16 { return uint16(b[0])<<8 | uint16(b[1]) }
func BE32(b []byte) uint32 {
	return uint32(b[0])<<24 | uint32(b[1])<<16 | uint32(b[2])<<8 | uint32(b[3])
}

// BCDTime renders 6 BCD bytes as the library documents: 20YY-MM-DD hh:mm:ss.
func BCDTime(b []byte) string {
	d := func(x byte) string { return fmt.Sprintf("%d%d", x>>4, x&15) }
	return "20" + d(b[0]) + "-" + d(b[1]) + "-" + d(b[2]) + " " + d(b[3]) + ":" + d(b[4]) + ":" + d(b[5])
}
