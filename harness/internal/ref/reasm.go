package ref

import "sort"

// R-stream: frame boundaries of a byte stream made of concatenated frames.
// FrameEnds returns, for a stream that is a concatenation of the given frames, the offset of each
// frame's closing delimiter.
func FrameEnds(frames [][]byte) []int {
	ends := make([]int, len(frames))
	off := 0
	for i, f := range frames {
		off += len(f)
		ends[i] = off - 1
	}
	return ends
}

// R-reasm: reference sub-package reassembly machine with the timer rules of C14 on a virtual clock.
// Written from the property statements C05/C14, not from the implementation.
type Transfer struct {
	Total       int
	Slots       map[int][]byte
	FirstSerial uint16
	Began       int64 // virtual ms
	LastEvent   int64 // last packet arrival or last re-request
}

type Reasm struct {
	Now  int64 // virtual milliseconds
	Open map[uint16]*Transfer
}

func NewReasm() *Reasm { return &Reasm{Open: map[uint16]*Transfer{}} }

type Delivered struct {
	ID   uint16
	Body []byte
}

type ReRequest struct {
	ID          uint16 // message ID of the transfer
	FirstSerial uint16
	Missing     []uint16
}

// Packet processes one sub-package frame; returns a completed message if this packet completes its transfer.
// undefined=true when the situation is outside what the properties define (the monitor then skips the scenario).
func (r *Reasm) Packet(f *Frame) (done *Delivered, undefined bool) {
	n, k := int(f.Sum), int(f.No)
	t := r.Open[f.ID]
	if n < 1 {
		return nil, true // fragment bit with an announced total of 0: outside the property (totals N >= 1)
	}
	if k == 1 {
		// a packet 1 while a transfer of this ID is open: the terminal abandoned that message and starts a new one, which
		// C05/C14 cover like any other ("a message sent as N sub-packages with packet 1 first"); the old, incomplete set
		// is never delivered. (A re-sent identical packet 1 is indistinguishable from this and has the same outcome.)
		t = &Transfer{Total: n, Slots: map[int][]byte{}, FirstSerial: f.Serial, Began: r.Now}
		r.Open[f.ID] = t
	}
	if t == nil {
		return nil, false // no transfer open (packet 1 never seen / transfer expired): ignored
	}
	if k < 1 || k > t.Total {
		return nil, false // impossible number: ignored
	}
	if n != t.Total {
		return nil, true // contradictory totals: not defined
	}
	if len(f.Body) == 0 {
		return nil, true // empty packet body: not defined
	}
	t.Slots[k] = f.Body
	t.LastEvent = r.Now
	if len(t.Slots) == t.Total {
		var body []byte
		for i := 1; i <= t.Total; i++ {
			body = append(body, t.Slots[i]...)
		}
		delete(r.Open, f.ID)
		return &Delivered{ID: f.ID, Body: body}, false
	}
	return nil, false
}

// Expire drops transfers that began 60 s ago or more. It is applied BEFORE the packets of an inbound read:
// "a transfer still incomplete 60 s after it began is discarded and is never delivered".
func (r *Reasm) Expire() {
	for id, t := range r.Open {
		if r.Now-t.Began >= 60000 {
			delete(r.Open, id)
		}
	}
}

// Tick is applied after the packets of an inbound read: re-requests for transfers idle for 5 s or more.
func (r *Reasm) Tick() []ReRequest {
	var out []ReRequest
	var ids []int
	for id := range r.Open {
		ids = append(ids, int(id))
	}
	sort.Ints(ids)
	for _, idi := range ids {
		t := r.Open[uint16(idi)]
		if r.Now-t.LastEvent >= 5000 {
			var miss []uint16
			for k := 1; k <= t.Total; k++ {
				if _, ok := t.Slots[k]; !ok {
					miss = append(miss, uint16(k))
				}
			}
			out = append(out, ReRequest{ID: uint16(idi), FirstSerial: t.FirstSerial, Missing: miss})
			t.LastEvent = r.Now
		}
	}
	return out
}

// NearThreshold reports whether any open transfer is within eps ms of the 5 s or 60 s thresholds — the monitor
// keeps virtual time away from the thresholds by construction and uses this to assert that.
func (r *Reasm) NearThreshold(eps int64) bool {
	for _, t := range r.Open {
		for _, d := range []int64{r.Now - t.LastEvent - 5000, r.Now - t.Began - 60000} {
			if d > -eps && d < eps {
				return true
			}
		}
	}
	return false
}
