// Package ref: independent reference model of JT/T 808 framing (prototype).
package ref

import "strings"

type Frame struct {
	ID         uint16
	BodyLen    int
	Encrypt    bool // bit 10
	Fragmented bool // bit 13
	V2019      bool // bit 14
	VersionByt byte
	BCD        []byte
	Phone      string
	Serial     uint16
	Sum, No    uint16
	Body       []byte
	Check      byte
}

// Unescape returns the payload (header+body+checksum) or ok=false.
// Domain: any byte string. Interior 0x7e is treated as an ordinary byte (callers never pass one).
func Unescape(b []byte) ([]byte, bool) {
	if len(b) < 3 || b[0] != 0x7e || b[len(b)-1] != 0x7e {
		return nil, false
	}
	in := b[1 : len(b)-1]
	out := make([]byte, 0, len(in))
	for i := 0; i < len(in); i++ {
		c := in[i]
		if c != 0x7d {
			out = append(out, c)
			continue
		}
		if i+1 < len(in) {
			switch in[i+1] {
			case 0x01:
				out = append(out, 0x7d)
				i++
				continue
			case 0x02:
				out = append(out, 0x7e)
				i++
				continue
			}
			return nil, false // 7d followed by something else, not at the end
		}
		// bare 7d as very last payload byte: tolerated (unescaped checksum)
		out = append(out, 0x7d)
	}
	return out, true
}

func PhoneString(bcd []byte) string {
	const hexd = "0123456789abcdef"
	var sb strings.Builder
	for _, c := range bcd {
		sb.WriteByte(hexd[c>>4])
		sb.WriteByte(hexd[c&15])
	}
	s := sb.String()
	t := strings.TrimLeft(s, "0")
	if t == "" {
		return s
	}
	return t
}

// Validate implements the acceptance set of property C02.
func Validate(b []byte) (*Frame, bool) {
	p, ok := Unescape(b)
	if !ok {
		return nil, false
	}
	var x byte
	for _, c := range p {
		x ^= c
	}
	if x != 0 {
		return nil, false
	}
	if len(p) < 4 {
		return nil, false
	}
	f := &Frame{}
	f.ID = uint16(p[0])<<8 | uint16(p[1])
	attr := uint16(p[2])<<8 | uint16(p[3])
	f.BodyLen = int(attr & 0x3ff)
	f.Encrypt = attr&(1<<10) != 0
	f.Fragmented = attr&(1<<13) != 0
	f.V2019 = attr&(1<<14) != 0
	pos := 4
	phoneLen := 6
	if f.V2019 {
		if len(p) < 5 {
			return nil, false
		}
		f.VersionByt = p[4]
		pos = 5
		phoneLen = 10
	}
	hdr := pos + phoneLen + 2
	if f.Fragmented {
		hdr += 4
	}
	// complete header + declared body + checksum byte, exactly
	if len(p) != hdr+f.BodyLen+1 {
		return nil, false
	}
	f.BCD = p[pos : pos+phoneLen]
	f.Phone = PhoneString(f.BCD)
	pos += phoneLen
	f.Serial = uint16(p[pos])<<8 | uint16(p[pos+1])
	pos += 2
	if f.Fragmented {
		f.Sum = uint16(p[pos])<<8 | uint16(p[pos+1])
		f.No = uint16(p[pos+2])<<8 | uint16(p[pos+3])
		pos += 4
	}
	f.Body = p[pos : pos+f.BodyLen]
	f.Check = p[len(p)-1]
	return f, true
}

type Params struct {
	ID         uint16
	V2019      bool
	VersionByt byte
	Encrypt    bool
	Fragmented bool
	Sum, No    uint16
	BCD        []byte // 6 or 10 bytes
	Serial     uint16
	Body       []byte
}

func Escape(p []byte) []byte {
	out := []byte{0x7e}
	for _, c := range p {
		switch c {
		case 0x7e:
			out = append(out, 0x7d, 0x02)
		case 0x7d:
			out = append(out, 0x7d, 0x01)
		default:
			out = append(out, c)
		}
	}
	return append(out, 0x7e)
}

func Payload(q Params) []byte {
	attr := uint16(len(q.Body)) & 0x3ff
	if q.Encrypt {
		attr |= 1 << 10
	}
	if q.Fragmented {
		attr |= 1 << 13
	}
	if q.V2019 {
		attr |= 1 << 14
	}
	p := []byte{byte(q.ID >> 8), byte(q.ID), byte(attr >> 8), byte(attr)}
	if q.V2019 {
		p = append(p, q.VersionByt)
	}
	p = append(p, q.BCD...)
	p = append(p, byte(q.Serial>>8), byte(q.Serial))
	if q.Fragmented {
		p = append(p, byte(q.Sum>>8), byte(q.Sum), byte(q.No>>8), byte(q.No))
	}
	p = append(p, q.Body...)
	var x byte
	for _, c := range p {
		x ^= c
	}
	return append(p, x)
}

func Build(q Params) []byte { return Escape(Payload(q)) }
