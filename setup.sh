#!/bin/bash
# setup_cmd: build the monitor binaries offline from files on disk (warms the Go build cache incl. the
# race-instrumented standard library so that the per-check rebuilds are incremental).
set -e
VERIF="$(cd "$(dirname "$0")" && pwd)"
export GOFLAGS=-mod=mod GOPROXY=off GOSUMDB=off GOTOOLCHAIN=local
cd "$VERIF/harness"
mkdir -p bin "$VERIF/.work" "$VERIF/evidence" "$VERIF/replays"
go build -tags verif -o bin/vcheck ./cmd/vcheck
go build -tags verif -race -o bin/vcheck-race ./cmd/vcheck
OV="$VERIF/.work/overlay"; rm -rf "$OV"; mkdir -p "$OV"
./bin/vcheck yieldgen /repo/service "$OV" > "$OV/sites.txt"
go build -tags verif -race -overlay "$OV/overlay.json" -o bin/vcheck-raceov ./cmd/vcheck
echo "setup ok"
