#!/usr/bin/env python3
# helper used while building: append an entry to known_findings.json (never used by checks at run time)
import json,sys
status,prop,sig,commit,what=sys.argv[1:6]
p='/verif/known_findings.json'
d=json.load(open(p))
if status=='fixed':
    line=f"fixed: property={prop} {commit} {what}"
else:
    line=f"KNOWN-FINDING: property={prop} {what}"
e={"property":prop,"signature":sig,"status":status,"what":what,"line":line}
if commit: e["commit"]=commit
d["entries"].append(e)
json.dump(d,open(p,'w'),indent=1,ensure_ascii=False)
print(line)
