#!/bin/bash
# Entry point of every quick_cmd / thorough_cmd:  vcheck.sh <property> [quick|thorough]
# Rebuilds the monitor binaries from /repo's CURRENT working tree (Go's build cache makes this a no-op
# when nothing changed) and runs the orchestrator.
set -u
VERIF="$(cd "$(dirname "$0")" && pwd)"
export GOFLAGS=-mod=mod GOPROXY=off GOSUMDB=off GOTOOLCHAIN=local
export VERIF_ROOT="$VERIF"
PROP="$1"; TIER="${2:-${VERIF_TIER:-quick}}"
cd "$VERIF/harness" || exit 2
mkdir -p bin "$VERIF/.work"
# all three binaries are rebuilt on every invocation: plain, race detector, race detector + delay-injection overlay
need_race=1; need_ov=1
build() { # out, extra flags...
  local out="$1"; shift
  if ! go build -tags verif "$@" -o "$out" ./cmd/vcheck 2> "$VERIF/.work/build.$$.log"; then
    echo "BROKEN-CHECK: build of monitor against /repo failed:"; cat "$VERIF/.work/build.$$.log"; rm -f "$VERIF/.work/build.$$.log"; exit 2
  fi
  rm -f "$VERIF/.work/build.$$.log"
}
# serialise builds (several checks may start at once and share bin/)
exec 9> "$VERIF/.work/build.lock"; flock 9
build bin/vcheck
if [ $need_race = 1 ]; then build bin/vcheck-race -race; fi
if [ $need_ov = 1 ]; then
  OV="$VERIF/.work/overlay"
  rm -rf "$OV"; mkdir -p "$OV"
  if ! ./bin/vcheck yieldgen /repo/service "$OV" > "$OV/sites.txt" 2> "$OV/err.txt"; then
    echo "BROKEN-CHECK: delay-injection overlay generation failed:"; cat "$OV/err.txt"; exit 2
  fi
  build bin/vcheck-raceov -race -overlay "$OV/overlay.json"
fi
flock -u 9
exec ./bin/vcheck run "$PROP" -tier "$TIER"
